"""C35, eighth round.

ERRAPI - the set of CCodeWriter methods through which a generator function emits a jump to the error label is *derived* from Code.py
(closure of `self.<m>(...)` calls over the method that reads the function state's error label and marks it used), not listed by name:
`error_goto`, `error_goto_if*`, `put_error_if_neg`, `put_error_if_unbound`, and whatever is layered on them later.  G7, C35-SETUP and
C35-BORROW looked for the name prefix `error_goto` only, so an exit emitted through a `put_error_if_*` wrapper was invisible to them
(seed C35k: `put_error_if_neg` moved in front of the release of the unmanaged temp that holds the result of `__exit__`).

C35-HELD - path-sensitive form of G7 over that set: on every path through a generator function, between the last emission that uses an
unmanaged temp T (allocate_temp(.., manage_ref=False): the error cleanup of the C function does not know it) and the release of T the
function emits itself, no error exit and no fallible child code is emitted under the error label of the surrounding code.  The exits
emitted by a helper method of the same class (`self._emit_check(code)`) are seen through one level of MRO resolution.
"""
import ast

from ..core import Rule, AnalysisError, node_src
from ..engine import pyflow
from .gen import gen_functions, _code_call
from .dD4 import _unmanaged_alloc, _passes_code, _is_code, CHILD_ALL, CHILD_ERR

RELEASES = ('put_xdecref_clear', 'put_decref_clear', 'put_xdecref', 'put_decref')
EMIT = ('putln', 'put', 'put_safe')
MODULES = ('Nodes', 'ExprNodes', 'ModuleNode', 'UtilNodes', 'FusedNode', 'MatchCaseNodes')


# ================================================================================================= the error-exit API
def error_api(ctx, memo={}):
    """-> {method name of CCodeWriter: 'text' (returns the C text of the exit) | 'emit' (writes it)}"""
    key = id(ctx)
    if key in memo:
        return memo[key]
    ix = ctx.index
    cw = ix.cls('Code', 'CCodeWriter')
    if cw is None:
        raise AnalysisError('Code.CCodeWriter not found')
    methods = {}
    for c in ix.mro(cw):
        for name, fn in c.methods.items():
            methods.setdefault(name, fn)

    def forwards_pos(fn, api):
        # self.<api method>(.., <a parameter of fn>, ..): the caller supplies the position of the exit, so the exit belongs to the call site
        # (this keeps out putln -> emit_marker -> write_trace_line, which places the exit of a position marked earlier)
        params = {a.arg for a in fn.args.args + fn.args.kwonlyargs} - {'self'}
        for n in ast.walk(fn):
            if isinstance(n, ast.Call) and isinstance(n.func, ast.Attribute) and isinstance(n.func.value, ast.Name) and n.func.value.id == 'self' and n.func.attr in api:
                for a in list(n.args) + [k.value for k in n.keywords]:
                    if any(isinstance(x, ast.Name) and x.id in params for x in ast.walk(a)):
                        pp = {x.id for x in ast.walk(a) if isinstance(x, ast.Name)} & params
                        if any('pos' in q for q in pp):
                            return True
        return False

    def reads_error_label(fn):
        # lbl = self.funcstate.error_label ... use_label(lbl) / text built from it
        return any(isinstance(n, ast.Attribute) and n.attr == 'error_label' and isinstance(n.ctx, ast.Load) for n in ast.walk(fn)) and \
            any(isinstance(n, ast.Call) and isinstance(n.func, ast.Attribute) and n.func.attr == 'use_label' for n in ast.walk(fn))

    roots = {n for n, fn in methods.items() if reads_error_label(fn) and any(isinstance(x, ast.Return) and x.value is not None for x in ast.walk(fn))}
    if not roots:
        raise AnalysisError('no CCodeWriter method reads the error label and marks it used (error_goto moved?)')
    api = set(roots)
    changed = True
    while changed:
        changed = False
        for n, fn in methods.items():
            if n not in api and forwards_pos(fn, api):
                api.add(n)
                changed = True
    out = {}
    for n in api:
        fn = methods[n]
        emits = any(isinstance(x, ast.Call) and isinstance(x.func, ast.Attribute) and x.func.attr in EMIT and
                    isinstance(x.func.value, ast.Name) and x.func.value.id == 'self' for x in ast.walk(fn))
        out[n] = 'emit' if emits else 'text'
    memo[key] = out
    return out


def _key(e):
    try:
        return ast.unparse(e)
    except Exception:
        return None


def is_error_exit(call, api):
    """code.<error-exit method>(...) (the C text of the exit is emitted by the enclosing putln, or by the method itself)"""
    f = call.func
    return isinstance(f, ast.Attribute) and _is_code(f.value) and f.attr in api


def is_null_test(call, t):
    """the exit is taken exactly when the slot t is NULL (error_goto_if_null(t, pos) / error_goto_if("!%s" % t, pos)): nothing is held on that path"""
    f = call.func
    if not (isinstance(f, ast.Attribute) and call.args):
        return False
    a0 = call.args[0]
    if f.attr.endswith('_if_null'):
        return _key(a0) == t
    if isinstance(a0, ast.BinOp) and isinstance(a0.op, ast.Mod) and isinstance(a0.left, ast.Constant) and isinstance(a0.left.value, str):
        txt = a0.left.value.replace(' ', '')
        args = list(a0.right.elts) if isinstance(a0.right, ast.Tuple) else [a0.right]
        return txt in ('!%s', 'unlikely(!%s)', '(!%s)') and len(args) == 1 and _key(args[0]) == t
    return False


# ================================================================================================= C35-HELD
def _mentions(node, t):
    """does the expression tree contain the slot expression t (compared as expressions, not as text fragments)"""
    for x in ast.walk(node):
        if isinstance(x, (ast.Name, ast.Attribute)) and _key(x) == t:
            return True
    return False


def unmanaged_attr_names(ctx, memo={}):
    """attribute names X for which some generator function does `<obj>.X = allocate_temp(.., manage_ref=False)`"""
    k = id(ctx)
    if k not in memo:
        names = set()
        for m, qn, owner, fn in gen_functions(ctx, MODULES):
            for n in ast.walk(fn):
                if isinstance(n, ast.Assign) and len(n.targets) == 1 and isinstance(n.targets[0], ast.Attribute) and _unmanaged_alloc(n.value) is not None:
                    names.add(n.targets[0].attr)
        memo[k] = names
    return memo[k]


def helper_exits(ctx, owner, name, api, memo={}):
    """does the method `name` of the class (resolved through the MRO) itself emit an error exit / generate fallible child code on its `code` argument"""
    if owner is None:
        return False
    k = (id(ctx), owner.module.short if hasattr(owner, 'module') else id(owner), owner.name, name)
    if k in memo:
        return memo[k]
    memo[k] = False
    found = ctx.index.find_method(owner, name)
    if found:
        _, fn = found
        if 'code' in [a.arg for a in fn.args.args]:
            for c in ast.walk(fn):
                if isinstance(c, ast.Call) and is_error_exit(c, api):
                    memo[k] = True
                    break
    return memo[k]


def held_analyse(ctx, fn, owner, api, attr_names):
    """-> (temps {slot: release line}, violations [(slot, exit line, release line, what)], infos)"""
    local = set()
    for n in ast.walk(fn):
        if isinstance(n, ast.Assign) and len(n.targets) == 1 and _unmanaged_alloc(n.value) is not None:
            k = _key(n.targets[0])
            if k:
                local.add(k)
    temps = {}
    for n in ast.walk(fn):
        if isinstance(n, ast.Call) and isinstance(n.func, ast.Attribute) and _is_code(n.func.value) and n.func.attr in RELEASES and n.args:
            a = n.args[0]
            k = _key(a)
            if k in local or (isinstance(a, ast.Attribute) and a.attr in attr_names):
                temps.setdefault(k, n.lineno)
    if not temps:
        return {}, [], set()
    viol, infos = {}, set()
    attr_temps = {t for t in temps if t not in local or '.' in t}

    def cur(s):
        return next((f[1] for f in s if f[0] == 'lab'), 'outer')

    def setcur(s, lab):
        s = set(f for f in s if f[0] != 'lab')
        s.add(('lab', lab))
        return s

    def var(s, name):
        return next((f[2] for f in s if f[0] == 'var' and f[1] == name), None)

    def bind(s, name, lab):
        s = set(f for f in s if not (f[0] == 'var' and f[1] == name))
        if lab is not None:
            s.add(('var', name, lab))
        return s

    def label_releases(lab, t):
        """the function places the label (code.put_label(<lab>)) and emits a release of t behind it"""
        placed = [n.lineno for n in ast.walk(fn) if isinstance(n, ast.Call) and isinstance(n.func, ast.Attribute) and _is_code(n.func.value) and
                  n.func.attr == 'put_label' and n.args and _key(n.args[0]) == lab]
        rel = [n.lineno for n in ast.walk(fn) if isinstance(n, ast.Call) and isinstance(n.func, ast.Attribute) and _is_code(n.func.value) and
               n.func.attr in RELEASES and n.args and _key(n.args[0]) == t]
        enders = [n.lineno for n in ast.walk(fn) if isinstance(n, ast.Call) and isinstance(n.func, ast.Attribute) and _is_code(n.func.value) and
                  (n.func.attr == 'put_goto' or (n.func.attr in EMIT and n.args and isinstance(n.args[0], ast.Call) and is_error_exit(n.args[0], api) and
                                                 api.get(n.args[0].func.attr) == 'text' and 'if' not in n.args[0].func.attr))]
        return any(r > p and not any(p < e < r for e in enders) for p in placed for r in rel)

    def fallible(call):
        f = call.func
        if not isinstance(f, ast.Attribute):
            return None
        if is_error_exit(call, api):
            return 'an error exit (%s)' % node_src(call, 70)
        if f.attr in (CHILD_ALL | CHILD_ERR) and _passes_code(call) and not (isinstance(f.value, ast.Name) and f.value.id == 'self'):
            return 'child code that can fail (%s)' % node_src(call, 70)
        if isinstance(f.value, ast.Name) and f.value.id == 'self' and _passes_code(call) and helper_exits(ctx, owner, f.attr, api):
            return 'a helper that emits an error exit (%s)' % node_src(call, 70)
        return None

    def touches_code(call):
        f = call.func
        if not isinstance(f, ast.Attribute):
            return False
        v = f.value
        if _is_code(v) or (isinstance(v, ast.Attribute) and v.attr == 'funcstate' and _is_code(v.value)):
            return True
        return _passes_code(call)

    def transfer(node, st):
        s = set(st)
        calls = pyflow.calls_in(node)
        newlab_prev = None
        # labels first (they are statements of their own in practice)
        for call in calls:
            if _code_call(call, ('new_error_label',)):
                newlab_prev = cur(s)
                s = setcur(s, 'L%d' % call.lineno)
            elif _code_call(call, ('all_new_labels', 'set_all_labels', 'new_label_set', 'new_loop_labels')) and call.func.attr != 'new_loop_labels':
                s = setcur(s, '?')
        # 1. releases and uses of the temps
        for call in calls:
            f = call.func
            if not isinstance(f, ast.Attribute):
                continue
            a0 = call.args[0] if call.args else None
            if _is_code(f.value) and f.attr in RELEASES and a0 is not None and _key(a0) in temps:
                t = _key(a0)
                for x in [x for x in s if x[0] == 'err' and x[1] == t]:
                    viol.setdefault((t, x[2]), (x[2], call.lineno, x[3]))
                for x in [x for x in s if x[0] == 'jmp' and x[1] == t]:
                    if not label_releases(x[3], t):
                        viol.setdefault((t, x[2]), (x[2], call.lineno, 'a conditional jump to %s, where %s is not released' % (x[3], t)))
                s = set(x for x in s if not (x[0] in ('err', 'use', 'jmp') and x[1] == t))
                continue
            if _code_call(call, ('release_temp', 'allocate_temp')):
                continue
            if _is_code(f.value) and f.attr == 'put_goto':
                if ('pendif',) in s:
                    # code.put("if (..) "); code.put_goto(L): a conditional jump that leaves the straight-line path
                    s.discard(('pendif',))
                    lab = _key(a0) if a0 is not None else '?'
                    for t in temps:
                        if ('use', t) in s and not (a0 is not None and _mentions(a0, t)):
                            s.add(('jmp', t, call.lineno, lab))
                else:
                    # an unconditional jump ends the straight-line C path: what follows is reached from elsewhere
                    s = set(x for x in s if x[0] not in ('err', 'use', 'jmp'))
                continue
            if _is_code(f.value) and f.attr in EMIT:
                s.discard(('pendif',))
                if f.attr == 'put':
                    txt = a0
                    lit = ''
                    if isinstance(txt, ast.Constant) and isinstance(txt.value, str):
                        lit = txt.value
                    elif isinstance(txt, ast.JoinedStr) and txt.values and isinstance(txt.values[0], ast.Constant):
                        lit = str(txt.values[0].value)
                    elif isinstance(txt, ast.BinOp) and isinstance(txt.left, ast.Constant) and isinstance(txt.left.value, str):
                        lit = txt.left.value
                    if lit.lstrip().startswith('if'):
                        s.add(('pendif',))
            if f.attr in CHILD_ALL and _passes_code(call) and not (isinstance(f.value, ast.Name) and f.value.id == 'self'):
                # a statement sub-tree can reach a temp stored on the node (WithExitCallNode releases with_stat.exit_var): hand-over, not decided here
                s = set(x for x in s if not (x[0] in ('err', 'use') and x[1] in attr_temps))
                continue
            if is_error_exit(call, api):
                continue
            if touches_code(call):
                for t in temps:
                    if any(_mentions(a, t) for a in list(call.args) + [k.value for k in call.keywords]):
                        s = set(x for x in s if not (x[0] in ('err', 'jmp') and x[1] == t))
                        s.add(('use', t))
        # 2. error exits / fallible code that does not concern the temp
        for call in calls:
            why = fallible(call)
            if not why:
                continue
            for t in temps:
                if ('use', t) not in s:
                    continue
                if is_error_exit(call, api):
                    if is_null_test(call, t):
                        continue          # the NULL test of the temp itself
                elif any(_mentions(a, t) for a in list(call.args) + [k.value for k in call.keywords]):
                    continue          # the temp is handed to the child / helper
                lab = cur(s)
                if lab == 'outer':
                    s.add(('err', t, call.lineno, why))
                elif lab == '?':
                    infos.add('%s: labels replaced wholesale while %s is in use; not decided' % (fn.name, t))
        if isinstance(node, ast.Assign) and len(node.targets) == 1:
            tg, v = node.targets[0], node.value
            if isinstance(tg, ast.Name):
                if _code_call(v, ('new_error_label',)):
                    s = bind(s, tg.id, newlab_prev)
                elif isinstance(v, ast.Attribute) and _is_code(v.value) and v.attr == 'error_label':
                    s = bind(s, tg.id, cur(s))
                elif isinstance(v, ast.Name) and var(s, v.id):
                    s = bind(s, tg.id, var(s, v.id))
                else:
                    s = bind(s, tg.id, None)
            elif isinstance(tg, ast.Attribute) and _is_code(tg.value) and tg.attr == 'error_label':
                lab = var(s, v.id) if isinstance(v, ast.Name) else None
                s = setcur(s, lab or '?')
        return frozenset(s)

    try:
        pyflow.Flow(transfer).run(fn, frozenset())
    except pyflow.TooManyStates:
        return temps, [], {'%s: too many states, not decided' % fn.name}
    return temps, [(k[0], v[0], v[1], v[2]) for k, v in sorted(viol.items())], infos


HELD_CONTROL = '''
def generate_evaluation_code(self, code):
    result_var = code.funcstate.allocate_temp(py_object_type, manage_ref=False)
    code.putln("%s = call(%s);" % (result_var, self.arg.result()))
    code.putln(code.error_goto_if_null(result_var, self.pos))
    code.put_gotref(result_var, py_object_type)
    if self.result_is_used:
        code.putln("%s = __Pyx_PyObject_IsTrue(%s);" % (self.result(), result_var))
        code.put_error_if_neg(self.pos, self.result())
    code.put_decref_clear(result_var, type=py_object_type)
    code.funcstate.release_temp(result_var)
'''
HELD_CONTROL_OK = HELD_CONTROL.replace("        code.put_error_if_neg(self.pos, self.result())\n    code.put_decref_clear(result_var, type=py_object_type)\n",
                                       "    code.put_decref_clear(result_var, type=py_object_type)\n    if self.result_is_used:\n        code.put_error_if_neg(self.pos, self.result())\n")


def rule_errapi(ctx):
    r = Rule('C35-ERRAPI', 'the error-exit emitters of CCodeWriter (closure over the methods that forward a position to error_goto) are known to the ownership rules', floor=9)
    api = error_api(ctx)
    for n, kind in sorted(api.items()):
        r.inst('CCodeWriter.%s' % n, sample='CCodeWriter.%s %s a jump to the error label' % (n, 'emits' if kind == 'emit' else 'returns the text of'))
    for need in ('error_goto', 'error_goto_if_null', 'put_error_if_neg'):
        if need not in api:
            raise AnalysisError('CCodeWriter.%s is not recognised as an error-exit emitter (closure broken)' % need)
    r.positive_control(api.get('put_error_if_neg') == 'emit' and api.get('error_goto') == 'text', 'put_error_if_neg is derived as an emitting wrapper of error_goto')
    return r


def rule_held(ctx):
    r = Rule('C35-HELD', 'on every path, no error exit (any emitter of the derived error-exit API, a helper method that emits one) and no fallible child code is emitted under '
             'the surrounding error label between the last use of an unmanaged temp and the release the function emits for it', floor=5)
    api = error_api(ctx)
    attr_names = unmanaged_attr_names(ctx)
    for m, qn, owner, fn in gen_functions(ctx, MODULES):
        temps, viol, infos = held_analyse(ctx, fn, owner, api, attr_names)
        for t in sorted(temps):
            r.inst('%s.%s:%s' % (m.short, qn, t), sample='%s.%s releases the unmanaged temp %s itself (line %d)' % (m.short, qn, t, temps[t]))
        seen = set()
        for t, eline, rline, why in viol:
            if t in seen:
                continue
            seen.add(t)
            r.violate('%s.%s:%s' % (m.short, qn, t), m.rel, eline,
                      '%s emits %s (line %d) after the last use of the unmanaged temp %s and before its release (line %d): the error cleanup of the C function does not know '
                      'unmanaged temps, so when that exit is taken the reference held in %s is never released (leak on the error path)' % (qn, why, eline, t, rline, t))
        for i in sorted(infos):
            r.info(i)
    _, v, _ = held_analyse(ctx, ast.parse(HELD_CONTROL).body[0], None, api, set())
    _, v2, _ = held_analyse(ctx, ast.parse(HELD_CONTROL_OK).body[0], None, api, set())
    r.positive_control(bool(v) and not v2, 'put_error_if_neg emitted between the truth test of an unmanaged temp and its decref (and silent when the decref comes first)')
    return r


def rules(ctx):
    return [rule_errapi(ctx), rule_held(ctx)]
