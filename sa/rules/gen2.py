"""GEN rule family, part 2: evaluate/dispose/free pairing (G1), temp allocation/release (G2), bracket pairs (G5)."""
import ast, re, collections

from ..core import Rule, AnalysisError, node_src, norm_stmt
from ..engine import pyflow
from ..engine.pyindex import walk_no_nested, is_self_attr
from .gen import gen_functions, GEN_MODULES

EVAL = {'generate_evaluation_code'}
DISP = {'generate_disposal_code', 'generate_post_assignment_code'}
FREE = {'free_temps'}
TRANSFER = {'generate_assignment_code'}   # takes ownership of its first argument (the rhs)


def recv_key(n):
    """'self.attr' / 'name' / 'self.attr.sub' for the receiver of a method call, else None."""
    parts = []
    while isinstance(n, ast.Attribute):
        parts.append(n.attr)
        n = n.value
    if isinstance(n, ast.Name):
        parts.append(n.id)
        return '.'.join(reversed(parts))
    return None


def loop_aliases(fn):
    """loop variable -> receivers it ranges over, for `for v in (self.a, self.b)`; loop variables over other
    iterables map to None (element of a sequence)."""
    alias = {}
    for n in walk_no_nested(fn):
        if isinstance(n, (ast.For, ast.comprehension)) and isinstance(n.target, ast.Name):
            parts = [n.iter]
            while any(isinstance(p, ast.BinOp) and isinstance(p.op, ast.Add) for p in parts):
                parts = [q for p in parts for q in ((p.left, p.right) if isinstance(p, ast.BinOp) and isinstance(p.op, ast.Add) else (p,))]
            for p in parts:
                if isinstance(p, (ast.Tuple, ast.List)):
                    ks = [recv_key(e) for e in p.elts]
                    alias.setdefault(n.target.id, set()).update(k for k in ks if k)
                else:
                    alias.setdefault(n.target.id, set()).add(None)
        elif isinstance(n, (ast.For, ast.comprehension)):
            for x in ast.walk(n.target):
                if isinstance(x, ast.Name):
                    alias.setdefault(x.id, set()).add(None)
    return alias


def _events(fn):
    ev = collections.defaultdict(lambda: collections.defaultdict(list))
    alias = loop_aliases(fn)
    for c in walk_no_nested(fn):
        if isinstance(c, ast.Call) and isinstance(c.func, ast.Attribute):
            a = c.func.attr
            kind = 'E' if a in EVAL else 'D' if a in DISP else 'F' if a in FREE else None
            if kind == 'E' and (len(c.args) != 1 or c.keywords):
                kind = None   # CascadedCmpNode.generate_evaluation_code(code, result, operand1, ...) is a different protocol
            if kind:
                k = recv_key(c.func.value)
                if k and k != 'self':
                    ev[k][kind].append(c)
                    for k2 in alias.get(k, ()):
                        if k2:
                            ev[k2][kind + 'loop'].append(c)
            if a in TRANSFER and c.args:
                # target.generate_assignment_code(rhs, code): the callee disposes of rhs and frees its temps
                k = recv_key(c.args[0])
                if k:
                    ev[k]['D'].append(c)
                    ev[k]['F'].append(c)
    return ev


def rule_G1(ctx, floor=95):
    ix = ctx.index
    r = Rule('G1', 'every X.generate_evaluation_code(code) is followed on all normal paths by X.generate_disposal_code/post_assignment_code and X.free_temps '
             '(same method when the method pairs them itself, otherwise by the class: an explicit call in a sibling method or the inherited subexpr disposal)', floor)

    def path_check(fn, recv, need_kinds):
        """On every normal exit where recv was evaluated, the needed follow-up kinds happened afterwards."""
        def tr(n, state):
            s = set(state)
            for c in pyflow.calls_in(n):
                if isinstance(c.func, ast.Attribute) and recv_key(c.func.value) == recv:
                    a = c.func.attr
                    if a in EVAL:
                        s.add('E')
                        s.discard('D')
                        s.discard('F')
                    elif a in DISP and 'E' in s:
                        s.add('D')
                    elif a in FREE and 'E' in s:
                        s.add('F')
                if isinstance(c.func, ast.Attribute) and c.func.attr in TRANSFER and c.args and recv_key(c.args[0]) == recv and 'E' in s:
                    s.add('D')
                    s.add('F')
            # error(...) reported: internal-error paths abandon the protocol deliberately
            for c in pyflow.calls_in(n):
                if isinstance(c.func, ast.Name) and c.func.id in ('error', 'internal_error'):
                    s.add('ERR')
            return frozenset(s)
        def refine(test, truth, state):
            # `if self.is_temp:` — a non-temp node defers disposal of its operands to its own generate_disposal_code()
            txt = ast.unparse(test)
            if re.fullmatch(r'(not )?self\.(is_temp|result_in_temp\(\))', txt):
                neg = txt.startswith('not ')
                if truth == neg:
                    return frozenset(state | {'DEFER'})
            return state
        try:
            o = pyflow.Flow(tr, refine=refine).run(fn)
        except pyflow.TooManyStates:
            return None
        missing = set()
        for st in o.normal | o.returns:
            if 'E' in st and 'ERR' not in st and 'DEFER' not in st:
                for k in need_kinds:
                    if k not in st:
                        missing.add(k)
        return missing

    for m, qn, owner, fn in gen_functions(ctx):
        if m.short == 'Code':
            continue
        ev = _events(fn)
        aliases = loop_aliases(fn)
        for recv, kinds in sorted(ev.items()):
            if 'E' not in kinds and 'Eloop' not in kinds:
                continue
            key = '%s.%s:%s' % (m.short, qn, recv)
            if recv in aliases or 'E' not in kinds or any(k.endswith('loop') for k in kinds):
                # evaluated/disposed through a loop variable: the loops range over the same sequence, so only the
                # existence of the follow-ups is decided (no path claim)
                have = {k[0] for k in kinds}
                r.inst(key, sample='%s evaluates %s in a loop; follow-ups present: %s' % (m.short + '.' + qn, recv, ''.join(sorted(have - {'E'})) or '-'), nontrivial=False)
                if recv in aliases and None in aliases[recv] and not {'D', 'F'} <= have and have & {'D', 'F'}:
                    r.violate(key + ':loop', m.rel, (kinds.get('E') or kinds.get('Eloop'))[0].lineno,
                              '%s evaluates the elements %s in a loop and handles %s for them but never %s' % (
                                  qn, recv, 'disposal' if 'D' in have else 'free_temps', 'free_temps' if 'D' in have else 'disposal'))
                continue
            need_same = [k for k in ('D', 'F') if k in kinds]
            r.inst(key, sample='%s evaluates %s; same-method follow-ups: %s' % (m.short + '.' + qn, recv, ''.join(need_same) or '-'))
            if need_same:
                miss = path_check(fn, recv, need_same)
                if miss is None:
                    r.info('%s: state explosion' % key)
                elif miss:
                    what = ' and '.join({'D': 'generate_disposal_code', 'F': 'free_temps'}[k] for k in sorted(miss))
                    r.violate(key + ':' + ''.join(sorted(miss)), m.rel, kinds['E'][0].lineno,
                              '%s evaluates %s but on some normal path returns without %s(code): the value\'s reference / temporaries leak on that path' % (qn, recv, what))
            missing_cls = [k for k in ('D', 'F') if k not in kinds]
            if missing_cls and recv.startswith('self.') and recv.count('.') == 1 and owner is not None:
                attr = recv.split('.')[1]
                for k in missing_cls:
                    names = DISP if k == 'D' else FREE
                    ok = False
                    # explicit call in a sibling method of the class or its bases (below the generic Node/ExprNode level)
                    for cls in ix.mro(owner):
                        if cls.name in ('Node', 'ExprNode'):
                            continue
                        for mn, f2 in cls.methods.items():
                            ev2 = _events(f2)
                            if k in ev2.get(recv, {}) or (k + 'loop') in ev2.get(recv, {}):
                                ok = True
                    if not ok and ix.is_subclass(owner, 'ExprNode'):
                        # inherited default: ExprNode.generate_disposal_code / free_temps walk self.subexprs
                        sub = ix.class_list_attr(owner, 'subexprs')
                        generic = 'generate_subexpr_disposal_code' if k == 'D' else 'free_subexpr_temps'
                        overridden = any(generic in cls.methods for cls in ix.mro(owner) if cls.name != 'ExprNode')
                        if sub and sub[1] and attr in sub[1] and not overridden:
                            ok = True
                    if not ok:
                        r.violate(key + ':class-' + k, m.rel, kinds['E'][0].lineno,
                                  '%s evaluates %s, but no method of %s ever calls %s.%s(code) and the inherited subexpression handling does not cover it'
                                  % (qn, recv, owner.name, recv, 'generate_disposal_code' if k == 'D' else 'free_temps'))
    pc = ast.parse("def g(self, code):\n    self.a.generate_evaluation_code(code)\n    if self.b:\n        return\n    self.a.generate_disposal_code(code)\n    self.a.free_temps(code)\n").body[0]
    r.positive_control(path_check(pc, 'self.a', ['D', 'F']) == {'D', 'F'}, 'early return between evaluation and disposal')
    return r


# ---------------------------------------------------------------------------- G2 temps
def _alloc_target(n):
    """`x = code.funcstate.allocate_temp(...)` / `self.x = ...` / IfExp variants -> target key or None."""
    if not isinstance(n, ast.Assign) or len(n.targets) != 1:
        return None
    v = n.value
    if isinstance(v, ast.IfExp):
        cands = [v.body, v.orelse]
    else:
        cands = [v]
    if any(isinstance(c, ast.Call) and isinstance(c.func, ast.Attribute) and c.func.attr == 'allocate_temp' for c in cands):
        return recv_key(n.targets[0])
    return None


def rule_G2(ctx, floor=60):
    ix = ctx.index
    r = Rule('G2', 'every temp from funcstate.allocate_temp() is released: locals on every normal path of the allocating function '
             '(aliases through lists/loops followed), attributes by a method of the same class', floor)

    def released_names(fn):
        """Names/attrs passed to release_temp in fn, following `for t in [a, b]` / `for t in seq` aliases."""
        out = set()
        alias = collections.defaultdict(set)
        for n in walk_no_nested(fn):
            if isinstance(n, ast.For) and isinstance(n.target, ast.Name):
                if isinstance(n.iter, (ast.List, ast.Tuple)):
                    for e in n.iter.elts:
                        k = recv_key(e)
                        if k:
                            alias[n.target.id].add(k)
                else:
                    k = recv_key(n.iter)
                    if k:
                        alias[n.target.id].add(k + '[*]')
                    for x in ast.walk(n.iter):   # reversed(temps), temps[::-1] ...
                        k2 = recv_key(x) if isinstance(x, (ast.Name, ast.Attribute)) else None
                        if k2:
                            alias[n.target.id].add(k2 + '[*]')
        for n in walk_no_nested(fn):
            if isinstance(n, ast.Call) and isinstance(n.func, ast.Attribute) and n.func.attr == 'release_temp' and n.args:
                a = n.args[0]
                k = recv_key(a)
                if k:
                    out.add(k)
                    out |= alias.get(k, set())
                elif isinstance(a, ast.Subscript):
                    k = recv_key(a.value)
                    if k:
                        out.add(k + '[*]')
        return out

    def local_path_check(fn, var):
        # loop variables that range over a literal list containing var:  for t in [a, b, var]: release_temp(t)
        loop_alias = set()
        for n in walk_no_nested(fn):
            if isinstance(n, ast.For) and isinstance(n.target, ast.Name) and isinstance(n.iter, (ast.List, ast.Tuple)) and \
                    any(recv_key(e) == var for e in n.iter.elts):
                loop_alias.add(n.target.id)

        def tr(n, state):
            s = set(state)
            if isinstance(n, ast.Assign) and _alloc_target(n) == var:
                s.add('A')
                s.discard('R')
                s.discard('NONE')
            elif isinstance(n, ast.Assign) and isinstance(n.value, ast.Constant) and n.value.value is None and \
                    any(recv_key(t) == var for t in n.targets):
                s.add('NONE')
                s.discard('A')
            for c in pyflow.calls_in(n):
                if isinstance(c.func, ast.Attribute) and c.func.attr == 'release_temp' and c.args and \
                        (recv_key(c.args[0]) == var or recv_key(c.args[0]) in loop_alias):
                    s.add('R')
                if isinstance(c.func, ast.Name) and c.func.id in ('error', 'internal_error'):
                    s.add('ERR')
            # escapes: stored into an attribute / container / returned / yielded -> ownership moves
            if isinstance(n, (ast.Return, ast.Expr)) and getattr(n, 'value', None) is not None and \
                    any(isinstance(x, ast.Name) and x.id == var for x in ast.walk(n.value)) and isinstance(n, ast.Return):
                s.add('ESC')
            if isinstance(n, ast.Assign) and _alloc_target(n) != var and any(isinstance(x, ast.Name) and x.id == var for x in ast.walk(n.value)):
                if not all(isinstance(t, ast.Name) for t in n.targets) or isinstance(n.value, (ast.List, ast.Tuple, ast.Dict)):
                    s.add('ESC')
            for c in pyflow.calls_in(n):
                if isinstance(c.func, ast.Attribute) and c.func.attr in ('append', 'extend', 'add', 'insert') and \
                        any(isinstance(x, ast.Name) and x.id == var for a in c.args for x in ast.walk(a)):
                    s.add('ESC')
            return frozenset(s)
        def refine(test, truth, state):
            # `if temp is not None:` / `if temp:` after `temp = None` / conditional allocation
            t = test
            neg = False
            while isinstance(t, ast.UnaryOp) and isinstance(t.op, ast.Not):
                neg, t = not neg, t.operand
            if isinstance(t, ast.BoolOp) and isinstance(t.op, ast.Or) and any(isinstance(v, ast.Name) and v.id == var for v in t.values):
                # `a or temp` is false only if temp is unset
                if (truth != neg) is False and 'A' in state:
                    return None
                return state
            is_set = None
            if isinstance(t, ast.Name) and t.id == var:
                is_set = True
            elif isinstance(t, ast.Compare) and isinstance(t.left, ast.Name) and t.left.id == var and len(t.ops) == 1 and \
                    isinstance(t.comparators[0], ast.Constant) and t.comparators[0].value is None:
                is_set = isinstance(t.ops[0], ast.IsNot) if isinstance(t.ops[0], (ast.Is, ast.IsNot)) else None
            if is_set is None:
                return state
            claims_set = (truth != neg) == is_set
            if 'A' in state and not claims_set:
                return None
            if 'NONE' in state and 'A' not in state and claims_set:
                return None
            return state
        try:
            o = pyflow.Flow(tr, refine=refine).run(fn)
        except pyflow.TooManyStates:
            return None
        return any('A' in st and 'R' not in st and 'ESC' not in st and 'ERR' not in st for st in o.normal | o.returns)

    for m, qn, owner, fn in gen_functions(ctx):
        # lists of temps:  xs = [code.funcstate.allocate_temp(...) for _ in range(n)]  must be released element-wise
        for n in walk_no_nested(fn):
            if isinstance(n, ast.Assign) and len(n.targets) == 1 and isinstance(n.targets[0], ast.Name) and \
                    any(isinstance(c, (ast.ListComp, ast.GeneratorExp)) and any(isinstance(x, ast.Call) and isinstance(x.func, ast.Attribute) and x.func.attr == 'allocate_temp' for x in ast.walk(c))
                        for c in ast.walk(n.value)):
                lst = n.targets[0].id
                key = '%s.%s:%s[*]' % (m.short, qn, lst)
                r.inst(key, sample='%s allocates a list of temps %s' % (m.short + '.' + qn, lst))
                rel_l = released_names(fn)
                escaped = any(isinstance(x, ast.Return) and x.value is not None and any(isinstance(y, ast.Name) and y.id == lst for y in ast.walk(x.value)) for x in walk_no_nested(fn)) or \
                    any(isinstance(x, ast.Assign) and isinstance(x.targets[0], ast.Attribute) and any(isinstance(y, ast.Name) and y.id == lst for y in ast.walk(x.value)) for x in walk_no_nested(fn))
                # the list may flow into another local list first:  both = caught + saved / both = tuple(xs) / ys = xs
                flows, grew = {lst}, True
                while grew:
                    grew = False
                    for x in walk_no_nested(fn):
                        if isinstance(x, ast.Assign) and len(x.targets) == 1 and isinstance(x.targets[0], ast.Name) and x.targets[0].id not in flows:
                            v = x.value
                            parts = []
                            todo = [v]
                            while todo:
                                y = todo.pop()
                                if isinstance(y, ast.BinOp) and isinstance(y.op, ast.Add):
                                    todo += [y.left, y.right]
                                elif isinstance(y, ast.Call) and isinstance(y.func, ast.Name) and y.func.id in ('tuple', 'list', 'reversed', 'sorted') and len(y.args) == 1:
                                    todo.append(y.args[0])
                                elif isinstance(y, ast.Starred):
                                    todo.append(y.value)
                                elif isinstance(y, (ast.List, ast.Tuple)):
                                    todo += [e for e in y.elts if isinstance(e, ast.Starred)]
                                else:
                                    parts.append(y)
                            if any(isinstance(y, ast.Name) and y.id in flows for y in parts):
                                flows.add(x.targets[0].id)
                                grew = True
                if not any((nm + '[*]') in rel_l for nm in flows) and not escaped:
                    r.violate(key + ':never-released', m.rel, n.lineno, 'the temps allocated into the list %s are never released element-wise (for t in %s: release_temp(t))' % (lst, lst))
        allocs = [(n, _alloc_target(n)) for n in walk_no_nested(fn) if _alloc_target(n)]
        if not allocs:
            continue
        rel = released_names(fn)
        for n, tgt in allocs:
            key = '%s.%s:%s' % (m.short, qn, tgt)
            r.inst(key, sample='%s allocates temp %s' % (m.short + '.' + qn, tgt))
            if tgt.startswith('self.'):
                # class-level pairing
                ok = False
                aliases = {tgt}
                if owner is not None:
                    for f2 in owner.methods.values():
                        for x in walk_no_nested(f2):
                            if isinstance(x, ast.Assign) and recv_key(x.value) == tgt:
                                aliases |= {recv_key(t) for t in x.targets if recv_key(t)}
                if owner is not None:
                    for cls in [owner] + ix.mro(owner)[1:] + ix.subclasses(owner):
                        for mn, f2 in cls.methods.items():
                            if aliases & released_names(f2):
                                ok = True
                if owner is not None and not ok:
                    for cls in [owner] + ix.mro(owner)[1:] + ix.subclasses(owner):
                        for mn, f2 in cls.methods.items():
                            if tgt in released_names(f2):
                                ok = True
                    # handed to another object (self.x = temp; other.temp = self.x) is not tracked: look for any release of `.attr`
                    if not ok:
                        attr = tgt.split('.', 1)[1]
                        for mm in ix.modules.values():
                            if mm.short not in GEN_MODULES:
                                continue
                            for x in ast.walk(mm.tree):
                                if isinstance(x, ast.Call) and isinstance(x.func, ast.Attribute) and x.func.attr == 'release_temp' and x.args and \
                                        isinstance(x.args[0], ast.Attribute) and x.args[0].attr == attr:
                                    ok = True
                if not ok:
                    r.violate(key + ':never-released', m.rel, n.lineno, 'temp stored in %s is never passed to release_temp by any method: TEMPGUARD/leaked temp, later code sees a stale name' % tgt)
                continue
            if '.' in tgt:
                continue
            if tgt in rel or any(a == tgt for a in rel):
                bad = local_path_check(fn, tgt)
                if bad:
                    r.violate(key + ':path', m.rel, n.lineno, 'temp %s is allocated but on some normal path %s returns without release_temp(%s)' % (tgt, qn, tgt))
            else:
                # aliases: appended to a list that is released in a loop, returned, stored, passed on
                escaped = False
                for x in walk_no_nested(fn):
                    if isinstance(x, ast.Return) and x.value is not None and any(isinstance(y, ast.Name) and y.id == tgt for y in ast.walk(x.value)):
                        escaped = True
                    if isinstance(x, ast.Assign) and x is not n and any(isinstance(y, ast.Name) and y.id == tgt for y in ast.walk(x.value)) and \
                            not isinstance(x.value, (ast.BinOp, ast.JoinedStr, ast.Call)):
                        escaped = True
                    if isinstance(x, ast.Call) and isinstance(x.func, ast.Attribute) and x.func.attr in ('append', 'extend', 'add', 'insert') and \
                            any(isinstance(y, ast.Name) and y.id == tgt for a in x.args for y in ast.walk(a)):
                        escaped = True
                    if isinstance(x, ast.Call) and any(isinstance(k.value, ast.Name) and k.value.id == tgt for k in x.keywords):
                        escaped = True
                    if isinstance(x, (ast.Yield,)) and x.value is not None and any(isinstance(y, ast.Name) and y.id == tgt for y in ast.walk(x.value)):
                        escaped = True
                    if isinstance(x, (ast.List, ast.Tuple)) and isinstance(getattr(x, 'ctx', None), ast.Load) and any(isinstance(y, ast.Name) and y.id == tgt for y in x.elts):
                        escaped = True
                if not escaped:
                    r.violate(key + ':never-released', m.rel, n.lineno, 'temp %s allocated in %s is never released, stored or handed on' % (tgt, qn))
    return r


# ---------------------------------------------------------------------------- G5 bracket pairs
BRACKETS = [
    ('begin_block', 'end_block'),
    ('put_ensure_gil', 'put_release_ensured_gil'),
    ('put_acquire_freethreading_lock', 'put_release_freethreading_lock'),
    ('put_trace_yield', 'put_trace_resume'),
]


def rule_G5(ctx, pairs=BRACKETS, floor=25, rid='G5'):
    """Bracket pairs of the emission API balance on every normal path of the emitting function.  Functions that only
    open or only close (split over methods) are paired at class level."""
    ix = ctx.index
    r = Rule(rid, 'emission brackets (%s) are balanced on every normal path of the emitting function' % ', '.join('%s/%s' % p for p in pairs), floor)

    def analyse(fn, op, cl):
        def depth(state):
            for f in state:
                if isinstance(f, tuple) and f[0] == 'dep':
                    return f[1]
            return 0

        def setd(state, d):
            return frozenset([f for f in state if not (isinstance(f, tuple) and f[0] == 'dep')] + [('dep', d)])

        def tr(n, state):
            d = depth(state)
            s = state
            for c in pyflow.calls_in(n):
                if isinstance(c.func, ast.Attribute) and isinstance(c.func.value, ast.Name) and c.func.value.id == 'code':
                    if c.func.attr == op:
                        d = min(d + 1, 6)
                    elif c.func.attr == cl:
                        d = max(d - 1, -6)
                if isinstance(c.func, ast.Name) and c.func.id in ('error', 'internal_error'):
                    s = frozenset(s | {'ERR'})
            return setd(s, d)
        try:
            o = pyflow.Flow(tr).run(fn)
        except pyflow.TooManyStates:
            return None
        return sorted({depth(st) for st in o.normal | o.returns if 'ERR' not in st})

    for m, qn, owner, fn in gen_functions(ctx):
        calls = collections.Counter()
        for c in walk_no_nested(fn):
            if isinstance(c, ast.Call) and isinstance(c.func, ast.Attribute) and isinstance(c.func.value, ast.Name) and c.func.value.id == 'code':
                calls[c.func.attr] += 1
        for op, cl in pairs:
            if not calls[op] and not calls[cl]:
                continue
            key = '%s.%s:%s' % (m.short, qn, op)
            if calls[op] and calls[cl]:
                ds = analyse(fn, op, cl)
                r.inst(key, sample='%s: %d x %s, %d x %s, exit depths %s' % (m.short + '.' + qn, calls[op], op, calls[cl], cl, ds))
                if ds is None:
                    r.info('%s: state explosion' % key)
                elif ds != [0]:
                    r.violate(key, m.rel, fn.lineno,
                              '%s emits %s/%s unbalanced on some normal path (net depth at exit: %s): the generated C has an unmatched brace / GIL state / lock' % (qn, op, cl, ds))
            else:
                # one-sided: must be matched by a sibling method
                other = cl if calls[op] else op
                ok = False
                if owner is not None:
                    for cls in ix.mro(owner) + ix.subclasses(owner):
                        for f2 in cls.methods.values():
                            if any(isinstance(c, ast.Call) and isinstance(c.func, ast.Attribute) and c.func.attr == other for c in walk_no_nested(f2)):
                                ok = True
                r.inst(key, sample='%s: one-sided %s, sibling has %s: %s' % (m.short + '.' + qn, op if calls[op] else cl, other, ok), nontrivial=False)
                if not ok and owner is not None:
                    r.violate(key + ':unpaired', m.rel, fn.lineno, '%s emits %s but no method of its class hierarchy emits the matching %s' % (qn, op if calls[op] else cl, other))
    pc = ast.parse("def g(self, code):\n    code.begin_block()\n    if self.x:\n        return\n    code.end_block()\n").body[0]
    r.positive_control(analyse(pc, 'begin_block', 'end_block') == [0, 1], 'early return inside a block')
    return r


# ---------------------------------------------------------------------------- G7 unmanaged reference across an error exit
def rule_G7(ctx, floor=4):
    """A reference held in an *unmanaged* temp (allocate_temp(..., manage_ref=False): the error cleanup of the function does
    not release it) that a generator function releases itself must be released before any error exit is emitted after its last
    use: `r = call(v, ...); decref(v); if (!r) goto error` — never `...; if (!r) goto error; decref(v)`."""
    r = Rule('G7', 'owned references in unmanaged temps are released before the first error exit emitted after their last use', floor)
    names = set()          # attribute names (self.x = allocate_temp(.., manage_ref=False)): visible across functions
    local_names = {}       # function -> plain local names allocated unmanaged in that function
    for m, qn, owner, fn in gen_functions(ctx):
        for n in walk_no_nested(fn):
            if isinstance(n, ast.Assign) and isinstance(n.value, ast.Call) and isinstance(n.value.func, ast.Attribute) and n.value.func.attr == 'allocate_temp':
                kw = {k.arg: k.value for k in n.value.keywords}
                mr = kw.get('manage_ref') or (n.value.args[1] if len(n.value.args) > 1 else None)
                if isinstance(mr, ast.Constant) and mr.value is False:
                    k = recv_key(n.targets[0])
                    if k and isinstance(n.targets[0], ast.Attribute):
                        names.add(k.split('.')[-1])
                    elif k:
                        local_names.setdefault(fn, set()).add(k)
    if len(names) + sum(len(v) for v in local_names.values()) < 10:
        raise AnalysisError('only %d unmanaged temp names found' % len(names))

    def mentions(node, name):
        return any((isinstance(x, ast.Name) and x.id == name) or (isinstance(x, ast.Attribute) and x.attr == name) for x in ast.walk(node))

    def check_list(stmts, report, names):
        for i, s in enumerate(stmts):
            for call in [x for x in ast.walk(s) if isinstance(x, ast.Call) and isinstance(x.func, ast.Attribute) and
                         x.func.attr in ('put_decref_clear', 'put_xdecref_clear', 'put_decref', 'put_xdecref')]:
                if not call.args:
                    continue
                k = recv_key(call.args[0])
                nm = k.split('.')[-1] if k else None
                if nm not in (names[1] if isinstance(call.args[0], ast.Name) else names[0]):
                    continue
                errs = []
                for j in range(i - 1, -1, -1):
                    t = stmts[j]
                    emits = any(isinstance(x, ast.Call) and isinstance(x.func, ast.Attribute) and x.func.attr in ('putln', 'put') for x in ast.walk(t))
                    if mentions(t, nm) and emits:
                        # an error exit emitted by the using statement itself comes after the use (`r = f(v); if (!r) goto error`)
                        if any(isinstance(x, ast.Call) and isinstance(x.func, ast.Attribute) and x.func.attr.startswith('error_goto') and
                               not mentions(x, nm) for x in ast.walk(t)):
                            errs.append(t)
                        report(nm, t, errs, s, True)
                        break
                    if any(isinstance(x, ast.Call) and isinstance(x.func, ast.Attribute) and x.func.attr.startswith('error_goto') for x in ast.walk(t)) and not mentions(t, nm):
                        errs.append(t)
            for fld in ('body', 'orelse', 'finalbody'):
                sub = getattr(s, fld, None)
                if isinstance(sub, list) and sub and isinstance(sub[0], ast.stmt):
                    check_list(sub, report, names)

    for m, qn, owner, fn in gen_functions(ctx):
        def report(nm, use, errs, dec, found, m=m, qn=qn):
            key = '%s.%s:%s' % (m.short, qn, nm)
            r.inst(key, sample='%s: %s used at line %d, released at line %d, %d error exit(s) in between' % (key, nm, use.lineno, dec.lineno, len(errs)))
            if errs:
                r.violate(key, m.rel, errs[-1].lineno,
                          '%s emits an error exit (line %d) between the last use of the unmanaged temp %s (line %d) and its decref (line %d): '
                          'when that error is taken the reference is never released (leak on the error path)' % (qn, errs[-1].lineno, nm, use.lineno, dec.lineno))
        check_list(fn.body, report, (names, local_names.get(fn, set())))
    src = ("def g(self, code):\n    code.putln('%s = call(%s);' % (r, self.exit_var))\n    code.putln(code.error_goto_if_null(r, self.pos))\n"
           "    code.put_decref_clear(self.exit_var, type=t)\n")
    pc = ast.parse(src).body[0]
    got = []
    check_list(pc.body, lambda nm, use, errs, dec, found: got.append(bool(errs)), ({'exit_var'}, set()))
    r.positive_control(got == [True], 'error exit between use and decref of an unmanaged temp')
    return r
