"""Helpers and rules for C50 (Plex lexer engine).

`Mini` is a checker-owned finite-domain evaluator for *pure guard/assignment fragments* of the analysed source
(comparisons, boolean operators, tuple assignments, if-chains, small loops over checker-supplied stub data).  It never
imports or runs repository code with CPython: the fragment's AST is interpreted over a handful of test environments that
the rule supplies, tests whose operands are not known fork both ways, and anything outside the supported fragment raises
`Unmodelled` (reported as ANALYSIS-ERROR, never as a pass).  It is used where a clause is a property of the *meaning* of a
guard (which of two priorities wins, which tuple component is restored into which variable), so that re-expressing the
guard does not raise a false alarm.
"""
import ast, types

from ..core import Rule, AnalysisError, node_src
from ..engine import tables
from ..engine.pyindex import walk_no_nested, is_self_attr

PLEX = 'Cython/Plex/'


# ====================================================================================== mini evaluator
class Unknown(Exception):
    """the value of an expression is not determined by the test environment"""


class Unmodelled(Exception):
    """construct outside the supported fragment"""


class _Unk:
    def __repr__(self):
        return '<?>'


UNK = _Unk()
NS = types.SimpleNamespace
_BUILTINS = {'tuple': tuple, 'type': type, 'len': len, 'chr': chr, 'ord': ord, 'set': set, 'list': list, 'dict': dict,
             'str': str, 'int': int, 'bool': bool, 'range': range, 'max': max, 'min': min, 'sorted': sorted,
             'True': True, 'False': False, 'None': None, 'isinstance': isinstance, 'repr': repr}
_CMP = {ast.Eq: lambda a, b: a == b, ast.NotEq: lambda a, b: a != b, ast.Lt: lambda a, b: a < b, ast.LtE: lambda a, b: a <= b,
        ast.Gt: lambda a, b: a > b, ast.GtE: lambda a, b: a >= b, ast.Is: lambda a, b: a is b, ast.IsNot: lambda a, b: a is not b,
        ast.In: lambda a, b: a in b, ast.NotIn: lambda a, b: a not in b}
_BIN = {ast.Add: lambda a, b: a + b, ast.Sub: lambda a, b: a - b, ast.Mult: lambda a, b: a * b, ast.Pow: lambda a, b: a ** b,
        ast.FloorDiv: lambda a, b: a // b, ast.BitAnd: lambda a, b: a & b, ast.BitOr: lambda a, b: a | b, ast.LShift: lambda a, b: a << b,
        ast.Mod: lambda a, b: a % b}
MAX_FORKS = 512


class Mini:
    """Forking evaluator.  An environment is a dict name -> python value | UNK; '__ev__' holds the tuple of recorded
    events: ('store', target text, value), ('del', text), ('call', func text), ('loop', text)."""

    def __init__(self, frozen=(), on_loop=None, pure_calls=()):
        self.frozen = set(frozen)         # names whose assignments are ignored (driven by the test environment)
        self.on_loop = on_loop            # callback(loop node, env) -> list of envs after the loop, or None = havoc
        self.pure_calls = set(pure_calls)
        self.forks = 0

    # ------------------------------------------------------------------ expressions
    def ev(self, n, env):
        if isinstance(n, ast.Constant):
            return n.value
        if isinstance(n, ast.Name):
            if n.id in env:
                v = env[n.id]
                if v is UNK:
                    raise Unknown(n.id)
                return v
            if n.id in _BUILTINS:
                return _BUILTINS[n.id]
            raise Unknown(n.id)
        if isinstance(n, ast.UnaryOp):
            v = self.ev(n.operand, env)
            if isinstance(n.op, ast.Not):
                return not v
            if isinstance(n.op, ast.USub):
                return -v
            if isinstance(n.op, ast.Invert):
                return ~v
            raise Unmodelled(node_src(n))
        if isinstance(n, ast.BoolOp):
            is_and = isinstance(n.op, ast.And)
            unknown = None
            last = None
            for v in n.values:
                try:
                    last = self.ev(v, env)
                except Unknown as e:
                    unknown = e
                    continue
                if unknown is None and bool(last) != is_and:
                    return last                      # short circuit with everything before it known
                if unknown is not None and bool(last) != is_and:
                    # a later operand decides the truth value, but an earlier unknown one could have decided first:
                    # the truth value is still determined (False for and / True for or) only as a boolean
                    return last if not is_and and False else (False if is_and else True)
            if unknown is not None:
                raise unknown
            return last
        if isinstance(n, ast.Compare):
            left = self.ev(n.left, env)
            for op, c in zip(n.ops, n.comparators):
                right = self.ev(c, env)
                f = _CMP.get(type(op))
                if f is None:
                    raise Unmodelled(node_src(n))
                try:
                    if not f(left, right):
                        return False
                except TypeError:
                    raise Unknown(node_src(n))
                left = right
            return True
        if isinstance(n, ast.BinOp):
            f = _BIN.get(type(n.op))
            if f is None:
                raise Unmodelled(node_src(n))
            a, b = self.ev(n.left, env), self.ev(n.right, env)
            try:
                return f(a, b)
            except TypeError:
                raise Unknown(node_src(n))
        if isinstance(n, ast.Tuple):
            return tuple(self.ev(e, env) for e in n.elts)
        if isinstance(n, ast.List):
            return [self.ev(e, env) for e in n.elts]
        if isinstance(n, ast.IfExp):
            return self.ev(n.body, env) if self.ev(n.test, env) else self.ev(n.orelse, env)
        if isinstance(n, ast.Subscript):
            base = self.ev(n.value, env)
            if isinstance(n.slice, ast.Slice):
                raise Unknown(node_src(n))
            idx = self.ev(n.slice, env)
            try:
                return base[idx]
            except (KeyError, IndexError, TypeError):
                raise Unknown(node_src(n))
        if isinstance(n, ast.Attribute):
            base = self.ev(n.value, env)
            if isinstance(base, NS) and hasattr(base, n.attr):
                v = getattr(base, n.attr)
                if v is UNK:
                    raise Unknown(node_src(n))
                return v
            raise Unknown(node_src(n))
        if isinstance(n, ast.Call):
            if isinstance(n.func, ast.Name) and n.func.id in ('type', 'len', 'chr', 'ord', 'isinstance', 'tuple', 'set', 'bool', 'int') \
                    and n.func.id not in env and not n.keywords:
                args = [self.ev(a, env) for a in n.args]
                try:
                    return _BUILTINS[n.func.id](*args)
                except Exception:
                    raise Unknown(node_src(n))
            if isinstance(n.func, ast.Attribute) and n.func.attr == 'get' and 1 <= len(n.args) <= 2 and not n.keywords:
                base = self.ev(n.func.value, env)
                if isinstance(base, dict):
                    args = [self.ev(a, env) for a in n.args]
                    return base.get(*args)
            raise Unknown(node_src(n))
        raise Unknown(node_src(n))

    # ------------------------------------------------------------------ statements
    @staticmethod
    def _event(env, *e):
        env['__ev__'] = env.get('__ev__', ()) + (e,)

    def _assign_target(self, t, val, env):
        if isinstance(t, ast.Name):
            if t.id not in self.frozen:
                env[t.id] = val
        elif isinstance(t, (ast.Tuple, ast.List)):
            if val is not UNK and isinstance(val, (tuple, list)) and len(val) == len(t.elts):
                for e, v in zip(t.elts, val):
                    self._assign_target(e, v, env)
            else:
                for e in t.elts:
                    self._assign_target(e, UNK, env)
        elif isinstance(t, ast.Attribute):
            try:
                base = self.ev(t.value, env)
            except Unknown:
                base = None
            if isinstance(base, NS):
                setattr(base, t.attr, val)
            self._event(env, 'store', node_src(t), val)
        elif isinstance(t, ast.Subscript):
            self._event(env, 'store', node_src(t), val)
            try:
                base = self.ev(t.value, env)
                if isinstance(base, dict) and not isinstance(t.slice, ast.Slice):
                    base[self.ev(t.slice, env)] = val
            except Unknown:
                pass
        elif isinstance(t, ast.Starred):
            self._assign_target(t.value, UNK, env)
        else:
            raise Unmodelled(node_src(t))

    def _value(self, n, env):
        """value of an assignment's right-hand side; tuples are evaluated element-wise so partly known tuples survive"""
        if isinstance(n, ast.Tuple):
            return tuple(self._value(e, env) for e in n.elts)
        try:
            return self.ev(n, env)
        except Unknown:
            for c in ast.walk(n):
                if isinstance(c, ast.Call):
                    self._event(env, 'call', node_src(c.func))
            return UNK

    @staticmethod
    def _copy(env):
        """fork: stub objects (NS, dict) are copied one level so that branches do not share mutations"""
        memo = {}
        out = {}
        for k, v in env.items():
            if isinstance(v, (NS, dict, list, set)):
                if id(v) not in memo:
                    memo[id(v)] = NS(**vars(v)) if isinstance(v, NS) else type(v)(v)
                out[k] = memo[id(v)]
            else:
                out[k] = v
        return out

    def block(self, stmts, env):
        """-> list of (env, signal); signal None | 'break' | 'continue' | ('return', value)"""
        cur = [(env, None)]
        for s in stmts:
            nxt = []
            for e, sig in cur:
                if sig is not None:
                    nxt.append((e, sig))
                else:
                    nxt.extend(self.stmt(s, e))
            cur = nxt
            if len(cur) > MAX_FORKS:
                raise Unmodelled('too many paths')
        return cur

    def stmt(self, s, env):
        if isinstance(s, ast.Assign):
            val = self._value(s.value, env)
            for t in s.targets:
                self._assign_target(t, val, env)
            return [(env, None)]
        if isinstance(s, ast.AnnAssign):
            if s.value is not None:
                self._assign_target(s.target, self._value(s.value, env), env)
            return [(env, None)]
        if isinstance(s, ast.AugAssign):
            f = _BIN.get(type(s.op))
            try:
                if f is None:
                    raise Unknown('op')
                cur = self.ev(s.target if not isinstance(s.target, ast.Name) else ast.Name(id=s.target.id, ctx=ast.Load()), env)
                val = f(cur, self.ev(s.value, env))
            except (Unknown, TypeError):
                val = UNK
            self._assign_target(s.target, val, env)
            if isinstance(s.target, ast.Name):
                self._event(env, 'aug', s.target.id, val)
            return [(env, None)]
        if isinstance(s, ast.If):
            try:
                truth = bool(self.ev(s.test, env))
            except Unknown:
                e2 = self._copy(env)
                return self.block(s.body, env) + self.block(s.orelse, e2)
            return self.block(s.body if truth else s.orelse, env)
        if isinstance(s, (ast.For, ast.While)):
            return self._loop(s, env)
        if isinstance(s, ast.Expr):
            if isinstance(s.value, ast.Constant):
                return [(env, None)]
            try:
                self.ev(s.value, env)
            except Unknown:
                for c in ast.walk(s.value):
                    if isinstance(c, ast.Call):
                        self._event(env, 'call', node_src(c.func))
            return [(env, None)]
        if isinstance(s, ast.Pass):
            return [(env, None)]
        if isinstance(s, ast.Break):
            return [(env, 'break')]
        if isinstance(s, ast.Continue):
            return [(env, 'continue')]
        if isinstance(s, ast.Return):
            return [(env, ('return', self._value(s.value, env) if s.value is not None else None))]
        if isinstance(s, ast.Delete):
            for t in s.targets:
                self._event(env, 'del', node_src(t))
            return [(env, None)]
        if isinstance(s, ast.Try):
            out = []
            for e, sig in self.block(s.body, env):
                if sig is None and s.orelse:
                    for e2, sig2 in self.block(s.orelse, e):
                        out.append((e2, sig2))
                else:
                    out.append((e, sig))
            res = []
            for e, sig in out:
                for e2, sig2 in self.block(s.finalbody, e):
                    res.append((e2, sig2 if sig2 is not None else sig))
            return res
        if isinstance(s, ast.Raise):
            return [(env, ('raise', None))]
        if isinstance(s, ast.Assert):
            return [(env, None)]
        raise Unmodelled(type(s).__name__)

    def _havoc(self, s, env):
        for n in ast.walk(s):
            if isinstance(n, ast.Name) and isinstance(n.ctx, ast.Store) and n.id not in self.frozen:
                env[n.id] = UNK
        self._event(env, 'loop', node_src(s.iter if isinstance(s, ast.For) else s.test, 60))

    def _loop(self, s, env):
        if self.on_loop is not None:
            r = self.on_loop(s, env)
            if r is not None:
                return [(e, None) for e in r]
        if isinstance(s, ast.For):
            try:
                seq = self.ev(s.iter, env)
                if not isinstance(seq, (list, tuple, range)) or len(seq) > 16:
                    raise Unknown('iter')
            except Unknown:
                self._havoc(s, env)
                return [(env, None)]
            cur = [(env, None)]
            for item in seq:
                nxt = []
                for e, sig in cur:
                    if sig is not None:
                        nxt.append((e, sig))
                        continue
                    self._assign_target(s.target, item, e)
                    for e2, sig2 in self.block(s.body, e):
                        if sig2 == 'continue':
                            sig2 = None
                        nxt.append((e2, sig2))
                cur = nxt
            return [(e, None if sig == 'break' else sig) for e, sig in cur]
        self._havoc(s, env)
        return [(env, None)]


def events(env, kind=None):
    return [e for e in env.get('__ev__', ()) if kind is None or e[0] == kind]


# ====================================================================================== module constants
class Plex:
    """The Plex modules parsed, with constant resolution across `from .X import name`."""

    def __init__(self, ctx):
        self.ctx = ctx
        self.trees = {}
        for name in ('Regexps', 'Machines', 'Transitions', 'DFA', 'Scanners', 'Lexicons'):
            self.trees[name] = ctx.parse(PLEX + name + '.py')

    def rel(self, mod):
        return PLEX + mod + '.py'

    def cls(self, mod, name):
        for n in self.trees[mod].body:
            if isinstance(n, ast.ClassDef) and n.name == name:
                return n
        raise AnalysisError('class %s.%s not found' % (mod, name))

    def method(self, mod, cls, name):
        c = self.cls(mod, cls)
        for n in c.body:
            if isinstance(n, (ast.FunctionDef, ast.AsyncFunctionDef)) and n.name == name:
                return n
        raise AnalysisError('method %s.%s.%s not found' % (mod, cls, name))

    def func(self, mod, name):
        return tables.find_function(self.trees[mod], name)

    def const_node(self, mod, name, depth=0):
        """-> (module, value node) of a module-level constant, following relative imports inside Plex"""
        if depth > 4:
            return None
        tree = self.trees[mod]
        v = tables.module_assign(tree, name)
        if v is not None:
            return mod, v
        for n in ast.walk(tree):
            if isinstance(n, ast.ImportFrom) and n.module and not isinstance(n, ast.FunctionDef):
                src = n.module.split('.')[-1]
                for a in n.names:
                    if (a.asname or a.name) == name and src in self.trees:
                        return self.const_node(src, a.name, depth + 1)
        return None

    def const(self, mod, name, depth=0):
        """value of a module-level constant (int/str) or None"""
        r = self.const_node(mod, name)
        if r is None:
            return None
        m2, node = r
        return self.eval_const(m2, node, depth)

    def eval_const(self, mod, node, depth=0):
        if depth > 6:
            return None
        if isinstance(node, ast.Constant) and isinstance(node.value, (int, str)) and not isinstance(node.value, bool):
            return node.value
        if isinstance(node, ast.Name):
            return self.const(mod, node.id, depth + 1)
        if isinstance(node, ast.UnaryOp) and isinstance(node.op, ast.USub):
            v = self.eval_const(mod, node.operand, depth + 1)
            return -v if isinstance(v, int) else None
        if isinstance(node, ast.BinOp) and type(node.op) in _BIN:
            a, b = self.eval_const(mod, node.left, depth + 1), self.eval_const(mod, node.right, depth + 1)
            if isinstance(a, int) and isinstance(b, int) and (not isinstance(node.op, ast.Pow) or 0 <= b <= 128):
                return _BIN[type(node.op)](a, b)
            return None
        if isinstance(node, ast.Call) and isinstance(node.func, ast.Name) and node.func.id == 'ord' and len(node.args) == 1:
            a = self.eval_const(mod, node.args[0], depth + 1)
            return ord(a) if isinstance(a, str) and len(a) == 1 else None
        return None

    def env_consts(self, mod, fn):
        """test environment with every module-level constant a function reads"""
        env = {}
        for n in ast.walk(fn):
            if isinstance(n, ast.Name) and isinstance(n.ctx, ast.Load) and n.id not in env:
                v = self.const(mod, n.id)
                if v is not None:
                    env[n.id] = v
        return env


def params(fn):
    return [a.arg for a in fn.args.posonlyargs + fn.args.args]


def arg_at(call, fn, pname, bound=True):
    """the expression a call passes for parameter `pname` of fn (bound method call: self is skipped)"""
    ps = params(fn)
    if bound and ps and ps[0] == 'self':
        ps = ps[1:]
    for k in call.keywords:
        if k.arg == pname:
            return k.value
    if pname in ps and ps.index(pname) < len(call.args):
        return call.args[ps.index(pname)]
    return None
