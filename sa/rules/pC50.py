"""Helpers and rules for C50 (Plex lexer engine).

`Mini` is a checker-owned finite-domain evaluator for *pure guard/assignment fragments* of the analysed source
(comparisons, boolean operators, tuple assignments, if-chains, small loops over checker-supplied stub data).  It never
imports or runs repository code with CPython: the fragment's AST is interpreted over a handful of test environments that
the rule supplies, tests whose operands are not known fork both ways, and anything outside the supported fragment raises
`Unmodelled` (reported as ANALYSIS-ERROR, never as a pass).  It is used where a clause is a property of the *meaning* of a
guard (which of two priorities wins, which tuple component is restored into which variable), so that re-expressing the
guard does not raise a false alarm.
"""
import ast, types

from ..core import Rule, AnalysisError, node_src
from ..engine import tables
from ..engine.pyindex import walk_no_nested, is_self_attr

PLEX = 'Cython/Plex/'


# ====================================================================================== mini evaluator
class Unknown(Exception):
    """the value of an expression is not determined by the test environment"""


class Unmodelled(Exception):
    """construct outside the supported fragment"""


class _Unk:
    def __repr__(self):
        return '<?>'


UNK = _Unk()
NS = types.SimpleNamespace
_BUILTINS = {'tuple': tuple, 'type': type, 'len': len, 'chr': chr, 'ord': ord, 'set': set, 'list': list, 'dict': dict,
             'str': str, 'int': int, 'bool': bool, 'float': float, 'range': range, 'max': max, 'min': min, 'sorted': sorted,
             'True': True, 'False': False, 'None': None, 'isinstance': isinstance, 'repr': repr}
_CMP = {ast.Eq: lambda a, b: a == b, ast.NotEq: lambda a, b: a != b, ast.Lt: lambda a, b: a < b, ast.LtE: lambda a, b: a <= b,
        ast.Gt: lambda a, b: a > b, ast.GtE: lambda a, b: a >= b, ast.Is: lambda a, b: a is b, ast.IsNot: lambda a, b: a is not b,
        ast.In: lambda a, b: a in b, ast.NotIn: lambda a, b: a not in b}
_BIN = {ast.Add: lambda a, b: a + b, ast.Sub: lambda a, b: a - b, ast.Mult: lambda a, b: a * b, ast.Pow: lambda a, b: a ** b,
        ast.FloorDiv: lambda a, b: a // b, ast.BitAnd: lambda a, b: a & b, ast.BitOr: lambda a, b: a | b, ast.LShift: lambda a, b: a << b,
        ast.Mod: lambda a, b: a % b}
MAX_FORKS = 512


class Mini:
    """Forking evaluator.  An environment is a dict name -> python value | UNK; '__ev__' holds the tuple of recorded
    events: ('store', target text, value), ('del', text), ('call', func text), ('loop', text)."""

    def __init__(self, frozen=(), on_loop=None, ctors=(), stubs=None):
        self.frozen = set(frozen)         # names whose assignments are ignored (driven by the test environment)
        self.on_loop = on_loop            # callback(loop node, env) -> list of envs after the loop, or None = havoc
        self.ctors = set(ctors)           # calls to these names build the symbolic term (name, arg, ...)
        self.stubs = stubs or {}          # function/method name -> checker-owned stand-in (models the environment, e.g. file times)

    # ------------------------------------------------------------------ expressions
    def ev(self, n, env):
        if isinstance(n, ast.Constant):
            return n.value
        if isinstance(n, ast.Name):
            if n.id in env:
                v = env[n.id]
                if v is UNK:
                    raise Unknown(n.id)
                return v
            if n.id in _BUILTINS:
                return _BUILTINS[n.id]
            raise Unknown(n.id)
        if isinstance(n, ast.UnaryOp):
            v = self.ev(n.operand, env)
            if isinstance(n.op, ast.Not):
                return not v
            if isinstance(n.op, ast.USub):
                return -v
            if isinstance(n.op, ast.Invert):
                return ~v
            raise Unmodelled(node_src(n))
        if isinstance(n, ast.BoolOp):
            is_and = isinstance(n.op, ast.And)
            unknown = None
            last = None
            for v in n.values:
                try:
                    last = self.ev(v, env)
                except Unknown as e:
                    unknown = e
                    continue
                if bool(last) != is_and:
                    # short circuit.  With an unknown operand before it the exact value is not determined, but its
                    # truth value is (falsy for `and`, truthy for `or`).
                    return last if unknown is None else (not is_and)
            if unknown is not None:
                raise unknown
            return last
        if isinstance(n, ast.Compare):
            left = self.ev(n.left, env)
            for op, c in zip(n.ops, n.comparators):
                right = self.ev(c, env)
                f = _CMP.get(type(op))
                if f is None:
                    raise Unmodelled(node_src(n))
                try:
                    if not f(left, right):
                        return False
                except TypeError:
                    raise Unknown(node_src(n))
                left = right
            return True
        if isinstance(n, ast.BinOp):
            f = _BIN.get(type(n.op))
            if f is None:
                raise Unmodelled(node_src(n))
            a, b = self.ev(n.left, env), self.ev(n.right, env)
            try:
                return f(a, b)
            except TypeError:
                raise Unknown(node_src(n))
        if isinstance(n, ast.Tuple):
            return tuple(self.ev(e, env) for e in n.elts)
        if isinstance(n, ast.List):
            return [self.ev(e, env) for e in n.elts]
        if isinstance(n, ast.IfExp):
            return self.ev(n.body, env) if self.ev(n.test, env) else self.ev(n.orelse, env)
        if isinstance(n, ast.Subscript):
            base = self.ev(n.value, env)
            if isinstance(n.slice, ast.Slice):
                raise Unknown(node_src(n))
            idx = self.ev(n.slice, env)
            try:
                return base[idx]
            except (KeyError, IndexError, TypeError):
                raise Unknown(node_src(n))
        if isinstance(n, ast.Attribute):
            base = self.ev(n.value, env)
            if isinstance(base, NS) and hasattr(base, n.attr):
                v = getattr(base, n.attr)
                if v is UNK:
                    raise Unknown(node_src(n))
                return v
            raise Unknown(node_src(n))
        if isinstance(n, ast.Call):
            fname = n.func.attr if isinstance(n.func, ast.Attribute) else n.func.id if isinstance(n.func, ast.Name) else None
            if fname in self.stubs and not n.keywords:
                v = self.stubs[fname](*[self._value(a, env) for a in n.args])
                if v is UNK:
                    raise Unknown(node_src(n))
                return v
            if isinstance(n.func, ast.Name) and n.func.id in self.ctors and not n.keywords:
                return (n.func.id,) + tuple(self.ev(a, env) for a in n.args)
            if isinstance(n.func, ast.Name) and n.func.id == 'enumerate' and len(n.args) == 1 and 'enumerate' not in env:
                return list(enumerate(self.ev(n.args[0], env)))
            if isinstance(n.func, ast.Name) and n.func.id in ('type', 'len', 'chr', 'ord', 'isinstance', 'tuple', 'set', 'bool', 'int', 'float', 'range') \
                    and n.func.id not in env and not n.keywords:
                args = [self.ev(a, env) for a in n.args]
                try:
                    return _BUILTINS[n.func.id](*args)
                except Exception:
                    raise Unknown(node_src(n))
            if isinstance(n.func, ast.Attribute) and n.func.attr == 'get' and 1 <= len(n.args) <= 2 and not n.keywords:
                base = self.ev(n.func.value, env)
                if isinstance(base, dict):
                    args = [self.ev(a, env) for a in n.args]
                    return base.get(*args)
            raise Unknown(node_src(n))
        raise Unknown(node_src(n))

    # ------------------------------------------------------------------ statements
    @staticmethod
    def _event(env, *e):
        env['__ev__'] = env.get('__ev__', ()) + (e,)

    def _assign_target(self, t, val, env):
        if isinstance(t, ast.Name):
            if t.id not in self.frozen:
                env[t.id] = val
        elif isinstance(t, (ast.Tuple, ast.List)):
            if val is not UNK and isinstance(val, (tuple, list)) and len(val) == len(t.elts):
                for e, v in zip(t.elts, val):
                    self._assign_target(e, v, env)
            else:
                for e in t.elts:
                    self._assign_target(e, UNK, env)
        elif isinstance(t, ast.Attribute):
            try:
                base = self.ev(t.value, env)
            except Unknown:
                base = None
            if isinstance(base, NS):
                setattr(base, t.attr, val)
            self._event(env, 'store', node_src(t), val)
        elif isinstance(t, ast.Subscript):
            self._event(env, 'store', node_src(t), val)
            try:
                base = self.ev(t.value, env)
                if isinstance(base, dict) and not isinstance(t.slice, ast.Slice):
                    base[self.ev(t.slice, env)] = val
            except Unknown:
                pass
        elif isinstance(t, ast.Starred):
            self._assign_target(t.value, UNK, env)
        else:
            raise Unmodelled(node_src(t))

    def _value(self, n, env):
        """value of an assignment's right-hand side; tuples are evaluated element-wise so partly known tuples survive"""
        if isinstance(n, ast.Tuple):
            return tuple(self._value(e, env) for e in n.elts)
        try:
            return self.ev(n, env)
        except Unknown:
            for c in ast.walk(n):
                if isinstance(c, ast.Call):
                    self._event(env, 'call', node_src(c.func))
            return UNK

    @staticmethod
    def _copy(env):
        """fork: stub objects (NS, dict) are copied one level so that branches do not share mutations"""
        memo = {}
        out = {}
        for k, v in env.items():
            if isinstance(v, (NS, dict, list, set)):
                if id(v) not in memo:
                    memo[id(v)] = NS(**vars(v)) if isinstance(v, NS) else type(v)(v)
                out[k] = memo[id(v)]
            else:
                out[k] = v
        return out

    def block(self, stmts, env):
        """-> list of (env, signal); signal None | 'break' | 'continue' | ('return', value)"""
        cur = [(env, None)]
        for s in stmts:
            nxt = []
            for e, sig in cur:
                if sig is not None:
                    nxt.append((e, sig))
                else:
                    nxt.extend(self.stmt(s, e))
            cur = nxt
            if len(cur) > MAX_FORKS:
                raise Unmodelled('too many paths')
        return cur

    def stmt(self, s, env):
        if isinstance(s, ast.Assign):
            val = self._value(s.value, env)
            for t in s.targets:
                self._assign_target(t, val, env)
            return [(env, None)]
        if isinstance(s, ast.AnnAssign):
            if s.value is not None:
                self._assign_target(s.target, self._value(s.value, env), env)
            return [(env, None)]
        if isinstance(s, ast.AugAssign):
            f = _BIN.get(type(s.op))
            try:
                if f is None:
                    raise Unknown('op')
                cur = self.ev(s.target if not isinstance(s.target, ast.Name) else ast.Name(id=s.target.id, ctx=ast.Load()), env)
                val = f(cur, self.ev(s.value, env))
            except (Unknown, TypeError):
                val = UNK
            self._assign_target(s.target, val, env)
            if isinstance(s.target, ast.Name):
                self._event(env, 'aug', s.target.id, val)
            return [(env, None)]
        if isinstance(s, ast.If):
            try:
                truth = bool(self.ev(s.test, env))
            except Unknown:
                e2 = self._copy(env)
                return self.block(s.body, env) + self.block(s.orelse, e2)
            return self.block(s.body if truth else s.orelse, env)
        if isinstance(s, (ast.For, ast.While)):
            return self._loop(s, env)
        if isinstance(s, ast.Expr):
            if isinstance(s.value, ast.Constant):
                return [(env, None)]
            try:
                self.ev(s.value, env)
            except Unknown:
                for c in ast.walk(s.value):
                    if isinstance(c, ast.Call):
                        self._event(env, 'call', node_src(c.func))
            return [(env, None)]
        if isinstance(s, ast.Pass):
            return [(env, None)]
        if isinstance(s, ast.Break):
            return [(env, 'break')]
        if isinstance(s, ast.Continue):
            return [(env, 'continue')]
        if isinstance(s, ast.Return):
            return [(env, ('return', self._value(s.value, env) if s.value is not None else None))]
        if isinstance(s, ast.Delete):
            for t in s.targets:
                self._event(env, 'del', node_src(t))
                if isinstance(t, ast.Subscript) and not isinstance(t.slice, ast.Slice):
                    try:
                        base = self.ev(t.value, env)
                        if isinstance(base, dict):
                            base.pop(self.ev(t.slice, env), None)
                    except Unknown:
                        pass
            return [(env, None)]
        if isinstance(s, ast.Try):
            out = []
            for e, sig in self.block(s.body, env):
                if sig is None and s.orelse:
                    for e2, sig2 in self.block(s.orelse, e):
                        out.append((e2, sig2))
                else:
                    out.append((e, sig))
            res = []
            for e, sig in out:
                for e2, sig2 in self.block(s.finalbody, e):
                    res.append((e2, sig2 if sig2 is not None else sig))
            return res
        if isinstance(s, ast.Raise):
            return [(env, ('raise', None))]
        if isinstance(s, ast.Assert):
            return [(env, None)]
        raise Unmodelled(type(s).__name__)

    def _havoc(self, s, env):
        for n in ast.walk(s):
            if isinstance(n, ast.Name) and isinstance(n.ctx, ast.Store) and n.id not in self.frozen:
                env[n.id] = UNK
        self._event(env, 'loop', node_src(s.iter if isinstance(s, ast.For) else s.test, 60))

    def _loop(self, s, env):
        if self.on_loop is not None:
            r = self.on_loop(s, env)
            if r is not None:
                return [(e, None) for e in r]
        if isinstance(s, ast.For):
            try:
                seq = self.ev(s.iter, env)
                if not isinstance(seq, (list, tuple, range)) or len(seq) > 16:
                    raise Unknown('iter')
            except Unknown:
                self._havoc(s, env)
                return [(env, None)]
            cur = [(env, None)]
            for item in seq:
                nxt = []
                for e, sig in cur:
                    if sig is not None:
                        nxt.append((e, sig))
                        continue
                    self._assign_target(s.target, item, e)
                    for e2, sig2 in self.block(s.body, e):
                        if sig2 == 'continue':
                            sig2 = None
                        nxt.append((e2, sig2))
                cur = nxt
            return [(e, None if sig == 'break' else sig) for e, sig in cur]
        cur, done = [(env, None)], []
        for _ in range(64):
            nxt = []
            for e, sig in cur:
                try:
                    t = bool(self.ev(s.test, e))
                except Unknown:
                    self._havoc(s, e)
                    done.append((e, None))
                    continue
                if not t:
                    done.append((e, None))
                    continue
                for e2, sig2 in self.block(s.body, e):
                    if sig2 == 'break':
                        done.append((e2, None))
                    elif sig2 in (None, 'continue'):
                        nxt.append((e2, None))
                    else:
                        done.append((e2, sig2))
            cur = nxt
            if not cur:
                return done
        raise Unmodelled('while loop does not terminate within the bound')


def events(env, kind=None):
    return [e for e in env.get('__ev__', ()) if kind is None or e[0] == kind]


# ====================================================================================== module constants
class Plex:
    """The Plex modules parsed, with constant resolution across `from .X import name`."""

    def __init__(self, ctx):
        self.ctx = ctx
        self.trees = {}
        for name in ('Regexps', 'Machines', 'Transitions', 'DFA', 'Scanners', 'Lexicons'):
            self.trees[name] = ctx.parse(PLEX + name + '.py')

    def rel(self, mod):
        return PLEX + mod + '.py'

    def model(self):
        """the Plex modules loaded into the checker's own evaluator (sC50.PlexModel), built once per run"""
        if getattr(self, '_model', None) is None:
            from .sC50 import PlexModel
            self._model = PlexModel(self)
        return self._model

    def cls(self, mod, name):
        for n in self.trees[mod].body:
            if isinstance(n, ast.ClassDef) and n.name == name:
                return n
        raise AnalysisError('class %s.%s not found' % (mod, name))

    def method(self, mod, cls, name):
        c = self.cls(mod, cls)
        for n in c.body:
            if isinstance(n, (ast.FunctionDef, ast.AsyncFunctionDef)) and n.name == name:
                return n
        raise AnalysisError('method %s.%s.%s not found' % (mod, cls, name))

    def func(self, mod, name):
        return tables.find_function(self.trees[mod], name)

    def const_node(self, mod, name, depth=0):
        """-> (module, value node) of a module-level constant, following relative imports inside Plex"""
        if depth > 4:
            return None
        tree = self.trees[mod]
        v = tables.module_assign(tree, name)
        if v is not None:
            return mod, v
        for n in ast.walk(tree):
            if isinstance(n, ast.ImportFrom) and n.module and not isinstance(n, ast.FunctionDef):
                src = n.module.split('.')[-1]
                for a in n.names:
                    if (a.asname or a.name) == name and src in self.trees:
                        return self.const_node(src, a.name, depth + 1)
        return None

    def const(self, mod, name, depth=0):
        """value of a module-level constant (int/str) or None"""
        r = self.const_node(mod, name)
        if r is None:
            return None
        m2, node = r
        return self.eval_const(m2, node, depth)

    def eval_const(self, mod, node, depth=0):
        if depth > 6:
            return None
        if isinstance(node, ast.Constant) and isinstance(node.value, (int, str)) and not isinstance(node.value, bool):
            return node.value
        if isinstance(node, ast.Name):
            return self.const(mod, node.id, depth + 1)
        if isinstance(node, ast.UnaryOp) and isinstance(node.op, ast.USub):
            v = self.eval_const(mod, node.operand, depth + 1)
            return -v if isinstance(v, int) else None
        if isinstance(node, ast.BinOp) and type(node.op) in _BIN:
            a, b = self.eval_const(mod, node.left, depth + 1), self.eval_const(mod, node.right, depth + 1)
            if isinstance(a, int) and isinstance(b, int) and (not isinstance(node.op, ast.Pow) or 0 <= b <= 128):
                return _BIN[type(node.op)](a, b)
            return None
        if isinstance(node, ast.Call) and isinstance(node.func, ast.Name) and node.func.id == 'ord' and len(node.args) == 1:
            a = self.eval_const(mod, node.args[0], depth + 1)
            return ord(a) if isinstance(a, str) and len(a) == 1 else None
        return None

    def env_consts(self, mod, fn):
        """test environment with every module-level constant a function reads"""
        env = {}
        for n in ast.walk(fn):
            if isinstance(n, ast.Name) and isinstance(n.ctx, ast.Load) and n.id not in env:
                v = self.const(mod, n.id)
                if v is not None:
                    env[n.id] = v
        return env


def params(fn):
    return [a.arg for a in fn.args.posonlyargs + fn.args.args]


def arg_at(call, fn, pname, bound=True):
    """the expression a call passes for parameter `pname` of fn (bound method call: self is skipped)"""
    ps = params(fn)
    if bound and ps and ps[0] == 'self':
        ps = ps[1:]
    for k in call.keywords:
        if k.arg == pname:
            return k.value
    if pname in ps and ps.index(pname) < len(call.args):
        return call.args[ps.index(pname)]
    return None


def _agree(outs, what):
    """all forked outcomes must agree on `what(env, sig)`; -> that value"""
    vals = []
    for e, sig in outs:
        v = what(e, sig)
        if v not in vals:
            vals.append(v)
    if len(vals) != 1:
        raise Unmodelled('outcome not determined: %r' % (vals[:4],))
    return vals[0]


def _model(fn_desc, thunk):
    try:
        return thunk()
    except Unmodelled as e:
        raise AnalysisError('%s: cannot be modelled by the guard evaluator (%s)' % (fn_desc, e))


# ====================================================================================== R1 sentinel
def rule_sentinel(px):
    r = Rule('C50-SENT', 'the range sentinel maxint is one value in Regexps/Machines/Transitions, exceeds every character code, fits its C '
             'declaration; LOWEST_PRIORITY lies below every priority; TransitionMap starts as [-maxint, {}, +maxint]; '
             'FastMachine.add_transitions maps (-maxint, x) to the else slot, skips (x, +maxint) and enumerates finite ranges', floor=11)
    vals = {}
    for mod in ('Regexps', 'Machines', 'Transitions'):
        v = px.const(mod, 'maxint')
        if not isinstance(v, int):
            raise AnalysisError('sentinel maxint is not a resolvable integer constant in %s' % mod)
        vals[mod] = v
    ref = vals['Transitions']
    for mod, v in vals.items():
        r.inst('maxint:' + mod, sample='%s.maxint = %d' % (mod, v))
        if v != ref:
            r.violate('maxint:' + mod, px.rel(mod), px.const_node(mod, 'maxint')[1].lineno,
                      '%s.maxint is %d but Transitions.maxint (the end marker of every TransitionMap) is %d: open-ended ranges built '
                      'with one value are not recognised as open-ended by the other module (AnyBut/AnyChar match the wrong characters)' % (mod, v, ref))
    r.inst('maxint:above-unicode', sample='maxint > 0x110000')
    if ref <= 0x110000:
        r.violate('maxint:above-unicode', px.rel('Transitions'), 1,
                  'maxint = %d does not exceed the largest exclusive character-range end 0x110000: real ranges collide with the sentinel' % ref)
    # C declarations in the .pxd files (compiled Plex): the value must fit the declared type on every platform
    import re as _re
    for mod in ('Machines', 'Transitions'):
        try:
            pxd = px.ctx.read(PLEX + mod + '.pxd')
        except AnalysisError:
            continue
        m = _re.search(r'^\s*cdef\s+([\w ]+?)\s+maxint\b', pxd, _re.M)
        if m:
            ctype = ' '.join(m.group(1).split())
            r.inst('maxint:pxd:' + mod, sample='%s.pxd: cdef %s maxint' % (mod, ctype))
            if ctype in ('int', 'long', 'signed int', 'signed long') and not (-2 ** 31 <= -vals[mod] and vals[mod] <= 2 ** 31 - 1):
                r.violate('maxint:pxd:' + mod, PLEX + mod + '.pxd', pxd[:m.start()].count('\n') + 1,
                          '%s.maxint = %d does not fit `cdef %s maxint` (32 bit on some platforms): the compiled module wraps the sentinel' % (mod, vals[mod], ctype))
    # LOWEST_PRIORITY
    low = px.const('Machines', 'LOWEST_PRIORITY')
    if not isinstance(low, int):
        raise AnalysisError('Machines.LOWEST_PRIORITY is not a resolvable integer constant')
    r.inst('LOWEST_PRIORITY', sample='LOWEST_PRIORITY = %d' % low)
    if low > -vals['Machines']:
        r.violate('LOWEST_PRIORITY', px.rel('Machines'), px.const_node('Machines', 'LOWEST_PRIORITY')[1].lineno,
                  'LOWEST_PRIORITY = %d is not below every token priority (priorities are negated token numbers down to %d): '
                  'late tokens can never become the action of a state' % (low, -vals['Machines']))
    dlow = px.const('DFA', 'LOWEST_PRIORITY')
    r.inst('LOWEST_PRIORITY:DFA', sample='DFA sees LOWEST_PRIORITY = %r' % (dlow,))
    if dlow != low:
        r.violate('LOWEST_PRIORITY:DFA', px.rel('DFA'), 1, 'DFA.LOWEST_PRIORITY (%r) differs from Machines.LOWEST_PRIORITY (%r), the initial priority of every Node' % (dlow, low))
    # TransitionMap initial map
    init = px.method('Transitions', 'TransitionMap', '__init__')
    cands = [n for n in walk_no_nested(init) if isinstance(n, ast.List) and len(n.elts) == 3]
    if not cands:
        raise AnalysisError('TransitionMap.__init__: initial [code, set, code] list not found')
    for n in cands:
        a, b = px.eval_const('Transitions', n.elts[0]), px.eval_const('Transitions', n.elts[2])
        r.inst('TransitionMap.__init__:initial-map', sample=node_src(n))
        mid = n.elts[1]
        empty = (isinstance(mid, ast.Call) and isinstance(mid.func, ast.Name) and mid.func.id in ('set', 'frozenset') and not mid.args) or \
                (isinstance(mid, ast.Set) and not mid.elts)
        if a != -ref or b != ref or not empty:
            r.violate('TransitionMap.__init__:initial-map', px.rel('Transitions'), n.lineno,
                      'a new TransitionMap must be [-maxint, empty set, +maxint] (one empty range covering every code); found %s: '
                      'split() can no longer locate codes outside it and the first/last ranges are not the open-ended ones' % node_src(n))
    # split: comparisons of the code against the sentinel
    split = px.method('Transitions', 'TransitionMap', 'split')
    code = params(split)[1]
    for n in walk_no_nested(split):
        if isinstance(n, ast.Compare) and isinstance(n.left, ast.Name) and n.left.id == code and len(n.ops) == 1:
            v = px.eval_const('Transitions', n.comparators[0])
            if isinstance(v, int) and abs(v) == ref:
                r.inst('TransitionMap.split:sentinel-test', sample=node_src(n))
                if not (isinstance(n.ops[0], ast.Eq) and v == ref):
                    r.violate('TransitionMap.split:sentinel-test', px.rel('Transitions'), n.lineno,
                              'split() special-cases `%s`; only code == +maxint is the existing last split point (index len(map)-1)' % node_src(n))
    # FastMachine.add_transitions, evaluated on five events
    fn = px.method('Machines', 'FastMachine', 'add_transitions')
    ps = params(fn)
    if len(ps) < 4:
        raise AnalysisError('FastMachine.add_transitions: unexpected signature')
    st, evp, tgt = ps[1], ps[2], ps[3]
    base = px.env_consts('Machines', fn)
    for a, d in zip(fn.args.args[len(fn.args.args) - len(fn.args.defaults):], fn.args.defaults):
        v = px.eval_const('Machines', d)
        if v is not None:
            base[a.arg] = v
    M = vals['Machines']

    def run(fn, event):
        env = dict(base)
        env.update({st: {}, evp: event, tgt: 'T', 'self': NS()})
        outs = Mini().block(fn.body, env)
        return _agree(outs, lambda e, sig: (tuple(sorted(e[st].items())), bool(events(e, 'loop'))))
    cases = [((-M, 100), {'else': 'T'}, 'a range open at the low end must become the else transition'),
             ((100, M), None, 'a range open at the high end is covered by the else slot and must not be enumerated'),
             ((100, 103), {'d': 'T', 'e': 'T', 'f': 'T'}, 'a finite range must give one entry per character code0 <= c < code1'),
             ((-M, M), {'else': 'T'}, 'the full range must become the else transition'),
             ('bol', {'bol': 'T'}, 'a special event must be stored under its own key')]

    def check(fn):
        bad = []
        for event, want, why in cases:
            got, looped = run(fn, event)
            got = dict(got)
            ok = (got in ({}, {'else': 'T'}) if want is None else got == want) and not looped
            if not ok:
                bad.append((event, got, looped, why))
        return bad
    bad = _model('FastMachine.add_transitions', lambda: check(fn))
    for event, want, why in cases:
        r.inst('FastMachine.add_transitions:%r' % (event,), sample='add_transitions(state, %r, T)' % (event,))
    for event, got, looped, why in bad:
        r.violate('FastMachine.add_transitions:%s' % ('special' if isinstance(event, str) else ('%s..%s' % tuple('-inf' if c == -M else 'inf' if c == M else 'c' for c in event))),
                  px.rel('Machines'), fn.lineno,
                  'add_transitions(state, %r, T) gives %r%s: %s' % (event, got, ' and enumerates an open-ended range' if looped else '', why))
    pc = ast.parse("def add_transitions(self, state, event, new_state, maxint=%d):\n    if type(event) is tuple:\n        code0, code1 = event\n"
                   "        if code0 == maxint:\n            state['else'] = new_state\n        elif code1 != maxint:\n"
                   "            for code in range(code0, code1):\n                state[chr(code)] = new_state\n    else:\n        state[event] = new_state\n" % M).body[0]
    r.positive_control(bool(check(pc)), 'else slot keyed on +maxint')
    return r


# ====================================================================================== R2 special symbols / state keys
def _template(px):
    init = px.method('Machines', 'FastMachine', '__init__')
    for n in walk_no_nested(init):
        if isinstance(n, ast.Assign) and any(is_self_attr(t) and t.attr == 'new_state_template' for t in n.targets) and isinstance(n.value, ast.Dict):
            out = {}
            for k, v in zip(n.value.keys, n.value.values):
                kv = px.eval_const('Machines', k) if k is not None else None
                if not isinstance(kv, str):
                    raise AnalysisError('FastMachine.new_state_template: key %s is not a resolvable string' % node_src(k))
                out[kv] = v
            return n, out
    raise AnalysisError('FastMachine.new_state_template dict literal not found')


def rule_symbols(px):
    r = Rule('C50-SYM', 'BOL/EOL/EOF are distinct multi-character strings, pre-set to None in FastMachine.new_state_template (so they never take the '
             'else transition), every constant the Scanner feeds as cur_char is a character, \'\' or one of them; every constant key the scan '
             'loop reads from a state dict is written by FastMachine', floor=12)
    syms = {}
    for n in ('BOL', 'EOL', 'EOF'):
        v = px.const('Regexps', n)
        if not isinstance(v, str):
            raise AnalysisError('Regexps.%s is not a resolvable string constant' % n)
        syms[n] = v
    tnode, tmpl = _template(px)
    for n, v in syms.items():
        line = px.const_node('Regexps', n)[1].lineno
        r.inst('symbol:' + n, sample='%s = %r' % (n, v))
        if len(v) < 2:
            r.violate('symbol:' + n, px.rel('Regexps'), line,
                      'Regexps.%s = %r must be a string of length >= 2: Char() and FastMachine treat length-1 events as characters and \'\' as epsilon' % (n, v))
        if sum(1 for w in syms.values() if w == v) > 1:
            r.violate('symbol:%s:distinct' % n, px.rel('Regexps'), line, 'Regexps.%s = %r is not distinct from the other special symbols' % (n, v))
        r.inst('template:' + n, sample='new_state_template has %r: %s' % (v, v in tmpl))
        if v not in tmpl:
            r.violate('template:' + n, px.rel('Machines'), tnode.lineno,
                      'FastMachine.new_state_template has no entry %r (Regexps.%s): a state without a %s transition sends the pseudo-character to its '
                      '`else` transition, so AnyBut/AnyChar consume a %s marker as if it were a character' % (v, n, n, n))
        elif not (isinstance(tmpl[v], ast.Constant) and tmpl[v].value is None):
            r.violate('template:' + n, px.rel('Machines'), tnode.lineno,
                      'new_state_template[%r] must be None (blocked), found %s' % (v, node_src(tmpl[v])))
    # constants fed as cur_char by the Scanner
    sc = px.cls('Scanners', 'Scanner')
    fed = {}
    for fn in sc.body:
        if not isinstance(fn, ast.FunctionDef):
            continue
        for n in walk_no_nested(fn):
            if not isinstance(n, ast.Assign):
                continue
            for t in n.targets:
                if (isinstance(t, ast.Name) and t.id == 'cur_char') or (is_self_attr(t) and t.attr == 'cur_char'):
                    v = n.value
                    val = v.value if isinstance(v, ast.Constant) else px.const('Scanners', v.id) if isinstance(v, ast.Name) else None
                    if isinstance(val, str):
                        key = 'Scanner.%s:cur_char=%s' % (fn.name, node_src(v))
                        r.inst(key, sample=key + ' (%r)' % val)
                        fed.setdefault(val, []).append(n.lineno)
                        if len(val) > 1 and val not in tmpl:
                            r.violate(key, px.rel('Scanners'), n.lineno,
                                      'the scanner feeds the pseudo-character %r, which is neither a character nor a key of FastMachine.new_state_template '
                                      '%r: it falls through to the `else` transition of every state' % (val, sorted(tmpl)))
    for n, v in syms.items():
        r.inst('fed:' + n, sample='%s fed by the scanner at lines %s' % (n, fed.get(v)))
        if v not in fed:
            r.violate('fed:' + n, px.rel('Scanners'), sc.lineno,
                      'the Scanner never sets cur_char to %s (%r): the regular expression %s can never match' % (n, v, n.capitalize()))
    # state-dict keys: read side (scan loop) subset of write side (FastMachine)
    fm = px.cls('Machines', 'FastMachine')
    written = set(tmpl)
    for fn in fm.body:
        if isinstance(fn, ast.FunctionDef) and fn.name in ('__init__', 'new_state', 'add_transitions'):
            for n in walk_no_nested(fn):
                if isinstance(n, ast.Subscript) and isinstance(n.ctx, ast.Store) and isinstance(n.slice, ast.Constant) and isinstance(n.slice.value, str):
                    written.add(n.slice.value)
    run = px.method('Scanners', 'Scanner', 'run_machine_inlined')
    nread = 0

    def read_keys(fn):
        for n in walk_no_nested(fn):
            if isinstance(n, ast.Subscript) and isinstance(n.ctx, ast.Load) and isinstance(n.slice, ast.Constant) and isinstance(n.slice.value, str) \
                    and isinstance(n.value, ast.Name):
                yield n, n.slice.value
            elif isinstance(n, ast.Call) and isinstance(n.func, ast.Attribute) and n.func.attr == 'get' and isinstance(n.func.value, ast.Name) and n.args \
                    and isinstance(n.args[0], ast.Constant) and isinstance(n.args[0].value, str):
                yield n, n.args[0].value
    pc = ast.parse("def f(self):\n    new_state = state.get(c, NOT_FOUND)\n    if new_state is NOT_FOUND:\n        new_state = c and state.get('otherwise')\n").body[0]
    r.positive_control(any(k not in written for _, k in read_keys(pc)), 'scan loop reading a key FastMachine never writes')
    for n, key in read_keys(run):
        nread += 1
        r.inst('state-key:' + key, sample='scan loop reads %s' % node_src(n))
        if key not in written:
            r.violate('state-key:' + key, px.rel('Scanners'), n.lineno,
                      'run_machine_inlined reads state key %r (%s) but FastMachine only writes %r: the lookup always misses' % (key, node_src(n), sorted(written)))
    if nread < 2:
        raise AnalysisError('run_machine_inlined: constant state-dict keys not found')
    return r


# ====================================================================================== R3 priorities: the earliest rule wins
def _method_calls(fn, attr):
    return sorted([n for n in walk_no_nested(fn) if isinstance(n, ast.Call) and isinstance(n.func, ast.Attribute) and n.func.attr == attr],
                  key=lambda n: (n.lineno, n.col_offset))


def _prio_chain(px, add_tok, set_action, node_init, hpa, low):
    """Evaluate the priority pipeline for tokens 1, 2, 3.  -> list of (construct suffix, function name, message)"""
    problems = []
    calls = _method_calls(add_tok, 'set_action')
    if not calls:
        raise AnalysisError('Lexicon.add_token_to_machine no longer calls set_action')
    sa_params = params(set_action)
    if len(sa_params) < 3:
        raise AnalysisError('Node.set_action: unexpected signature')
    prio_expr = arg_at(calls[0], set_action, sa_params[2])
    if prio_expr is None:
        raise AnalysisError('Lexicon.add_token_to_machine: priority argument of set_action not found')
    tps = [p for p in params(add_tok) if any(isinstance(x, ast.Name) and x.id == p for x in ast.walk(prio_expr))]
    if not tps:
        problems.append(('priority-expr', 'add_token_to_machine',
                         'set_action is given the priority %s, which does not depend on the token number: all rules tie and the winner depends on set iteration order' % node_src(prio_expr)))
        return problems, None
    tp = tps[0]
    m = Mini()
    try:
        prio = {k: m.ev(prio_expr, {tp: k}) for k in (1, 2, 3)}
    except Unknown as e:
        raise Unmodelled('priority expression %s (%s)' % (node_src(prio_expr), e))
    # a fresh Node
    node0 = {}
    for n in walk_no_nested(node_init):
        if isinstance(n, ast.Assign):
            for t in n.targets:
                if is_self_attr(t) and t.attr in ('action', 'action_priority'):
                    v = px.eval_const('Machines', n.value) if not (isinstance(n.value, ast.Constant) and n.value.value is None) else None
                    node0[t.attr] = v
    if set(node0) != {'action', 'action_priority'}:
        raise AnalysisError('Node.__init__ does not initialise action/action_priority with constants')
    if node0['action_priority'] != low:
        problems.append(('node-init', 'Node.__init__', 'a new Node starts with action_priority %r instead of LOWEST_PRIORITY (%r)' % (node0['action_priority'], low)))
    nodes = {}
    for k in (1, 2, 3):
        nd = NS(**node0)
        outs = Mini().block(set_action.body, {sa_params[0]: nd, sa_params[1]: 'A%d' % k, sa_params[2]: prio[k]})
        got = _agree(outs, lambda e, sig: (e[sa_params[0]].action, e[sa_params[0]].action_priority))
        if got != ('A%d' % k, prio[k]):
            problems.append(('set_action:first', 'Node.set_action',
                             'set_action(%r, priority=%r) on a fresh Node leaves (action, priority) = %r: the final state of token %d does not accept' % ('A%d' % k, prio[k], got, k)))
        nodes[k] = NS(action='A%d' % k, action_priority=prio[k])
    # set_action keeps the better of two
    for first, second in ((1, 2), (2, 1)):
        nd = NS(action='A%d' % first, action_priority=prio[first])
        outs = Mini().block(set_action.body, {sa_params[0]: nd, sa_params[1]: 'A%d' % second, sa_params[2]: prio[second]})
        got = _agree(outs, lambda e, sig: (e[sa_params[0]].action, e[sa_params[0]].action_priority))
        if got != ('A1', prio[1]):
            problems.append(('set_action:order', 'Node.set_action',
                             'a Node holding token %d (priority %r) that is offered token %d (priority %r) ends with %r: token 1, the earlier rule, must win' % (
                                 first, prio[first], second, prio[second], got)))
    # highest_priority_action over every order of {no action, token 3, token 1, token 2}
    import itertools
    hp = params(hpa)
    plain = NS(**node0)
    for perm in itertools.permutations([plain, nodes[3], nodes[1], nodes[2]]):
        env = px.env_consts('DFA', hpa)
        env.update({hp[0]: NS(), hp[1]: list(perm)})
        outs = Mini().block(hpa.body, env)
        got = _agree(outs, lambda e, sig: sig)
        if got != ('return', 'A1'):
            order = [getattr(x, 'action') for x in perm]
            problems.append(('highest_priority_action', 'StateMap.highest_priority_action',
                             'for NFA states accepting tokens %r (priorities %r) highest_priority_action yields %r; the DFA state must perform the action of token 1, '
                             'the earliest rule matching the same text' % (order, [x.action_priority for x in perm], got[1] if isinstance(got, tuple) else got)))
            break
    # non-accepting set
    env = px.env_consts('DFA', hpa)
    env.update({hp[0]: NS(), hp[1]: [NS(**node0), NS(**node0)]})
    got = _agree(Mini().block(hpa.body, env), lambda e, sig: sig)
    if got != ('return', None):
        problems.append(('highest_priority_action:none', 'StateMap.highest_priority_action', 'a set of non-accepting NFA states yields the action %r instead of None' % (got,)))
    return problems, prio


def rule_priority(px):
    r = Rule('C50-PRIO', 'rule priority pipeline: Lexicon numbers every token with a fresh, monotonically changing counter; the priority handed to '
             'set_action, Node.set_action and StateMap.highest_priority_action together make the earliest rule win (evaluated for tokens 1,2,3 in every order)', floor=8)
    lex_init = px.method('Lexicons', 'Lexicon', '__init__')
    add_tok = px.method('Lexicons', 'Lexicon', 'add_token_to_machine')
    set_action = px.method('Machines', 'Node', 'set_action')
    node_init = px.method('Machines', 'Node', '__init__')
    hpa = px.method('DFA', 'StateMap', 'highest_priority_action')
    o2n = px.method('DFA', 'StateMap', 'old_to_new')
    low = px.const('Machines', 'LOWEST_PRIORITY')
    where = {'add_token_to_machine': ('Lexicons', add_tok), 'Node.set_action': ('Machines', set_action), 'Node.__init__': ('Machines', node_init),
             'StateMap.highest_priority_action': ('DFA', hpa)}
    problems, prio = _model('priority pipeline', lambda: _prio_chain(px, add_tok, set_action, node_init, hpa, low))
    for k in ('priority-expr', 'node-init', 'set_action:first', 'set_action:order', 'highest_priority_action', 'highest_priority_action:none'):
        r.inst('chain:' + k, sample='priorities of tokens 1,2,3 = %r' % (prio,))
    for key, fname, msg in problems:
        mod, fn = where[fname]
        r.violate('%s:%s' % (fname, key), px.rel(mod), fn.lineno, msg)
    # old_to_new: the action of the new state is highest_priority_action(of the same set)
    ps = params(o2n)
    calls = _method_calls(o2n, 'highest_priority_action')
    r.inst('StateMap.old_to_new:action', sample='old_to_new computes the action from %s' % (node_src(calls[0]) if calls else None))
    ok = False
    if calls and calls[0].args and isinstance(calls[0].args[0], ast.Name) and calls[0].args[0].id == ps[1]:
        tgt = [n.targets[0].id for n in walk_no_nested(o2n) if isinstance(n, ast.Assign) and n.value is calls[0] and isinstance(n.targets[0], ast.Name)]
        for c in _method_calls(o2n, 'new_state'):
            if any((isinstance(a, ast.Name) and a.id in tgt) or a is calls[0] for a in list(c.args) + [k.value for k in c.keywords]):
                ok = True
    if not ok:
        r.violate('StateMap.old_to_new:action', px.rel('DFA'), o2n.lineno,
                  'old_to_new does not create the new DFA state with highest_priority_action(%s): accepting DFA states lose or mix up their action' % ps[1])
    fm_new = px.method('Machines', 'FastMachine', 'new_state')
    r.inst('FastMachine.new_state:action', sample='new_state stores its action parameter under "action"')
    ap = params(fm_new)[1] if len(params(fm_new)) > 1 else None
    if not any(isinstance(n, ast.Assign) and isinstance(n.targets[0], ast.Subscript) and isinstance(n.targets[0].slice, ast.Constant) and
               n.targets[0].slice.value == 'action' and isinstance(n.value, ast.Name) and n.value.id == ap for n in walk_no_nested(fm_new)):
        r.violate('FastMachine.new_state:action', px.rel('Machines'), fm_new.lineno, "FastMachine.new_state does not store its action parameter as state['action']")

    # ---- Lexicon.__init__: counter discipline
    from ..engine import pyflow
    tparam = None
    if prio is not None:
        calls = _method_calls(add_tok, 'set_action')
        pe = arg_at(calls[0], set_action, params(set_action)[2])
        tparam = [p for p in params(add_tok) if any(isinstance(x, ast.Name) and x.id == p for x in ast.walk(pe))][0]

    def check_counter(fn, tparam):
        """-> (problems, number of call sites)"""
        out = []
        sites = _method_calls(fn, 'add_token_to_machine')
        if not sites:
            raise AnalysisError('Lexicon.__init__ no longer calls add_token_to_machine')
        counters = set()
        for c in sites:
            a = arg_at(c, add_tok, tparam)
            if not isinstance(a, ast.Name):
                out.append(('counter-arg', c.lineno, 'add_token_to_machine is given %s as %s instead of the running token counter: rules share one priority' % (
                    node_src(a) if a is not None else 'nothing', tparam)))
            else:
                counters.add(a.id)
        if len(counters) != 1:
            if len(counters) > 1:
                out.append(('counter-arg', sites[0].lineno, 'different counters %s number the tokens: priorities of rules in different states collide' % sorted(counters)))
            return out, len(sites)
        cv = counters.pop()
        steps = []

        def tr(n, state):
            s = set(state)
            if isinstance(n, ast.stmt):
                for c in pyflow.calls_in(n):
                    if c in sites:
                        if 'fresh' not in s:
                            s.add(('STALE', c.lineno))
                        s.discard('fresh')
                if isinstance(n, (ast.Assign, ast.AugAssign, ast.AnnAssign)):
                    tg = n.targets if isinstance(n, ast.Assign) else [n.target]
                    if any(isinstance(t, ast.Name) and t.id == cv for t in tg):
                        s.add('fresh')
                        if n not in steps:
                            steps.append(n)
            return frozenset(s)
        o = pyflow.Flow(tr, correlate=False).run(fn)
        stale = set()
        for st in o.normal | o.returns:
            stale |= {f for f in st if isinstance(f, tuple) and f[0] == 'STALE'}
        for f in sorted(stale):
            out.append(('counter-stale', f[1], 'on some path two consecutive add_token_to_machine calls see the same value of %s (no increment in between): '
                        'the two rules get equal priority and the earlier one no longer wins reliably' % cv))
        # direction of every step (the initialisation is a step from "unset")
        dirs = set()
        for n in steps:
            if isinstance(n, ast.Assign) and not any(isinstance(x, ast.Name) and x.id == cv for x in ast.walk(n.value)):
                continue    # initialisation
            outs = Mini().stmt(n, {cv: 5})
            v = _agree(outs, lambda e, sig: e[cv])
            if v is UNK or not isinstance(v, int) or v == 5:
                out.append(('counter-step', n.lineno, 'the token counter update `%s` does not change the counter by a known non-zero step' % node_src(n)))
            else:
                dirs.add(1 if v > 5 else -1)
        if len(dirs) > 1:
            out.append(('counter-step', steps[-1].lineno, 'the token counter %s is both incremented and decremented: token numbers repeat' % cv))
        if len(dirs) == 1 and prio is not None:
            # later token => counter moves in direction d => its priority must be strictly lower
            d = dirs.pop()
            m = Mini()
            pe = arg_at(_method_calls(add_tok, 'set_action')[0], set_action, params(set_action)[2])
            p_first, p_later = m.ev(pe, {tparam: 10}), m.ev(pe, {tparam: 10 + d})
            if not p_later < p_first:
                out.append(('counter-direction', steps[-1].lineno,
                            'later rules get counter values moving by %+d, which gives them priority %r against %r for the earlier rule: the LATER rule wins ties' % (d, p_later, p_first)))
        return out, len(sites)
    if tparam is not None:
        probs, nsites = _model('Lexicon.__init__', lambda: check_counter(lex_init, tparam))
        for i in range(nsites):
            r.inst('Lexicon.__init__:add_token_to_machine#%d' % i, sample='call site %d passes the running counter' % i)
        r.inst('Lexicon.__init__:counter-step')
        for key, line, msg in probs:
            r.violate('Lexicon.__init__:' + key, px.rel('Lexicons'), line, msg)
        pc = ast.parse("def __init__(self, specifications):\n    token_number = 1\n    for spec in specifications:\n        if isinstance(spec, State):\n"
                       "            for token in spec.tokens:\n                self.add_token_to_machine(nfa, s, token, token_number)\n"
                       "            token_number += 1\n        else:\n            self.add_token_to_machine(nfa, d, spec, token_number)\n            token_number += 1\n").body[0]
        r.positive_control(any(k == 'counter-stale' for k, _, _ in check_counter(pc, tparam)[0]), 'increment outside the inner loop')
    return r


# ====================================================================================== R4 backup / restore in the scan loop
def _tuple_assigns(body_owner):
    out = []
    for n in ast.walk(body_owner):
        if isinstance(n, ast.Assign) and len(n.targets) == 1 and isinstance(n.targets[0], ast.Tuple) and isinstance(n.value, ast.Tuple) \
                and len(n.targets[0].elts) == len(n.value.elts) and all(isinstance(e, ast.Name) for e in n.targets[0].elts):
            out.append(n)
    return out


def _enclosing_if(root, node):
    """outermost-to-innermost list of If statements inside root that contain node"""
    chain = []

    def rec(n, acc):
        if n is node:
            chain.extend(acc)
            return True
        for ch in ast.iter_child_nodes(n):
            if rec(ch, acc + [n] if isinstance(n, ast.If) else acc):
                return True
        return False
    rec(root, [])
    return chain


def _describe(v):
    if isinstance(v, str) and v.startswith('v:'):
        return 'the saved value of ' + v[2:]
    if isinstance(v, str) and v.startswith('old:'):
        return 'the stale content of backup slot ' + v[4:]
    if isinstance(v, str) and v.startswith('clobbered:'):
        return 'its over-scanned value'
    return repr(v)


def check_backup(fn):
    """-> (problems [(key, line, msg)], info dict) for a run_machine_inlined-like function"""
    loops = [n for n in fn.body if isinstance(n, ast.While)]
    if not loops:
        raise AnalysisError('run_machine_inlined: scan loop not found')
    loop = loops[0]
    tas = _tuple_assigns(loop)
    save = restore = None
    for a in tas:
        vals = [e.id for e in a.value.elts if isinstance(e, ast.Name)]
        for b in tas:
            if b is not a and len(vals) == len(a.value.elts) and set(vals) == {e.id for e in b.targets[0].elts}:
                restore, save = a, b
    if save is None:
        raise AnalysisError('run_machine_inlined: save/restore tuple assignments not found')
    problems = []
    s_t = [e.id for e in save.targets[0].elts]
    r_t = [e.id for e in restore.targets[0].elts]
    r_v = [e.id for e in restore.value.elts]
    # semantic round trip: save with distinct values, clobber, restore
    save_if = (_enclosing_if(loop, save) or [save])[-1]
    rest_if = (_enclosing_if(loop, restore) or [restore])[-1]
    env = {}
    for e in save.value.elts:
        for x in ast.walk(e):
            if isinstance(x, ast.Name):
                env[x.id] = 'v:' + x.id
    for b in s_t:
        env.setdefault(b, 'old:' + b)
    m = Mini()
    outs = m.block([save_if], dict(env))
    saved = _agree(outs, lambda e, sig: tuple(sorted((k, v) for k, v in e.items() if k in s_t)))
    env2 = dict(env)
    env2.update(dict(saved))
    for k in r_t:
        env2[k] = 'clobbered:' + k
    outs = m.block([rest_if], env2)
    got = _agree(outs, lambda e, sig: tuple((k, e.get(k)) for k in r_t))
    for k, v in got:
        if v != 'v:' + k:
            problems.append(('restore:' + k, restore.lineno,
                             'after save-for-backup and back-up the scanner variable %s holds %s instead of its own saved value: the scanner resumes after the '
                             'longest match with a corrupted input position' % (k, _describe(v))))
    # without a saved accepting state the result is "no action"
    none_init = [a for a in _tuple_assigns(fn) if a not in (save, restore) and [e.id for e in a.targets[0].elts] == s_t and a.lineno < loop.lineno]
    info = dict(save=save, restore=restore, loop=loop, saved=s_t, restored=r_t)
    # which saved slot guards the restore?
    guard_names = {x.id for x in ast.walk(rest_if.test) if isinstance(x, ast.Name)} if isinstance(rest_if, ast.If) else set()
    flag = [b for b in s_t if b in guard_names]
    if not flag:
        problems.append(('restore:guard', restore.lineno, 'the back-up is not guarded by a test of a saved slot: without any accepting state passed the scanner "restores" the initial dummy values'))
    else:
        fb = flag[0]
        act = r_t[r_v.index(fb)]
        if not none_init:
            problems.append(('backup:init', loop.lineno, 'the backup slots are not initialised before the scan loop'))
        else:
            iv = none_init[-1].value.elts[s_t.index(fb)]
            if not (isinstance(iv, ast.Constant) and iv.value is None):
                problems.append(('backup:init', none_init[-1].lineno, 'the backup slot %s must start as None (no accepting state seen yet), found %s: unmatched input is reported as a match' % (fb, node_src(iv))))
        env3 = dict(env2)
        env3[fb] = None
        outs = m.block([rest_if], env3)
        got = _agree(outs, lambda e, sig: e.get(act))
        if got is not None:
            problems.append(('restore:none', restore.lineno, 'when no accepting state was passed (%s is None) the scan loop must yield action None (unrecognised input), it yields %r' % (fb, got)))
        # the save must be unconditional on accepting states only: with action None nothing is saved
        src = save.value.elts[s_t.index(fb)]
        if isinstance(src, ast.Name):
            env4 = dict(env)
            env4[src.id] = None
            outs = m.block([save_if], env4)
            kept = _agree(outs, lambda e, sig: tuple(e.get(b) for b in s_t))
            if kept != tuple(env[b] for b in s_t):
                problems.append(('save:non-accepting', save.lineno, 'a non-accepting state (action None) overwrites the backup: the longest match seen so far is forgotten'))
    # deferred write-back of every restored scanner variable that mirrors a self attribute
    mirrors = {}
    for n in fn.body:
        if n is loop:
            break
        tgt = val = None
        if isinstance(n, ast.Assign) and len(n.targets) == 1:
            tgt, val = n.targets[0], n.value
        elif isinstance(n, ast.AnnAssign) and n.value is not None:
            tgt, val = n.target, n.value
        if isinstance(tgt, ast.Name) and is_self_attr(val):
            mirrors[tgt.id] = val.attr
    writes = {}
    for n in walk_no_nested(fn):
        if isinstance(n, ast.Assign) and isinstance(n.value, ast.Name):
            for t in n.targets:
                if is_self_attr(t):
                    writes.setdefault(n.value.id, []).append((t.attr, n.lineno))
    stores_in_loop = {}
    for n in ast.walk(loop):
        if isinstance(n, ast.Name) and isinstance(n.ctx, ast.Store):
            stores_in_loop.setdefault(n.id, []).append(n.lineno)
    end = max(getattr(n, 'end_lineno', loop.lineno) for n in [loop])
    info['mirrors'] = mirrors
    for v in r_t:
        if v in mirrors:
            ok = any(attr == mirrors[v] and line > end for attr, line in writes.get(v, []))
            if not ok:
                problems.append(('writeback:' + v, fn.lineno, 'the scan loop keeps self.%s in the local %s, restores it on back-up, but never writes it back to self.%s after the loop: '
                                 'the next token starts from a stale input position' % (mirrors[v], v, mirrors[v])))
    for v, attr in mirrors.items():
        if v in r_t or v not in stores_in_loop or not any(a == attr for a, _ in writes.get(v, [])):
            continue
        last = max(stores_in_loop[v])
        if not any(a == attr and line >= last for a, line in writes[v]):
            problems.append(('writeback:' + v, last, 'local %s mirrors self.%s and is modified in the scan loop after its last write-back' % (v, attr)))
    # every scanner-position local that is written back after the loop and modified in the loop must be part of the backup
    for v, lst in writes.items():
        if v in mirrors and any(attr == mirrors[v] and line > end for attr, line in lst) and v in stores_in_loop and v not in r_t:
            problems.append(('backup:missing:' + v, save.lineno, 'the scan loop advances %s (self.%s) but does not save/restore it with the other position variables: '
                             'after backing up to the longest match it keeps the value reached by the over-long scan' % (v, mirrors[v])))
    return problems, info


def rule_backup(px):
    r = Rule('C50-BACKUP', 'run_machine_inlined: save-for-backup followed by back-up restores every scanner position variable to its own saved value '
             '(evaluated as a round trip), backup starts empty and yields action None when nothing accepted, restored/advanced mirrors of self '
             'attributes are written back after the loop', floor=10)
    fn = px.method('Scanners', 'Scanner', 'run_machine_inlined')
    problems, info = _model('Scanner.run_machine_inlined', lambda: check_backup(fn))
    for v in info['restored']:
        r.inst('restore:' + v, sample='%s <- %s' % (v, info['saved'][info['restored'].index(v)] if len(info['saved']) == len(info['restored']) else '?'))
    for v in info['mirrors']:
        r.inst('mirror:' + v, sample='%s mirrors self.%s' % (v, info['mirrors'][v]))
    r.inst('backup:init')
    r.inst('restore:none')
    if len(info['restored']) < 6:
        raise AnalysisError('run_machine_inlined: only %d variables are saved for backup (the input position has 6 components)' % len(info['restored']))
    for key, line, msg in problems:
        r.violate('Scanner.run_machine_inlined:' + key, px.rel('Scanners'), line, msg)
    pc = ast.parse(
        "def run(self):\n    cur_pos = self.cur_pos\n    cur_line = self.cur_line\n    b_a, b_p, b_l = None, 0, 0\n    while 1:\n        action = state['action']\n"
        "        if action is not None:\n            b_a, b_p, b_l = action, cur_pos, cur_line\n        if new_state:\n            cur_pos = 1\n            cur_line += 1\n        else:\n"
        "            if b_a is not None:\n                (action, cur_line, cur_pos) = (b_a, b_p, b_l)\n            else:\n                action = None\n            break\n"
        "    self.cur_pos = cur_pos\n    self.cur_line = cur_line\n    return action\n").body[0]
    r.positive_control(any(k.startswith('restore:cur_') for k, _, _ in check_backup(pc)[0]), 'swapped restore slots')
    return r


# ====================================================================================== R5 split copies the neighbouring set
def check_split(px, fn):
    """-> list of (key, line, msg); raises AnalysisError when the insertion cannot be found"""
    problems = []
    found = 0
    for n in walk_no_nested(fn):
        ins_idx = val = None
        if isinstance(n, ast.Assign) and isinstance(n.targets[0], ast.Subscript) and isinstance(n.targets[0].slice, ast.Slice) and isinstance(n.value, ast.List) \
                and len(n.value.elts) == 2:
            sl = n.targets[0].slice
            if sl.lower is not None and sl.upper is not None and ast.dump(sl.lower) == ast.dump(sl.upper):
                ins_idx, val, mapname = sl.lower, n.value.elts[1], n.targets[0].value
        if ins_idx is None:
            continue
        found += 1
        # unwrap the copy
        inner, copied = val, False
        if isinstance(val, ast.Call) and isinstance(val.func, ast.Attribute) and val.func.attr == 'copy' and not val.args:
            inner, copied = val.func.value, True
        elif isinstance(val, ast.Call) and isinstance(val.func, ast.Name) and val.func.id in ('set', 'copy') and len(val.args) == 1:
            inner, copied = val.args[0], True
        elif isinstance(val, ast.Call) and isinstance(val.func, ast.Name) and val.func.id == 'set' and not val.args:
            problems.append(('empty', n.lineno, 'split() gives the new upper sub-range an EMPTY state set: transitions already added for codes above the split point are lost'))
            continue
        elif isinstance(val, ast.Set) and len(val.elts) == 1 and isinstance(val.elts[0], ast.Starred):
            inner, copied = val.elts[0].value, True
        if not (isinstance(inner, ast.Subscript) and ast.dump(inner.value) == ast.dump(mapname)):
            raise AnalysisError('TransitionMap.split: inserted state set %s not understood' % node_src(val))
        if not copied:
            problems.append(('alias', n.lineno, 'split() inserts %s itself, not a copy: the two sub-ranges share ONE set object, so a transition added for one '
                             'sub-range silently applies to the other (a rule then matches characters outside its range)' % node_src(inner)))
        try:
            d = Mini().ev(inner.slice, {x.id: 10 for x in ast.walk(ins_idx) if isinstance(x, ast.Name)}) - Mini().ev(ins_idx, {x.id: 10 for x in ast.walk(ins_idx) if isinstance(x, ast.Name)})
        except Unknown:
            raise AnalysisError('TransitionMap.split: index %s not understood' % node_src(inner.slice))
        if d != -1:
            problems.append(('neighbour', n.lineno, 'split() copies %s; the range being split is the one ending at the insertion point, map[%s - 1]' % (node_src(inner), node_src(ins_idx))))
    if not found:
        raise AnalysisError('TransitionMap.split: split-point insertion (map[i:i] = [code, set]) not found')
    return problems


def rule_split(px):
    r = Rule('C50-SPLIT', 'TransitionMap.split inserts [code, COPY of the state set of the range being split] (no aliasing, not empty, the lower neighbour); add/add_set split at both ends of the range', floor=2)
    fn = px.method('Transitions', 'TransitionMap', 'split')
    r.inst('TransitionMap.split:insert', sample='split inserts a copy of the neighbouring set')
    for key, line, msg in check_split(px, fn):
        r.violate('TransitionMap.split:' + key, px.rel('Transitions'), line, msg)
    pc = ast.parse("def split(self, code):\n    map = self.map\n    hi = len(map) - 1\n    map[hi:hi] = [code, map[hi - 1]]\n    return hi\n").body[0]
    r.positive_control(any(k == 'alias' for k, _, _ in check_split(px, pc)), 'aliased set')
    # add/add_set: both end points are split and every range in between receives the state(s)
    for name in ('add', 'add_set'):
        fn = px.method('Transitions', 'TransitionMap', name)
        ps = params(fn)
        splits = _method_calls(fn, 'split')
        key = 'TransitionMap.%s:split-both-ends' % name
        r.inst(key, sample='%s splits at %s' % (name, [node_src(c) for c in splits]))
        # the two tuple components of the event
        comps = None
        for n in walk_no_nested(fn):
            if isinstance(n, ast.Assign) and isinstance(n.targets[0], ast.Tuple) and isinstance(n.value, ast.Name) and n.value.id == ps[1] and len(n.targets[0].elts) == 2:
                comps = [e.id for e in n.targets[0].elts if isinstance(e, ast.Name)]
        if not comps or len(comps) != 2:
            raise AnalysisError('TransitionMap.%s: unpacking of the (code0, code1) event not found' % name)
        got = [c.args[0].id for c in splits if c.args and isinstance(c.args[0], ast.Name)]
        if sorted(got) != sorted(comps):
            r.violate(key, px.rel('Transitions'), fn.lineno, '%s() must create split points at both %s and %s; it splits at %s: the new transition leaks into the neighbouring codes' % (name, comps[0], comps[1], got))
    return r


# ====================================================================================== R6 open-ended ranges come in complementary pairs
def check_inf(px, fn, mod='Regexps'):
    """uses of the sentinel inside one function -> problems"""
    uses = [n for n in walk_no_nested(fn) if isinstance(n, ast.Name) and isinstance(n.ctx, ast.Load) and n.id == 'maxint']
    if not uses:
        return None
    lows, highs = set(), set()
    other = []
    for n in walk_no_nested(fn):
        if isinstance(n, ast.Call) and isinstance(n.func, ast.Attribute) and isinstance(n.func.value, ast.Name):
            if n.func.attr == 'insert' and len(n.args) == 2 and isinstance(n.args[0], ast.Constant) and n.args[0].value == 0:
                a = n.args[1]
                if isinstance(a, ast.UnaryOp) and isinstance(a.op, ast.USub) and isinstance(a.operand, ast.Name) and a.operand.id == 'maxint':
                    lows.add(n.func.value.id)
                elif isinstance(a, ast.Name) and a.id == 'maxint':
                    other.append((n, 'inserts +maxint at the FRONT of the code list'))
            if n.func.attr == 'append' and len(n.args) == 1:
                a = n.args[0]
                if isinstance(a, ast.Name) and a.id == 'maxint':
                    highs.add(n.func.value.id)
                elif isinstance(a, ast.UnaryOp) and isinstance(a.op, ast.USub) and isinstance(a.operand, ast.Name) and a.operand.id == 'maxint':
                    other.append((n, 'appends -maxint at the END of the code list'))
        if isinstance(n, ast.BinOp) and isinstance(n.op, ast.Add):
            # [-maxint] + ranges + [maxint]
            flat = []

            def fl(x):
                if isinstance(x, ast.BinOp) and isinstance(x.op, ast.Add):
                    fl(x.left)
                    fl(x.right)
                else:
                    flat.append(x)
            fl(n)
            def is_l(x, neg):
                if not (isinstance(x, ast.List) and len(x.elts) == 1):
                    return False
                e = x.elts[0]
                if neg:
                    return isinstance(e, ast.UnaryOp) and isinstance(e.op, ast.USub) and isinstance(e.operand, ast.Name) and e.operand.id == 'maxint'
                return isinstance(e, ast.Name) and e.id == 'maxint'
            if len(flat) >= 3 and is_l(flat[0], True) and is_l(flat[-1], False):
                lows.add('+')
                highs.add('+')
    problems = []
    for n, what in other:
        problems.append(('misplaced', n.lineno, '%s %s: the alternating [start, end, start, end ...] list no longer describes the complement' % (fn.name, what)))
    for x in sorted(lows ^ highs):
        side = 'low' if x in lows else 'high'
        problems.append(('unpaired', fn.lineno,
                         '%s builds a range that is open at the %s end only (list %s): FastMachine keeps ONE else slot for both open ends, so an unpaired open range '
                         'either swallows all large codes or is dropped entirely' % (fn.name, side, x)))
    if not lows and not highs and not other:
        problems.append(('unrecognised', uses[0].lineno, '%s uses the sentinel maxint outside the complement construction (front -maxint, back +maxint)' % fn.name))
    return problems


def rule_inf(px):
    r = Rule('C50-INF', 'open-ended code ranges are only built as the complementary pair (-maxint, a) ... (b, +maxint) of one AnyBut list, '
             'the only shape FastMachine\'s single else slot represents', floor=1)
    tree = px.trees['Regexps']
    for n in tree.body:
        if isinstance(n, ast.FunctionDef):
            p = check_inf(px, n)
            if p is None:
                continue
            r.inst('Regexps.%s' % n.name, sample='%s builds open-ended ranges' % n.name)
            for key, line, msg in p:
                r.violate('Regexps.%s:%s' % (n.name, key), px.rel('Regexps'), line, msg)
        elif isinstance(n, ast.ClassDef):
            for f in n.body:
                if isinstance(f, ast.FunctionDef):
                    p = check_inf(px, f)
                    if p is not None:
                        r.inst('Regexps.%s.%s' % (n.name, f.name))
                        for key, line, msg in p:
                            r.violate('Regexps.%s.%s:%s' % (n.name, f.name, key), px.rel('Regexps'), line, msg)
    pc = ast.parse("def AnyBut(s):\n    ranges = chars_to_ranges(s)\n    ranges.insert(0, -maxint)\n    return CodeRanges(ranges)\n").body[0]
    r.positive_control(any(k == 'unpaired' for k, _, _ in check_inf(px, pc)), 'low end only')
    return r


# ====================================================================================== R7 NFA construction schemata in Regexps
MB = 4     # position of match_bol in build_machine(self, m, initial_state, final_state, match_bol, nocase)


def _build_machines(px):
    out = []
    for c in px.trees['Regexps'].body:
        if isinstance(c, ast.ClassDef):
            for f in c.body:
                if isinstance(f, ast.FunctionDef) and f.name == 'build_machine':
                    if len(params(f)) < 6:
                        raise AnalysisError('Regexps.%s.build_machine: unexpected signature' % c.name)
                    out.append((c, f))
    return out


def _is_eps(px, node):
    return px.eval_const('Regexps', node) == ''


def _bol_option(px, fn, bol):
    """the `if match_bol...: S = self.build_opt(m, S, BOL)` step -> (If node, rebound name) or None"""
    mb = params(fn)[MB]
    for n in walk_no_nested(fn):
        if isinstance(n, ast.If) and any(isinstance(x, ast.Name) and x.id == mb for x in ast.walk(n.test)):
            for s in n.body:
                if isinstance(s, ast.Assign) and isinstance(s.targets[0], ast.Name) and isinstance(s.value, ast.Call) and \
                        isinstance(s.value.func, ast.Attribute) and s.value.func.attr == 'build_opt' and len(s.value.args) == 3 and \
                        px.eval_const('Regexps', s.value.args[2]) == bol:
                    src = s.value.args[1]
                    if isinstance(src, ast.Name) and src.id == s.targets[0].id:
                        return n, s.targets[0].id
    return None


def _lang_eval(node, env, bound=8):
    """language over a one-letter alphabet (set of lengths <= bound) of an RE constructor expression"""
    def cap(s):
        return frozenset(x for x in s if x <= bound)
    if isinstance(node, ast.Name):
        if node.id in env:
            return env[node.id]
        raise Unknown(node.id)
    if isinstance(node, ast.Call) and isinstance(node.func, ast.Name):
        f = node.func.id
        args = [_lang_eval(a, env, bound) for a in node.args]
        if f == 'Alt':
            return cap(frozenset().union(*args)) if args else frozenset()
        if f == 'Seq':
            cur = frozenset([0])
            for a in args:
                cur = cap({x + y for x in cur for y in a})
            return cur
        if f == 'Rep1' and len(args) == 1:
            cur, tot = args[0], set(args[0])
            for _ in range(bound):
                cur = cap({x + y for x in cur for y in args[0]})
                tot |= cur
            return cap(tot)
        if f == 'Opt' and len(args) == 1:
            return cap(set(args[0]) | {0})
        if f == 'Rep' and len(args) == 1:
            return _lang_eval(ast.Call(func=ast.Name(id='Opt', ctx=ast.Load()), args=[ast.Call(func=ast.Name(id='Rep1', ctx=ast.Load()), args=[ast.Name(id='__a', ctx=ast.Load())], keywords=[])], keywords=[]),
                              dict(env, __a=args[0]), bound)
    raise Unknown(node_src(node))


def _returned_expr(fn):
    rets = [n for n in walk_no_nested(fn) if isinstance(n, ast.Return) and n.value is not None]
    if len(rets) != 1:
        return None
    v = rets[0].value
    if isinstance(v, ast.Name):
        defs = [n.value for n in walk_no_nested(fn) if isinstance(n, ast.Assign) and len(n.targets) == 1 and isinstance(n.targets[0], ast.Name) and n.targets[0].id == v.id]
        return defs[-1] if len(defs) == 1 else None
    return v


def check_rep1(px, fn):
    """edges of the construction; language from initial to final over the letter R must be R+"""
    ps = params(fn)
    init, final = ps[2], ps[3]
    edges = []
    for n in walk_no_nested(fn):
        if isinstance(n, ast.Call) and isinstance(n.func, ast.Attribute) and isinstance(n.func.value, ast.Name):
            if n.func.attr == 'link_to' and len(n.args) == 1 and isinstance(n.args[0], ast.Name):
                edges.append((n.func.value.id, '', n.args[0].id))
            elif n.func.attr == 'add_transition' and len(n.args) == 2 and _is_eps(px, n.args[0]) and isinstance(n.args[1], ast.Name):
                edges.append((n.func.value.id, '', n.args[1].id))
        if isinstance(n, ast.Call) and isinstance(n.func, ast.Attribute) and n.func.attr == 'build_machine' and len(n.args) >= 3 and \
                isinstance(n.args[1], ast.Name) and isinstance(n.args[2], ast.Name):
            edges.append((n.args[1].id, 'R', n.args[2].id))

    def closure(S):
        S = set(S)
        ch = True
        while ch:
            ch = False
            for a, l, b in edges:
                if l == '' and a in S and b not in S:
                    S.add(b)
                    ch = True
        return S
    cur = closure({init})
    acc = []
    for n in range(9):
        acc.append(final in cur)
        cur = closure({b for a, l, b in edges if l == 'R' and a in cur})
    return edges, acc


def rule_nfa(px):
    r = Rule('C50-NFA', 'NFA construction schemata of Regexps: every primitive offers the optional BOL step when match_bol is set, composites forward match_bol '
             '(Seq: after a newline-capable or nullable-at-BOL element; Rep1: also when the body can end in a newline), build_opt adds both the epsilon '
             'and the symbol edge, Rep1 builds exactly body+, Opt/Rep are body? / body*, tokens are built with match_bol on and nocase off', floor=16)
    bol = px.const('Regexps', 'BOL')
    rel = px.rel('Regexps')
    bms = _build_machines(px)
    if len(bms) < 6:
        raise AnalysisError('only %d build_machine methods found in Regexps' % len(bms))
    nl = px.const('Regexps', 'nl_code')
    if not isinstance(nl, int):
        raise AnalysisError('Regexps.nl_code not resolvable')
    for c, fn in bms:
        mb = params(fn)[MB]
        direct = [n for n in _method_calls(fn, 'add_transition') if len(n.args) == 2 and not _is_eps(px, n.args[0])]
        inner = _method_calls(fn, 'build_machine')
        opt = _bol_option(px, fn, bol)
        if not direct and not inner:
            if any(isinstance(s, ast.Raise) for s in fn.body):
                continue     # abstract
        if direct:
            key = 'Regexps.%s.build_machine:bol-option' % c.name
            r.inst(key, sample='%s consumes %s directly; BOL option: %s' % (c.name, node_src(direct[0].args[0]), bool(opt)))
            if not opt:
                r.violate(key, rel, fn.lineno,
                          '%s.build_machine adds a transition on %s but has no `if %s: state = self.build_opt(m, state, BOL)` step: the scanner feeds BOL before the '
                          'first character of every line, so this RE cannot match at the beginning of a line' % (c.name, node_src(direct[0].args[0]), mb))
            else:
                used = any(isinstance(n, ast.Name) and n.id == opt[1] and isinstance(n.ctx, ast.Load) and n.lineno > opt[0].end_lineno for n in walk_no_nested(fn))
                if not used:
                    r.violate(key, rel, opt[0].lineno, '%s.build_machine creates the optional-BOL state but does not continue from it' % c.name)
        for i, call in enumerate(inner):
            a = call.args[MB - 1] if len(call.args) >= MB else next((k.value for k in call.keywords if k.arg == mb), None)
            key = 'Regexps.%s.build_machine:forward#%d' % (c.name, i)
            r.inst(key, sample='%s passes match_bol=%s to %s' % (c.name, node_src(a) if a is not None else None, node_src(call.func.value)))
            if a is None:
                raise AnalysisError('Regexps.%s.build_machine: match_bol argument of inner build_machine not found' % c.name)
            if any(isinstance(x, ast.Name) and x.id == mb for x in ast.walk(a)):
                continue
            try:
                v = Mini().ev(a, {})
            except Unknown:
                v = UNK
            if v is not UNK and v:
                continue
            if v is not UNK and not v and opt and opt[0].lineno < call.lineno:
                continue
            r.violate(key, rel, call.lineno,
                      '%s.build_machine builds its sub-expression with match_bol=%s without having offered the BOL step itself: when %s is set the sub-expression cannot '
                      'match at the beginning of a line' % (c.name, node_src(a), mb))
        # newline consumers must announce match_nl
        for n in direct:
            ev = n.args[0]
            if isinstance(ev, ast.Tuple) and any(px.eval_const('Regexps', e) == nl for e in ev.elts):
                key = 'Regexps.%s:match_nl' % c.name
                attr = [s.value for s in c.body if isinstance(s, ast.Assign) and any(isinstance(t, ast.Name) and t.id == 'match_nl' for t in s.targets)]
                r.inst(key, sample='%s consumes the newline character; match_nl = %s' % (c.name, node_src(attr[-1]) if attr else 'inherited'))
                if attr and isinstance(attr[-1], ast.Constant) and not attr[-1].value:
                    r.violate(key, rel, c.lineno, '%s matches a newline but declares match_nl = %r: Seq/Rep1 do not offer the BOL step after it, so nothing can follow a '
                              'newline inside one token' % (c.name, attr[-1].value))
    # build_opt
    bo = px.method('Regexps', 'RE', 'build_opt')
    ps = params(bo)
    news = [n.targets[0].id for n in walk_no_nested(bo) if isinstance(n, ast.Assign) and isinstance(n.targets[0], ast.Name) and isinstance(n.value, ast.Call)
            and isinstance(n.value.func, ast.Attribute) and n.value.func.attr == 'new_state']
    if not news or len(ps) < 4:
        raise AnalysisError('RE.build_opt: new state not found')
    s = news[0]
    eps = sym = False
    for n in walk_no_nested(bo):
        if isinstance(n, ast.Call) and isinstance(n.func, ast.Attribute) and isinstance(n.func.value, ast.Name) and n.func.value.id == ps[2]:
            if n.func.attr == 'link_to' and n.args and isinstance(n.args[0], ast.Name) and n.args[0].id == s:
                eps = True
            if n.func.attr == 'add_transition' and len(n.args) == 2 and isinstance(n.args[1], ast.Name) and n.args[1].id == s:
                if _is_eps(px, n.args[0]):
                    eps = True
                elif isinstance(n.args[0], ast.Name) and n.args[0].id == ps[3]:
                    sym = True
    ret = any(isinstance(n, ast.Return) and isinstance(n.value, ast.Name) and n.value.id == s for n in walk_no_nested(bo))
    for key, ok, msg in (('epsilon', eps, 'no epsilon edge from the initial state to the new state: the symbol becomes mandatory (tokens only match at the beginning of a line)'),
                         ('symbol', sym, 'no edge on the symbol %s from the initial state to the new state: the optional symbol can never be consumed' % ps[3]),
                         ('return', ret, 'does not return the new state')):
        r.inst('Regexps.RE.build_opt:' + key)
        if not ok:
            r.violate('Regexps.RE.build_opt:' + key, rel, bo.lineno, 'build_opt: ' + msg)
    # Rep1 = body+
    rep1 = dict((c.name, f) for c, f in bms).get('Rep1')
    if rep1 is None:
        raise AnalysisError('Regexps.Rep1.build_machine not found')
    edges, acc = check_rep1(px, rep1)
    r.inst('Regexps.Rep1.build_machine:language', sample='edges %s accept body^n for n in %s' % (edges, [i for i, a in enumerate(acc) if a]))
    if acc != [False] + [True] * 8:
        r.violate('Regexps.Rep1.build_machine:language', rel, rep1.lineno,
                  'Rep1 builds a machine accepting body^n for n in %s (edges %s); one-or-more repetition needs every n >= 1 and not n = 0' % ([i for i, a in enumerate(acc) if a], edges))
    pc = ast.parse("def build_machine(self, m, initial_state, final_state, match_bol, nocase):\n    s1 = m.new_state()\n    s2 = m.new_state()\n    initial_state.link_to(s1)\n"
                   "    self.re.build_machine(m, s1, s2, match_bol, nocase)\n    s2.link_to(final_state)\n").body[0]
    r.positive_control(check_rep1(px, pc)[1] != [False] + [True] * 8, 'Rep1 without the back edge')
    # Rep1: body may follow itself
    call = _method_calls(rep1, 'build_machine')
    if call:
        a = call[0].args[MB - 1]
        mb = params(rep1)[MB]
        bad = []
        for bolv in (0, 1):
            for nlv in (0, 1):
                try:
                    v = Mini().ev(a, {mb: bolv, 'self': NS(re=NS(match_nl=nlv, nullable=0))})
                except Unknown as e:
                    raise AnalysisError('Rep1.build_machine: match_bol argument %s not understood (%s)' % (node_src(a), e))
                if (bolv or nlv) and not v:
                    bad.append((bolv, nlv))
        r.inst('Regexps.Rep1.build_machine:match_bol', sample='body built with match_bol = %s' % node_src(a))
        if bad:
            r.violate('Regexps.Rep1.build_machine:match_bol', rel, call[0].lineno,
                      'Rep1 builds its body with match_bol=%s, which is false for (match_bol, body.match_nl) in %s: a repetition following a newline-terminated repetition '
                      'cannot consume the BOL marker' % (node_src(a), bad))
    # Seq: propagation of match_bol along the sequence
    seq = dict((c.name, f) for c, f in bms).get('Seq')
    if seq is None:
        raise AnalysisError('Regexps.Seq.build_machine not found')
    mb = params(seq)[MB]
    loops = [n for n in walk_no_nested(seq) if isinstance(n, ast.For)]
    upd = None
    elem = None
    for lp in loops:
        for n in ast.walk(lp):
            if isinstance(n, ast.Assign) and isinstance(n.targets[0], ast.Name) and n.targets[0].id == mb:
                upd = n
            if isinstance(n, ast.Call) and isinstance(n.func, ast.Attribute) and n.func.attr == 'build_machine' and isinstance(n.func.value, ast.Name):
                elem = n.func.value.id
    r.inst('Regexps.Seq.build_machine:propagate', sample='Seq updates match_bol by %s' % (node_src(upd) if upd is not None else None))
    if upd is None or elem is None:
        r.violate('Regexps.Seq.build_machine:propagate', rel, seq.lineno,
                  'Seq.build_machine does not recompute %s after each element: an element following a newline inside the sequence cannot consume the BOL marker' % mb)
    else:
        bad = []
        for bolv in (0, 1):
            for nlv in (0, 1):
                for nullv in (0, 1):
                    try:
                        v = Mini().ev(upd.value, {mb: bolv, elem: NS(match_nl=nlv, nullable=nullv)})
                    except Unknown as e:
                        raise AnalysisError('Seq.build_machine: %s not understood (%s)' % (node_src(upd), e))
                    if (nlv or (bolv and nullv)) and not v:
                        bad.append((bolv, nlv, nullv))
        if bad:
            r.violate('Regexps.Seq.build_machine:propagate', rel, upd.lineno,
                      'Seq computes the next element\'s match_bol as %s, false for (match_bol, element.match_nl, element.nullable) in %s where a BOL marker can arrive '
                      '(after a newline, or at line start behind an element that matched nothing)' % (node_src(upd.value), bad))
    # Opt / Rep as languages
    for name, want in (('Opt', frozenset([0, 1])), ('Rep', frozenset(range(9)))):
        fn = px.func('Regexps', name)
        e = _returned_expr(fn)
        key = 'Regexps.%s:language' % name
        r.inst(key, sample='%s(re) = %s' % (name, node_src(e) if e is not None else None))
        if e is None:
            raise AnalysisError('Regexps.%s: returned expression not found' % name)
        try:
            env = {params(fn)[0]: frozenset([1])}
            emp = px.const_node('Regexps', 'Empty')
            if emp is not None:
                env['Empty'] = _lang_eval(emp[1], {})
            got = _lang_eval(e, env)
        except Unknown as ex:
            raise AnalysisError('Regexps.%s: expression %s not understood (%s)' % (name, node_src(e), ex))
        if got != want:
            r.violate(key, rel, fn.lineno, '%s(re) is built as %s, which matches re^n for n in %s; expected n in %s' % (name, node_src(e), sorted(got), sorted(want)))
    # tokens are built from the line-start context, case sensitive
    add_tok = px.method('Lexicons', 'Lexicon', 'add_token_to_machine')
    calls = _method_calls(add_tok, 'build_machine')
    if not calls:
        raise AnalysisError('Lexicon.add_token_to_machine no longer calls build_machine')
    base = px.method('Regexps', 'RE', 'build_machine')
    for pname, want in ((params(base)[MB], True), (params(base)[MB + 1], False)):
        a = arg_at(calls[0], base, pname)
        key = 'Lexicon.add_token_to_machine:%s' % pname
        r.inst(key, sample='tokens are built with %s=%s' % (pname, node_src(a) if a is not None else None))
        try:
            v = Mini().ev(a, {}) if a is not None else UNK
        except Unknown:
            v = UNK
        if v is UNK or bool(v) != want:
            r.violate(key, px.rel('Lexicons'), calls[0].lineno,
                      ('every token may start at the beginning of a line, so its machine must be built with %s true; found %s' if want else
                       'tokens are case sensitive unless wrapped in NoCase, so %s must be false; found %s') % (pname, node_src(a) if a is not None else None))
    return r


# ====================================================================================== R8 subset construction
def rule_closure(px):
    r = Rule('C50-DFA', 'nfa_to_dfa: every NFA state set that becomes a DFA state is epsilon-closed (initial states and transition targets), epsilon moves are not '
             'copied as DFA transitions, link_to/get_epsilon agree on the epsilon key (the closure functions themselves: C50-EPS)', floor=4)
    tree = px.trees['DFA']
    rel = px.rel('DFA')
    funcs = {n.name: n for n in tree.body if isinstance(n, ast.FunctionDef)}
    F = {name for name, fn in funcs.items() if _method_calls(fn, 'get_epsilon')}
    ch = True
    while ch:
        ch = False
        for name, fn in funcs.items():
            if name not in F and any(isinstance(n, ast.Call) and isinstance(n.func, ast.Name) and n.func.id in F for n in walk_no_nested(fn)):
                F.add(name)
                ch = True
    F.discard('nfa_to_dfa')
    if not F:
        raise AnalysisError('DFA.py: no epsilon-closure function (caller of get_epsilon) found')
    fn = funcs.get('nfa_to_dfa')
    if fn is None:
        raise AnalysisError('DFA.nfa_to_dfa not found')

    def closed(a):
        return isinstance(a, ast.Call) and isinstance(a.func, ast.Name) and a.func.id in F
    adds = [c for c in _method_calls(fn, 'add_set') + _method_calls(fn, 'add') if len(c.args) == 2]
    if not adds:
        raise AnalysisError('nfa_to_dfa: no TransitionMap.add_set call found')
    for i, c in enumerate(adds):
        key = 'DFA.nfa_to_dfa:target-closure#%d' % i
        r.inst(key, sample=node_src(c))
        if not closed(c.args[1]):
            r.violate('DFA.nfa_to_dfa:target-closure', rel, c.lineno,
                      'the target states %s are merged into the new transition map without taking their epsilon closure: states reachable only through epsilon moves '
                      '(the inside of every Alt/Rep/Opt) are lost from the DFA' % node_src(c.args[1]))
    loopvars = set()
    filled = {c.func.value.id for c in adds if isinstance(c.func.value, ast.Name)}
    for n in walk_no_nested(fn):
        if isinstance(n, ast.For) and isinstance(n.iter, ast.Call) and isinstance(n.iter.func, ast.Attribute) and n.iter.func.attr in ('items', 'iteritems') \
                and isinstance(n.iter.func.value, ast.Name) and n.iter.func.value.id in filled:
            for x in ast.walk(n.target):
                if isinstance(x, ast.Name):
                    loopvars.add(x.id)
    for i, c in enumerate(_method_calls(fn, 'old_to_new')):
        key = 'DFA.nfa_to_dfa:old_to_new#%d' % i
        a = c.args[0] if c.args else None
        r.inst(key, sample=node_src(c))
        if not (closed(a) or (isinstance(a, ast.Name) and a.id in loopvars)):
            r.violate('DFA.nfa_to_dfa:state-closure', rel, c.lineno,
                      'a DFA state is created from %s, which is not an epsilon-closed set: the start state lacks the states reachable by epsilon moves, so no rule can begin' % node_src(a))
    pcx = ast.parse("transitions.add_set(event, old_target_states)").body[0].value
    r.positive_control(not closed(pcx.args[1]), 'targets merged without epsilon closure')
    # epsilon filter around the add_set
    add = adds[0]
    cands = [n for n in walk_no_nested(fn) if isinstance(n, ast.For) and any(x is add for x in ast.walk(n)) and isinstance(n.target, ast.Tuple)
             and len(n.target.elts) == 2 and all(isinstance(e, ast.Name) for e in n.target.elts)]
    r.inst('DFA.nfa_to_dfa:epsilon-filter')
    if not cands:
        raise AnalysisError('nfa_to_dfa: loop over (event, targets) not found')
    lp = max(cands, key=lambda n: n.lineno)
    evn, tgn = lp.target.elts[0].id, lp.target.elts[1].id

    def calls_add(event, targets):
        outs = Mini().block(lp.body, {evn: event, tgn: targets})
        return _agree(outs, lambda e, sig: any('add' in ev[1].split('.')[-1] for ev in events(e, 'call')))
    res = _model('nfa_to_dfa', lambda: (calls_add('', {1}), calls_add('bol', {1}), calls_add((97, 98), {1})))
    if res[0]:
        r.violate('DFA.nfa_to_dfa:epsilon-filter', rel, add.lineno,
                  'epsilon moves (event \'\') are copied into the DFA transition map: the DFA gets a transition on the empty pseudo-character the scanner feeds after EOF')
    if not (res[1] and res[2]):
        r.violate('DFA.nfa_to_dfa:event-dropped', rel, add.lineno, 'transitions on %s are not copied into the DFA' % ('special symbols' if not res[1] else 'character ranges'))
    # epsilon key
    lt = px.method('Machines', 'Node', 'link_to')
    ge = px.method('Transitions', 'TransitionMap', 'get_epsilon')
    k1 = [px.eval_const('Machines', c.args[0]) for c in _method_calls(lt, 'add_transition') if len(c.args) == 2]
    k2 = [c.args[0].value for c in _method_calls(ge, 'get') if c.args and isinstance(c.args[0], ast.Constant)]
    r.inst('epsilon-key', sample='link_to adds on %r, get_epsilon reads %r' % (k1, k2))
    if not k1 or not k2:
        raise AnalysisError('Node.link_to / TransitionMap.get_epsilon: epsilon key not found')
    if k1[0] != k2[0] or k1[0]:
        r.violate('epsilon-key', px.rel('Machines'), lt.lineno,
                  'Node.link_to records epsilon moves under %r but TransitionMap.get_epsilon reads %r (and nfa_to_dfa skips only falsy events): epsilon moves are never followed' % (k1[0], k2[0]))
    # that the closure functions are reflexive and follow chains and cycles of epsilon moves is decided by evaluation on all small epsilon graphs: sC50.rule_epsclosure (C50-EPS)
    return r


# ====================================================================================== R9 pseudo-character protocol of the scan loop
def check_protocol(px, fn, init_state, init_char, consts):
    loops = [n for n in fn.body if isinstance(n, ast.While)]
    if not loops:
        raise AnalysisError('run_machine_inlined: scan loop not found')
    chain = None
    for n in ast.walk(loops[0]):
        if isinstance(n, ast.If) and isinstance(n.test, ast.Compare) and isinstance(n.test.left, ast.Name) and n.test.left.id == 'input_state':
            if chain is None or n.lineno < chain.lineno:
                chain = n
    if chain is None:
        raise AnalysisError('run_machine_inlined: input_state dispatch not found')
    cache = {}

    def outcome(k, c):
        if (k, c) not in cache:
            env = dict(consts)
            env.update({'input_state': k, 'c': c, 'cur_char': 'prev'})
            outs = Mini(frozen={'c'}).block([chain], env)
            cache[(k, c)] = _agree(outs, lambda e, sig: (e.get('cur_char'), e.get('input_state')))
        return cache[(k, c)]
    text = ['x', '\n', 'y', '']
    pos = 0
    state = init_state
    emitted = [init_char]
    for _ in range(9):
        o = {c: outcome(state, c) for c in ('\n', '', 'x', 'y')}
        if len(set(o.values())) > 1:
            c = text[pos] if pos < len(text) else ''
            pos += 1
        else:
            c = 'x'
        ch, state = o[c]
        if ch is UNK or state is UNK:
            raise Unmodelled('cur_char/input_state not determined in input state %r' % (state,))
        emitted.append(ch)
    return emitted, chain


def rule_protocol(px):
    r = Rule('C50-INPUT', "the scan loop feeds, for the text 'x\\ny' + end of file, exactly the pseudo-character sequence BOL x EOL \\n BOL y EOL EOF '' '' "
             '(evaluated from the input_state dispatch of run_machine_inlined and the initial state set by Scanner.__init__)', floor=10)
    fn = px.method('Scanners', 'Scanner', 'run_machine_inlined')
    init = px.method('Scanners', 'Scanner', '__init__')
    consts = {n: px.const('Scanners', n) for n in ('BOL', 'EOL', 'EOF')}
    if any(not isinstance(v, str) for v in consts.values()):
        raise AnalysisError('Scanners: BOL/EOL/EOF do not resolve to the Regexps constants')
    st0 = ch0 = None
    for n in sorted([n for n in walk_no_nested(init) if isinstance(n, ast.Assign)], key=lambda n: n.lineno):
        for t in n.targets:
            if is_self_attr(t) and t.attr == 'input_state':
                st0 = px.eval_const('Scanners', n.value)
            if is_self_attr(t) and t.attr == 'cur_char':
                ch0 = px.eval_const('Scanners', n.value)
    if st0 is None or ch0 is None:
        raise AnalysisError('Scanner.__init__: initial input_state / cur_char not found')
    want = [consts['BOL'], 'x', consts['EOL'], '\n', consts['BOL'], 'y', consts['EOL'], consts['EOF'], '', '']

    def diff(fn):
        got, chain = _model('Scanner.run_machine_inlined', lambda: check_protocol(px, fn, st0, ch0, consts))
        return got, chain
    got, chain = diff(fn)
    for i, w in enumerate(want):
        r.inst('step#%d' % i, sample='step %d feeds %r' % (i, w))
    if got != want:
        i = next(i for i in range(len(want)) if got[i] != want[i])
        where = 'Scanner.__init__' if i == 0 else 'run_machine_inlined'
        r.violate('Scanner.%s:feed-sequence' % ('__init__' if i == 0 else 'run_machine_inlined'), px.rel('Scanners'), init.lineno if i == 0 else chain.lineno,
                  "for the text 'x\\ny'<eof> %s feeds %r; the machines built by Regexps expect %r (first difference at step %d: %r instead of %r): "
                  'newline, Bol, Eol or Eof can no longer be matched where they occur' % (where, got, want, i, got[i], want[i]))
    pc = ast.parse("def run(self):\n    while 1:\n        if input_state == 1:\n            if c == '\\n':\n                cur_char = EOL\n                input_state = 2\n"
                   "            elif not c:\n                cur_char = EOL\n                input_state = 4\n            else:\n                cur_char = c\n"
                   "        elif input_state == 2:\n            cur_char = '\\n'\n            input_state = 3\n        elif input_state == 3:\n            cur_char = BOL\n            input_state = 1\n"
                   "        elif input_state == 4:\n            cur_char = EOL\n            input_state = 5\n        else:\n            cur_char = ''\n").body[0]
    r.positive_control(check_protocol(px, pc, st0, ch0, consts)[0] != want, 'EOF marker replaced by a second EOL')
    return r


# ====================================================================================== R10 nullable / match_nl attributes, newline split
def _re_init_outcome(cls_name, init, subs, extra=()):
    """evaluate an RE constructor's __init__ on stub sub-expressions -> (nullable, match_nl) of the new object"""
    ps = params(init)
    obj = NS()
    env = {ps[0]: obj}
    if init.args.vararg is not None:
        env[init.args.vararg.arg] = tuple(subs)
        rest = ps[1:]
    else:
        rest = ps[1:]
        if not rest:
            raise Unmodelled('no sub-expression parameter')
        env[rest[0]] = subs[0]
        rest = rest[1:]
    for p, v in zip(rest, extra):
        env[p] = v
    outs = Mini().block(init.body, env)

    def attrs(e, sig):
        o = e[ps[0]]
        return (getattr(o, 'nullable', 'class-default'), getattr(o, 'match_nl', 'class-default'))
    return _agree(outs, attrs)


def rule_attrs(px):
    r = Rule('C50-ATTR', 'composite REs never under-state nullable / match_nl (Seq, Alt, Rep1, SwitchCase constructors evaluated on all stub combinations; these flags '
             'decide where the optional BOL step is offered) and CodeRange routes the newline code through RawNewline', floor=7)
    import itertools
    rel = px.rel('Regexps')
    kinds = [(a, b) for a in (0, 1) for b in (0, 1)]
    specs = {
        'Seq': (lambda subs: (all(n for n, _ in subs), any(nl and all(n for n, _ in subs[i + 1:]) for i, (_, nl) in enumerate(subs))), (0, 1, 2, 3)),
        'Alt': (lambda subs: (any(n for n, _ in subs), any(nl for _, nl in subs)), (1, 2, 3)),
        'Rep1': (lambda subs: subs[0], (1,)),
        'SwitchCase': (lambda subs: subs[0], (1,)),
    }
    for cname, (want_fn, lens) in specs.items():
        c = px.cls('Regexps', cname)
        init = next((f for f in c.body if isinstance(f, ast.FunctionDef) and f.name == '__init__'), None)
        if init is None:
            raise AnalysisError('Regexps.%s.__init__ not found' % cname)
        cls_default = {}
        for k in px_mro_attrs(px, c):
            cls_default.setdefault(k[0], k[1])

        def run_all():
            bad = {'nullable': [], 'match_nl': []}
            for ln in lens:
                for combo in itertools.product(kinds, repeat=ln):
                    subs = [NS(nullable=n, match_nl=nl) for n, nl in combo]
                    got = _re_init_outcome(cname, init, subs, extra=(0,))
                    want = want_fn(list(combo))
                    for i, attr in enumerate(('nullable', 'match_nl')):
                        g = got[i]
                        if g == 'class-default':
                            g = cls_default.get(attr, 1)
                        if g is UNK:
                            raise Unmodelled('%s.%s not determined' % (cname, attr))
                        if want[i] and not g:
                            bad[attr].append(combo)
            return bad
        bad = _model('Regexps.%s.__init__' % cname, run_all)
        if cname == 'Rep1':
            real = init
            init = ast.parse("def __init__(self, re):\n    self.check_re(1, re)\n    self.re = re\n    self.nullable = re.nullable\n    self.match_nl = 0\n").body[0]
            r.positive_control(bool(run_all()['match_nl']), 'Rep1 that forgets match_nl')
            init = real
        for attr, why in (('nullable', 'an element that may match nothing is declared non-nullable: a following element is not offered the pending BOL marker at the start of a line'),
                          ('match_nl', 'an expression that can end in a newline is declared not to: the element after it is not offered the BOL marker that follows every newline')):
            key = 'Regexps.%s.__init__:%s' % (cname, attr)
            r.inst(key, sample='%s(%s) computes %s' % (cname, '...', attr))
            if bad[attr]:
                r.violate(key, rel, init.lineno, '%s computes %s = false for sub-expressions with (nullable, match_nl) = %s: %s' % (cname, attr, bad[attr][0], why))
    # CodeRange: newline split
    fn = px.func('Regexps', 'CodeRange')
    nl = px.const('Regexps', 'nl_code')
    ps = params(fn)

    def cr(a, b):
        env = px.env_consts('Regexps', fn)
        env.update({ps[0]: a, ps[1]: b, 'RawNewline': ('NL',)})
        outs = Mini(ctors=('Alt', 'RawCodeRange', 'Seq')).block(fn.body, env)
        v = _agree(outs, lambda e, sig: sig)
        if not (isinstance(v, tuple) and v[0] == 'return') or v[1] is UNK:
            raise Unmodelled('CodeRange(%d, %d) result not determined' % (a, b))
        return v[1]

    def covered(term):
        """-> (set of plain codes, uses RawNewline)"""
        if term == ('NL',):
            return set(), True
        if isinstance(term, tuple) and term and term[0] == 'RawCodeRange' and len(term) == 3:
            return set(range(term[1], term[2])), False
        if isinstance(term, tuple) and term and term[0] == 'Alt':
            cs, n = set(), False
            for t in term[1:]:
                c2, n2 = covered(t)
                cs |= c2
                n = n or n2
            return cs, n
        raise Unmodelled('CodeRange builds %r' % (term,))

    def check_cr():
        bad = []
        for a, b in ((nl - 5, nl + 10), (nl, nl + 1), (nl - 5, nl), (nl, nl + 10), (nl + 1, nl + 10), (nl - 5, nl + 1)):
            cs, n = covered(cr(a, b))
            want = set(range(a, b)) - {nl}
            if cs != want or n != (a <= nl < b):
                bad.append(((a, b), sorted(cs), n))
        return bad
    bad = _model('Regexps.CodeRange', check_cr)
    r.inst('Regexps.CodeRange:newline', sample='CodeRange splits ranges containing code %d into [a, nl) + RawNewline + (nl, b)' % nl)
    for (a, b), cs, n in bad:
        r.violate('Regexps.CodeRange:newline', rel, fn.lineno,
                  'CodeRange(%d, %d) covers plain codes %s and %s RawNewline; code %d (newline) must be matched by RawNewline only (it is preceded by the EOL marker) '
                  'and every other code of the range by a RawCodeRange' % (a, b, cs, 'uses' if n else 'does not use', nl))
        break
    return r


def px_mro_attrs(px, c):
    """(attr, value) of class-level nullable/match_nl along the single-inheritance chain inside Regexps"""
    out = []
    seen = 0
    while c is not None and seen < 6:
        seen += 1
        for s in c.body:
            if isinstance(s, ast.Assign) and isinstance(s.targets[0], ast.Name) and s.targets[0].id in ('nullable', 'match_nl') and isinstance(s.value, ast.Constant):
                out.append((s.targets[0].id, s.value.value))
        b = c.bases[0].id if c.bases and isinstance(c.bases[0], ast.Name) else None
        c = next((k for k in px.trees['Regexps'].body if isinstance(k, ast.ClassDef) and k.name == b), None) if b else None
    return out
