"""C46-PIPE: order of the text passes in the regex dependency scanner (Dependencies.parse_dependencies).

The scanner sees the file through a pipeline  read -> strip_string_literals -> normalisations -> regexes.  Two order
constraints are necessary for "the dependency set equals the set of files the compiler reads":

 PRE   strip_string_literals must receive the text exactly as it was read.  The stripper decides where string literals
       and comments begin and end the way the compiler's lexer does: by quotes, '#', backslashes and NEWLINES of the raw
       text.  Any rewrite applied before it (joining backslash-continued lines, replacing tabs, ...) moves those
       boundaries or changes literal contents: a comment ending in a backslash swallows the following `cimport` line, an
       include file name containing the replaced character is recorded under a different name.
 JOIN  the text the dependency regex is applied to must have backslash-newline continuations neutralised (the
       line-anchored patterns only allow blanks between the tokens of a statement) - by PRE, after the stripping.
       Decided by applying the constant replace steps of the lineage, and then the extracted pattern (stdlib re, run by
       the checker on constants), to continuation spellings of the four statement kinds.

The pipeline is recovered as a value lineage (path-sensitive def-use over the function): each text value carries the
tuple of passes applied since the file was read.  No repository code is executed.
"""
import ast, re

from ..core import Rule, AnalysisError, node_src
from ..engine import tables, pyflow
from .pC46 import REL, _tree, _regex_def, _call_name

STRIPPER = 'strip_string_literals'
TEXT_METHODS = {'replace', 'expandtabs', 'translate', 'strip', 'lstrip', 'rstrip', 'lower', 'upper', 'casefold', 'swapcase', 'title', 'capitalize',
                'format', 'join', 'removeprefix', 'removesuffix', 'zfill', 'center', 'ljust', 'rjust', 'encode', 'decode', 'splitlines', 'split'}
REGEX_APPLY = ('finditer', 'search', 'match', 'findall', 'fullmatch')
# continuation spellings: (statement kind, text after stripping, substrings the match must cover)
CONT_PROBES = [
    ('cimport-list', 'cimport aa, \\\n    bb\n', ('aa', 'bb')),
    ('from-cimport', 'from pkg \\\n    cimport mod\n', ('pkg',)),
    ('include', 'include \\\n    "__Pyx_L1_"\n', ('__Pyx_L1_',)),
    ('cdef-extern', 'cdef extern \\\n    from "__Pyx_L1_":\n', ('__Pyx_L1_',)),
]


def _const(e):
    v = tables.literal(e) if isinstance(e, (ast.Constant, ast.JoinedStr, ast.BinOp)) else None
    return v if isinstance(v, str) else None


def lineages(fn, regex_names):
    """-> (pre, uses): pre = [(call node, steps of the stripper's argument | None)], uses = [(call node, regex name, steps | None)]
    steps: tuple of ('read',) | ('strip',) | ('replace', a, b) | ('sub', pattern, repl) | ('method', name) | ('slice',) | ('concat',)"""
    pre, uses = [], []

    def lin(e, s):
        if isinstance(e, ast.Name):
            for f in s:
                if isinstance(f, tuple) and f[0] == 'H' and f[1] == e.id:
                    return f[2]
            return None
        if isinstance(e, ast.Call) and isinstance(e.func, ast.Attribute):
            base = lin(e.func.value, s)
            if base is None:
                if e.func.attr == 'read' and not e.args:
                    return (('read',),)
                if e.func.attr == 'sub' and len(e.args) >= 3:          # re.sub(pattern, repl, text)
                    b = lin(e.args[2], s)
                    if b is not None:
                        return b + (('sub', _const(e.args[0]), _const(e.args[1])),)
                return None
            if e.func.attr == 'replace' and len(e.args) >= 2:
                return base + (('replace', _const(e.args[0]), _const(e.args[1])),)
            return base + (('method', e.func.attr),)
        if isinstance(e, ast.Call) and isinstance(e.func, ast.Name) and e.func.id in ('str', 'StringIO') and len(e.args) == 1:
            return lin(e.args[0], s)
        if isinstance(e, ast.Subscript):
            b = lin(e.value, s)
            return None if b is None else b + (('slice',),)
        if isinstance(e, ast.BinOp) and isinstance(e.op, ast.Add):
            a, b = lin(e.left, s), lin(e.right, s)
            if a is None and b is None:
                return None
            return (a or b) + (('concat',),)
        if isinstance(e, ast.IfExp):
            a, b = lin(e.body, s), lin(e.orelse, s)
            return a if a == b else (a or b or ()) + (('either',),) if (a or b) else None
        return None

    def tr(n, state):
        s = set(state)
        for c in pyflow.calls_in(n):
            if _call_name(c) == STRIPPER and c.args:
                pre.append((c, lin(c.args[0], s)))
            if isinstance(c.func, ast.Attribute) and c.func.attr in REGEX_APPLY and isinstance(c.func.value, ast.Name) and c.func.value.id in regex_names and c.args:
                uses.append((c, c.func.value.id, lin(c.args[0], s)))
        if isinstance(n, ast.Assign):
            vals = {}
            for t in n.targets:
                if isinstance(t, ast.Name):
                    vals[t.id] = lin(n.value, s)
                elif isinstance(t, (ast.Tuple, ast.List)):
                    strip = isinstance(n.value, ast.Call) and _call_name(n.value) == STRIPPER and n.value.args
                    for i, e in enumerate(t.elts):
                        if isinstance(e, ast.Name):
                            b = lin(n.value.args[0], s) if strip and i == 0 else None
                            vals[e.id] = None if b is None else b + (('strip',),)
            for name, v in vals.items():
                s = {f for f in s if not (isinstance(f, tuple) and f[0] == 'H' and f[1] == name)}
                if v is not None:
                    s.add(('H', name, v))
        elif isinstance(n, ast.AugAssign) and isinstance(n.target, ast.Name):
            b = lin(n.target, s)
            if b is not None:
                s = {f for f in s if not (isinstance(f, tuple) and f[0] == 'H' and f[1] == n.target.id)}
                s.add(('H', n.target.id, b + (('concat',),)))
        return frozenset(s)
    pyflow.Flow(tr, correlate=False).run(fn)
    return pre, uses


_NAMES = {'\\': 'backslash', '\n': 'newline', '\r': 'cr', '\t': 'tab', ' ': 'space', '"': 'dquote', "'": 'quote', '#': 'hash'}


def _charnames(text):
    return '+'.join(_NAMES.get(ch, ch if ch.isalnum() else 'u%04x' % ord(ch)) for ch in text[:6]) or 'empty'


def _describe(step):
    if step[0] in ('replace', 'sub'):
        return '%s(%r, %r)' % (step[0], step[1], step[2])
    return step[1] + '()' if step[0] == 'method' else step[0]


def check_pre(fn, regex_names):
    """-> (n stripper calls, problems[(key, line, msg)], uses)"""
    pre, uses = lineages(fn, regex_names)
    if not pre:
        raise AnalysisError('%s: no call of %s found' % (fn.name, STRIPPER))
    problems, seen = [], set()
    for call, steps in pre:
        if steps is None or steps[0] != ('read',):
            raise AnalysisError('%s: the argument of %s (%s) cannot be traced back to the text read from the source file' % (fn.name, STRIPPER, node_src(call.args[0])))
        for st in steps[1:]:
            kind = st[0] if st[0] != 'method' else st[1]
            key = 'pre-strip:%s' % kind
            if st[0] == 'replace' and st[1] is not None:
                key += ':' + _charnames(st[1])
            if key in seen:
                continue
            seen.add(key)
            if st[0] in ('replace', 'sub'):
                touches = [w for w, ch in (('line ends', '\n'), ('line ends', '\r'), ('backslashes', '\\'), ('quotes', '"'), ('quotes', "'"), ('comment starts', '#'))
                           if any(isinstance(x, str) and ch in x for x in st[1:]) or st[1] is None]
                effect = ('it rewrites %s, which delimit comments and string literals: e.g. a comment line ending in a backslash is joined with the next line and a real '
                          'cimport/include statement on that line disappears into the comment label' % ' and '.join(sorted(set(touches)))) if touches else \
                    'it changes the contents of string literals, so an include / extern file name containing the replaced text is recorded under a name that does not exist'
            elif st[0] == 'method' and st[1] not in TEXT_METHODS:
                problems.append((key + ':unmodelled', call.lineno, None))
                continue
            else:
                effect = 'the stripper no longer sees the text the compiler reads'
            problems.append((key, call.lineno,
                             '%s is applied to the source text BEFORE %s: %s; the dependency (and with it the rebuild after an edit of that file) is lost. '
                             'Text normalisations belong after the stripping' % (_describe(st), STRIPPER, effect)))
    return len(pre), problems, uses


def apply_post(steps, text):
    """apply the constant replace steps of a lineage to a probe text (read / strip are the identity on a probe that holds no
    literals or comments); None if some other pass is involved"""
    if ('strip',) not in steps:
        return None
    for st in steps:
        if st in (('read',), ('strip',)):
            continue
        if st[0] == 'replace' and isinstance(st[1], str) and isinstance(st[2], str):
            text = text.replace(st[1], st[2])
        else:
            return None
    return text


def check_post(uses, regex_name, pat, flags):
    """-> (results[(kind, ok|None)], lineno)"""
    try:
        rx = re.compile(pat, flags)
    except re.error as e:
        raise AnalysisError('%s does not compile: %s' % (regex_name, e))
    mine = [(c, steps) for c, name, steps in uses if name == regex_name]
    if not mine:
        raise AnalysisError('parse_dependencies: %s is not applied' % regex_name)
    out = []
    for c, steps in mine:
        for kind, probe, needles in CONT_PROBES:
            one_line = probe.replace('\\\n', ' ')
            ref = [m.group(0) for m in rx.finditer(one_line)]
            if not ref or not all(any(n in g for g in ref) for n in needles):
                # the pattern does not even find the statement written on one line: that is a defect of the pattern for this statement
                # shape, decided (and reported) by C46-SCANBODY; the continuation probe has nothing to compare with
                out.append((kind, 'unmatched', c.lineno))
                continue
            t = apply_post(steps or (), probe)
            if t is None:
                out.append((kind, None, c.lineno))
                continue
            got = [m.group(0) for m in rx.finditer(t)]
            out.append((kind, all(any(n in g for g in got) for n in needles), c.lineno))
    return out


def rule_pipe(ctx):
    r = Rule('C46-PIPE', 'parse_dependencies: strip_string_literals receives the text exactly as read (no rewrite before the stripping), and backslash-newline continuations '
             'are neutralised between the stripping and the dependency regex', floor=4)
    tree = _tree(ctx)
    fn = tables.find_function(tree, 'parse_dependencies')
    pat, flags = _regex_def(tree, 'dependency_regex')
    names = {'dependency_regex', 'dependency_after_from_regex'}
    n, problems, uses = check_pre(fn, names)
    for i in range(n):
        r.inst('parse_dependencies:stripper-input#%d' % i, sample='argument of %s call %d is the unmodified file text' % (STRIPPER, i))
    for key, line, msg in problems:
        if msg is None:
            r.info('parse_dependencies: %s before %s is not modelled' % (key, STRIPPER))
        else:
            r.violate('Dependencies.parse_dependencies:' + key, REL, line, msg)
    for kind, ok, line in check_post(uses, 'dependency_regex', pat, flags):
        r.inst('parse_dependencies:continuation:' + kind, sample='%s statement with a backslash continuation is %s' % (kind, {True: 'found', False: 'MISSED', None: 'not modelled', 'unmatched': 'not comparable'}[ok]),
               nontrivial=ok in (True, False))
        if ok == 'unmatched':
            r.info('dependency_regex does not match the one-line spelling of the %s probe; the statement shape is decided by C46-SCANBODY, continuation probe skipped' % kind)
        elif ok is None:
            r.info('parse_dependencies: a pass between %s and dependency_regex is not a constant str.replace; continuation probe %s skipped' % (STRIPPER, kind))
        elif not ok:
            r.violate('Dependencies.parse_dependencies:continuation:' + kind, REL, line,
                      'a %s statement whose tokens are separated by a backslash-newline continuation is not found by dependency_regex on the text it is applied to '
                      '(no pass around %s joins continued lines and the line-anchored pattern only allows blanks between tokens): the compiler reads the statement, '
                      'the scanner misses the dependency and the module is not rebuilt when that file changes' % (kind, STRIPPER))
    pc = ast.parse("def parse_dependencies(f):\n    with open(f) as fh:\n        source = fh.read()\n    source = source.replace('\\\\\\n', ' ').replace('\\t', ' ')\n"
                   "    source, literals = strip_string_literals(source)\n    for m in dependency_regex.finditer(source):\n        pass\n").body[0]
    _, p2, u2 = check_pre(pc, names)
    post2 = check_post(u2, 'dependency_regex', pat, flags)
    # probes whose one-line spelling the pattern under analysis does not match are not comparable (decided by C46-SCANBODY)
    post3 = check_post([(c, n, tuple(x for x in st if x[0] != 'replace')) for c, n, st in u2], 'dependency_regex', pat, flags)
    r.positive_control({k for k, _, _ in p2} == {'pre-strip:replace:backslash+newline', 'pre-strip:replace:tab'} and all(ok for _, ok, _ in post2) and
                       not any(ok is True for _, ok, _ in post3) and any(ok is False for _, ok, _ in post3),
                       'joins before the stripping; no join at all: %s' % sorted(k for k, _, _ in p2))
    return r


# ======================================================================================================================
#  fourth round: rules that evaluate small pure functions of the build machinery over complete finite domains
#  (checker-owned evaluator sC50.PyEval: the AST is interpreted, nothing from the repository is imported or run)
# ======================================================================================================================
import os as _os
import types as _types
import importlib.util as _ilu

from .sC50 import PyEval, EvalError, PyRaise, Opaque, Func, Obj

_NS = _types.SimpleNamespace
_RE_STUB = _NS(compile=re.compile, sub=re.sub, MULTILINE=re.MULTILINE, VERBOSE=re.VERBOSE, M=re.M, X=re.X, S=re.S, DOTALL=re.DOTALL, I=re.I, IGNORECASE=re.IGNORECASE,
               escape=re.escape, match=re.match, search=re.search, findall=re.findall)
_OS_STUB = _NS(path=_NS(splitext=_os.path.splitext, dirname=_os.path.dirname, basename=_os.path.basename, join=_os.path.join, normpath=_os.path.normpath,
                        sep='/', isabs=_os.path.isabs), getcwd=lambda: '/cwd', sep='/')


def _guard(desc, thunk):
    try:
        return thunk()
    except EvalError as e:
        raise AnalysisError('%s: outside the fragment the evaluator models (%s)' % (desc, e))
    except RecursionError:
        raise AnalysisError('%s: recursion too deep for the evaluator' % desc)


def deps_model(ctx, tree=None):
    """Dependencies.py loaded into a PyEval instance with the memo decorators as identity (memo transparency is C46-MEMO / C46-ALIAS)"""
    def build():
        ev = PyEval(max_steps=4000000, decorators={'cached_function': 'identity', 'cached_method': 'identity'})
        cy = _NS(compiled=False, declare=lambda t=None, v=None, **k: v)
        mod = ev.load_module('Dependencies', tree if tree is not None else _tree(ctx), imports={'cython': cy, 're': _RE_STUB, 'os': _OS_STUB})
        return ev, mod
    return build() if tree is not None else ctx.memo('sC46.deps_model', build)


# ---------------------------------------------------------------------------------------------------------------- MEMO
MEMO_TEST_CLASS = '''
class T:
    def __init__(self, tag):
        self.tag = tag
    @cached_method
    def a(self, x, y=0):
        return ('a', self.tag, x, y)
    @cached_method
    def b(self, x, y=0):
        return ('b', self.tag, x, y)
'''
# identity of a call = (instance, method, first argument, second argument, arity); every pair below differs in exactly one component
MEMO_PAIRS = [
    ('method', ('t1', 'a', (1, 2)), ('t1', 'b', (1, 2))),
    ('instance', ('t1', 'a', (1, 2)), ('t2', 'a', (1, 2))),
    ('first argument', ('t1', 'a', (1, 2)), ('t1', 'a', (3, 2))),
    ('second argument', ('t1', 'a', (1, 2)), ('t1', 'a', (1, 3))),
    ('argument order', ('t1', 'a', (1, 2)), ('t1', 'a', (2, 1))),
    ('arity', ('t1', 'a', (1,)), ('t1', 'a', (1, 2))),
    ('nothing (same call twice)', ('t1', 'a', (1, 2)), ('t1', 'a', (1, 2))),
]


def memo_outcomes(ctx, utils_tree):
    ev = PyEval(max_steps=200000, decorators={'wraps': 'identity', 'functools.wraps': 'identity'})       # functools.wraps only copies metadata
    um = ev.load_module('Utils', utils_tree, imports={'re': _RE_STUB, 'os': _OS_STUB})
    cm = um.vars.get('cached_method')
    if not isinstance(cm, Func):
        raise AnalysisError('Utils.cached_method could not be established by the evaluator%s' % ((' (%s)' % cm.why) if isinstance(cm, Opaque) else ''))
    out = []
    for what, c1, c2 in MEMO_PAIRS:
        ev.decorators = {'cached_method': cm, 'wraps': 'identity', 'functools.wraps': 'identity'}
        tm = ev.load_module('memo_test', ast.parse(MEMO_TEST_CLASS), presets={'cached_method': cm})
        T = tm.vars['T']
        if isinstance(T, Opaque):
            raise EvalError(T.why)
        objs = {'t1': ev.call(T, ['t1']), 't2': ev.call(T, ['t2'])}

        def do(c):
            inst, meth, args = c
            return ev.call(ev.getattr(objs[inst], meth), list(args))

        def pure(c):
            inst, meth, args = c
            return (meth, inst, args[0], args[1] if len(args) > 1 else 0)
        try:
            r1, r2 = do(c1), do(c2)
        except PyRaise as e:
            r1, r2 = 'raises %r' % (e.exc,), None
        out.append((what, c1, c2, r1, r2, pure(c1), pure(c2)))
    return out


def rule_memo(ctx):
    r = Rule('C46-MEMO', 'Utils.cached_method is transparent: two calls that differ in the instance, the method, any argument, the argument order or the arity never share a '
             'memo entry, and the second of two identical calls returns the same value (the decorator is evaluated by the checker on a two-method class for every component '
             'in which two calls can differ)', floor=7)
    urel = 'Cython/Utils.py'
    ut = ctx.parse(urel)
    fn = tables.find_function(ut, 'cached_method')
    rows = _guard('Utils.cached_method', lambda: memo_outcomes(ctx, ut))
    for what, c1, c2, r1, r2, p1, p2 in rows:
        key = 'Utils.cached_method:distinguishes:%s' % what.split(' (')[0].replace(' ', '-')
        r.inst(key, sample='%s.%s%r then %s.%s%r -> %r, %r' % (c1[0], c1[1], c1[2], c2[0], c2[1], c2[2], r1, r2))
        if r1 != p1 or r2 != p2:
            r.violate(key, urel, fn.lineno,
                      'with @cached_method, %s.%s%r followed by %s.%s%r (the calls differ in: %s) returns %r and %r instead of %r and %r: a DependencyTree query is answered with the '
                      'memoised result of another query (e.g. find_pxd(module, file) for a relative cimport of another package, included_files(f) with the value of cimported_files(f)), '
                      'so the dependency set of a module is wrong' % (c1[0], c1[1], c1[2], c2[0], c2[1], c2[2], what, r1, r2, p1, p2))
    # positive control: one cache attribute for all methods
    pc = ast.parse("def cached_method(f):\n    def wrapper(self, *args):\n        cache = getattr(self, '_cache', None)\n        if cache is None:\n            cache = {}\n            setattr(self, '_cache', cache)\n"
                   "        if args in cache:\n            return cache[args]\n        res = cache[args] = f(self, *args)\n        return res\n    return wrapper\n")
    bad = memo_outcomes(ctx, pc)
    r.positive_control(any(r2 != p2 for what, c1, c2, r1, r2, p1, p2 in bad if what == 'method'), 'memo shared between the methods of an object')
    return r


# ---------------------------------------------------------------------------------------------------------------- SCANBODY
# one sample per statement shape the dependency regexes name (alternatives of dependency_regex x continuation forms of the from-list), plus the
# positions a statement can take (first line / later line / indented) and the places where it must NOT be seen (comment, string)
SCAN_SAMPLES = [
    # (key, text, cimports, includes, externs)
    ('cimport', 'cimport a\n', {'a'}, [], []),
    ('cimport-dotted', 'cimport a.b\n', {'a.b'}, [], []),
    ('cimport-list', 'cimport a, b.c\n', {'a', 'b.c'}, [], []),
    ('cimport-list-nospace', 'cimport a,b ,  c\n', {'a', 'b', 'c'}, [], []),
    ('from-cimport', 'from p cimport x\n', {'p', 'p.x'}, [], []),
    ('from-cimport-list', 'from p.q cimport x, y\n', {'p.q', 'p.q.x', 'p.q.y'}, [], []),
    ('from-cimport-paren', 'from p cimport (x, y)\n', {'p', 'p.x', 'p.y'}, [], []),
    ('from-cimport-comment', 'from p cimport x  # note\n', {'p', 'p.x'}, [], []),
    ('pure-from-import', 'from cython.cimports.p.q import x\n', {'p.q', 'p.q.x'}, [], []),
    ('pure-import', 'import cython.cimports.p.q\n', {'p.q'}, [], []),
    ('extern', 'cdef extern from "h.h":\n    pass\n', set(), [], ['h.h']),
    ('extern-single-quote', "cdef extern from 'h.h':\n    pass\n", set(), [], ['h.h']),
    ('include', 'include "i.pxi"\n', set(), ['i.pxi'], []),
    ('include-single-quote', "include 'i.pxi'\n", set(), ['i.pxi'], []),
    ('later-line', 'x = 1\ny = 2\ncimport a\n', {'a'}, [], []),
    ('indented', 'IF X:\n    cimport a\n', {'a'}, [], []),
    ('tab-separated', 'cimport\ta\n', {'a'}, [], []),
    ('two-statements', 'cimport a\ninclude "i.pxi"\nfrom p cimport x\ncdef extern from "h.h":\n    pass\ninclude "j.pxi"\n', {'a', 'p', 'p.x'}, ['i.pxi', 'j.pxi'], ['h.h']),
    ('after-comment-line', '# note\ncimport a\n', {'a'}, [], []),
    ('after-trailing-comment', 'x = 1  # note\ninclude "i.pxi"\n', set(), ['i.pxi'], []),
    ('after-comment-ending-in-backslash', 'x = 1  # note \\\ncimport a\n', {'a'}, [], []),
    ('after-docstring', '"""doc\nstring"""\ncimport a\n', {'a'}, [], []),
    ('after-string-line', "s = 'text'\ncimport a\n", {'a'}, [], []),
    ('continued-statement', 'cimport a, \\\n    b\n', {'a', 'b'}, [], []),
    ('in-comment', '# cimport a\nx = 1  # include "i.pxi"\n', set(), [], []),
    ('in-string', 's = "cimport a"\nt = """\ninclude "i.pxi"\n"""\n', set(), [], []),
    ('not-a-statement', 'x = cimport_a\nprint(include)\n', set(), [], []),
]


def scan_component_indices(ctx):
    """which component of parse_dependencies() its consumers read as cimports / includes / externs"""
    ms = {}
    for n in _tree(ctx).body:
        if isinstance(n, ast.ClassDef) and n.name == 'DependencyTree':
            ms = {m.name: m for m in n.body if isinstance(m, ast.FunctionDef)}
    inc = None
    f = ms.get('included_files')
    for n in ast.walk(f) if f is not None else ():
        if isinstance(n, ast.Subscript) and isinstance(n.value, ast.Call) and _call_name(n.value) == 'parse_dependencies' and isinstance(n.slice, ast.Constant):
            inc = n.slice.value
    f = ms.get('cimports_externs_incdirs')
    cim = ext = None
    if f is not None:
        unpack = [n for n in ast.walk(f) if isinstance(n, ast.Assign) and isinstance(n.targets[0], ast.Tuple) and
                  any(isinstance(c, ast.Call) and _call_name(c) == 'parse_dependencies' for c in ast.walk(n.value))]
        rets = [n.value for n in ast.walk(f) if isinstance(n, ast.Return) and isinstance(n.value, ast.Tuple)]
        if unpack and rets:
            names = [e.id if isinstance(e, ast.Name) else None for e in unpack[0].targets[0].elts]
            lo = 0
            v = unpack[0].value
            if isinstance(v, ast.Subscript) and isinstance(v.slice, ast.Slice) and v.slice.lower is not None:
                lo = tables.literal(v.slice.lower) or 0

            def comp_of(ret_elt):
                used = {x.id for x in ast.walk(ret_elt) if isinstance(x, ast.Name)}
                hits = [i for i, nm in enumerate(names) if nm in used]
                return lo + hits[0] if len(hits) == 1 else None
            cim = comp_of(rets[0].elts[0]) if len(rets[0].elts) > 0 else None
            ext = comp_of(rets[0].elts[1]) if len(rets[0].elts) > 1 else None
    if inc is None or cim is None or ext is None:
        raise AnalysisError('DependencyTree: how included_files / cimports_externs_incdirs read the components of parse_dependencies() was not understood '
                            '(includes=%r cimports=%r externs=%r)' % (inc, cim, ext))
    return cim, inc, ext


def scan_results(ctx, samples, tree=None):
    ev, mod = deps_model(ctx, tree)
    fn = mod.vars.get('parse_dependencies')
    if not isinstance(fn, Func):
        raise AnalysisError('Dependencies.parse_dependencies could not be established by the evaluator%s' % ((' (%s)' % fn.why) if isinstance(fn, Opaque) else ''))
    out = {}
    for key, text, *_ in samples:
        fh = _NS(read=lambda text=text: text)
        mod.vars['Utils'] = _NS(open_source_file=lambda *a, **k: _NS(__enter__=lambda: fh, __exit__=lambda *a: None))
        mod.vars['DistutilsInfo'] = lambda *a, **k: 'INFO'
        try:
            out[key] = ev.call(fn, ['sample.pyx'])
        except PyRaise as e:
            out[key] = e
    return out


def rule_scanbody(ctx):
    r = Rule('C46-SCANBODY', 'parse_dependencies, evaluated by the checker on one sample per statement shape of its regexes (cimport / list / from-cimport with plain, listed, '
             'parenthesised and commented names / cython.cimports forms / cdef extern / include; first line, later line, indented, several statements) and on statements '
             'hidden in comments and strings, returns exactly the cimported module candidates, the include files and the extern headers, in the tuple components its '
             'consumers (included_files, cimports_externs_incdirs) read them from', floor=22)
    cim_i, inc_i, ext_i = scan_component_indices(ctx)
    res = _guard('Dependencies.parse_dependencies', lambda: scan_results(ctx, SCAN_SAMPLES))
    fn = tables.find_function(_tree(ctx), 'parse_dependencies')
    reported = set()
    for key, text, cim, inc, ext in SCAN_SAMPLES:
        got = res[key]
        r.inst('scan:' + key, sample='%r -> %r' % (text, got if not isinstance(got, PyRaise) else 'raises %r' % (got.exc,)))
        if isinstance(got, PyRaise):
            problem = ('raises', 'raises %r' % (got.exc,))
        elif not isinstance(got, tuple) or len(got) <= max(cim_i, inc_i, ext_i):
            problem = ('shape', 'returns %r' % (got,))
        else:
            problem = None
            for what, idx, want, as_set in (('cimports', cim_i, cim, True), ('includes', inc_i, inc, False), ('externs', ext_i, ext, False)):
                g = got[idx]
                try:
                    same = (set(g) == set(want) and (as_set or sorted(g) == sorted(want)))
                except TypeError:
                    same = False
                if not same:
                    problem = (what, 'component %d (read as the %s by DependencyTree) is %r, the statement%s give%s %s' % (
                        idx, what, g, 's' if text.count('\n') > 1 else '', '' if text.count('\n') > 1 else 's', sorted(want) if want else 'nothing'))
                    break
        if problem and problem[0] not in reported:
            reported.add(problem[0])
            r.violate('Dependencies.parse_dependencies:%s' % problem[0], REL, fn.lineno,
                      'for the source text %r parse_dependencies %s: the dependency set of the module differs from what the compiler reads, so an edited .pxd/.pxi/header does not '
                      'trigger regeneration (or an unrelated file does)' % (text, problem[1]))
    pc = ast.parse("import re\ndependency_regex = re.compile(r'^[ \\t]*cimport[ \\t]+([\\w.]+(?:[ \\t]*,[ \\t]*[\\w.]+)*)', re.M)\n"
                   "def strip_string_literals(s):\n    return s, {}\n"
                   "def parse_dependencies(f):\n    with Utils.open_source_file(f) as fh:\n        source = fh.read()\n    source, literals = strip_string_literals(source)\n    cimports = []\n"
                   "    for m in dependency_regex.finditer(source):\n        cimports.extend(x.strip() for x in m.group(1).split())\n    return cimports, [], [], None\n")
    got = scan_results(ctx, [s_ for s_ in SCAN_SAMPLES if s_[0] in ('cimport', 'cimport-list')], tree=pc)
    r.positive_control(isinstance(got['cimport'], tuple) and set(got['cimport'][0]) == {'a'} and set(got['cimport-list'][0]) != {'a', 'b.c'}, 'cimport list split on blanks')
    return r


# ---------------------------------------------------------------------------------------------------------------- PXD
def _tree_instance(ctx, existing, package, tree=None):
    ev, mod = deps_model(ctx, tree)
    DT = mod.vars.get('DependencyTree')
    if DT is None or isinstance(DT, Opaque):
        raise AnalysisError('Dependencies.DependencyTree could not be established by the evaluator')
    context = _NS(find_pxd_file=lambda name, pos=None, source_file_path=None, **k: ('PXD:' + name) if name in existing else None)
    mod.vars['package'] = lambda filename: tuple(package)
    t = ev.call(DT, [context], {'quiet': True})
    return ev, mod, t


def rule_pxd(ctx):
    r = Rule('C46-PXD', 'DependencyTree.find_pxd and cimported_files, evaluated by the checker over the complete table (relative level 1-3 x package depth 1-3 x one- and '
             'two-component names; absolute names with the package-relative and the absolute .pxd present or absent; module names in every relation to the `cython` '
             'package; every source extension cythonize compiles): a relative cimport resolves like importlib.util.resolve_name, an absolute name that only exists at top '
             'level is found, every cimported module that resolves is a dependency, and so is the same-named .pxd of every compilable source', floor=60)
    tree = _tree(ctx)
    cls = next((n for n in tree.body if isinstance(n, ast.ClassDef) and n.name == 'DependencyTree'), None)
    if cls is None:
        raise AnalysisError('DependencyTree vanished')
    ms = {m.name: m for m in cls.body if isinstance(m, ast.FunctionDef)}
    for need in ('find_pxd', 'cimported_files'):
        if need not in ms:
            raise AnalysisError('DependencyTree.%s vanished' % need)
    first = set()

    def violate(key, fn, msg):
        if key not in first:
            first.add(key)
            r.violate(key, REL, ms[fn].lineno, msg)
    # ---- relative names
    for depth in (1, 2, 3):
        pkg = ['p%d' % i for i in range(1, depth + 1)]
        for level in (1, 2, 3):
            for tail in ('x', 'x.y'):       # the bare forms `from . cimport x` (module name '.') are left to NOT_DECIDED: what the compiler reads for them is the package __init__.pxd
                module = '.' * level + tail
                try:
                    want = _ilu.resolve_name(module, '.'.join(pkg)) if tail else '.'.join(pkg[:len(pkg) - level + 1]) if level <= depth else None
                except ImportError:
                    want = None
                if tail == '' and want is not None and level > depth:
                    want = None
                for exists in (True, False):
                    ikey = 'find_pxd:relative:depth%d:%s:%s' % (depth, module, 'present' if exists else 'absent')
                    existing = {want} if (exists and want) else set()

                    def run():
                        ev, mod, t = _tree_instance(ctx, existing, pkg)
                        return ev.call(ev.getattr(t, 'find_pxd'), [module, '/src/' + '/'.join(pkg) + '/m.pyx'])
                    try:
                        got = _guard('DependencyTree.find_pxd', run)
                    except PyRaise as e:
                        got = 'raises %r' % (e.exc,)
                    r.inst(ikey, sample='%r in package %s -> %r' % (module, '.'.join(pkg), got))
                    exp = ('PXD:' + want) if (exists and want) else None
                    if got != exp:
                        violate('Dependencies.DependencyTree.find_pxd:relative', 'find_pxd',
                                'find_pxd(%r) for a module of package %s (where %s exists) returns %r instead of %r: the relative cimport resolves to %s for the compiler '
                                '(importlib.util.resolve_name), so the dependency on that .pxd is missed or a wrong file is taken' % (
                                    module, '.'.join(pkg), sorted(existing) or 'no candidate', got, exp, want or 'nothing (beyond the top-level package)'))
    # ---- absolute names
    for depth in (0, 1, 2):
        pkg = ['p%d' % i for i in range(1, depth + 1)]
        for module in ('x', 'x.y'):
            rel = '.'.join(pkg + [module])
            for has_rel in (False, True):
                for has_abs in (False, True):
                    existing = ({rel} if has_rel else set()) | ({module} if has_abs else set())

                    def run():
                        ev, mod, t = _tree_instance(ctx, existing, pkg)
                        return ev.call(ev.getattr(t, 'find_pxd'), [module, '/src/' + '/'.join(pkg + ['m.pyx'])])
                    try:
                        got = _guard('DependencyTree.find_pxd', run)
                    except PyRaise as e:
                        got = 'raises %r' % (e.exc,)
                    r.inst('find_pxd:absolute:depth%d:%s:%s%s' % (depth, module, 'R' if has_rel else '-', 'A' if has_abs else '-'), sample='%r in package %r with %s -> %r' % (module, '.'.join(pkg), sorted(existing), got))
                    ok = (got is None) if not existing else (got in {'PXD:' + e for e in existing})
                    if not ok:
                        violate('Dependencies.DependencyTree.find_pxd:absolute', 'find_pxd',
                                'find_pxd(%r) for a module of package %r returns %r although the existing .pxd candidates are %s: `cimport %s` %s' % (
                                    module, '.'.join(pkg), got, sorted(existing) or 'none', module,
                                    'is not recorded as a dependency, editing that .pxd does not regenerate the importing module' if existing else 'must not resolve'))
    # ---- cimported_files
    sched_exts = compiled_extensions(tree)
    modules = ['cython', 'cython.view', 'cythonx', 'cythonx.y', 'x', 'x.cython', 'cy', 'libc.math']
    for found_all in (True, False):
        for ext in sorted(sched_exts | {'.pxd', '.pxi'}):
            for own in (True, False):
                def run():
                    ev, mod, t = _tree_instance(ctx, set(), ['p'])
                    t.attrs['cimports'] = lambda filename: tuple(modules)
                    t.attrs['find_pxd'] = lambda module, filename=None: ('PXD:' + module) if found_all else None
                    mod.vars['path_exists'] = lambda p: own and p == '/src/p/m.pxd'
                    return ev.call(ev.getattr(t, 'cimported_files'), ['/src/p/m' + ext])
                try:
                    got = _guard('DependencyTree.cimported_files', run)
                except PyRaise as e:
                    got = 'raises %r' % (e.exc,)
                r.inst('cimported_files:%s:%s:%s' % (ext, 'own-pxd' if own else 'no-own-pxd', 'all-found' if found_all else 'none-found'), sample='m%s -> %r' % (ext, got))
                if not isinstance(got, (tuple, list, set, frozenset)):
                    violate('Dependencies.DependencyTree.cimported_files:result', 'cimported_files', 'cimported_files(m%s) yields %r' % (ext, got))
                    continue
                want = {'PXD:' + m for m in modules if found_all and not (m == 'cython' or m.startswith('cython.'))}
                missing = sorted(want - set(got))
                if missing:
                    violate('Dependencies.DependencyTree.cimported_files:modules', 'cimported_files',
                            'cimported_files(m%s) for the cimports %s (all of which resolve) lacks %s: those .pxd files are read by the compiler but are no dependencies, editing them does '
                            'not regenerate the module' % (ext, modules, missing))
                if own and ext in sched_exts and '/src/p/m.pxd' not in got:
                    violate('Dependencies.DependencyTree.cimported_files:own-pxd', 'cimported_files',
                            'cimported_files(m%s) does not contain the existing m.pxd: cythonize compiles %s sources and the compiler reads the same-named .pxd for each of them, so '
                            'editing m.pxd does not regenerate m%s' % (ext, sorted(sched_exts), ext))
    pc = ast.parse("class DependencyTree:\n    def __init__(self, context, quiet=False):\n        self.context = context\n    def package(self, filename):\n        return package(filename)\n"
                   "    def find_pxd(self, module, filename=None):\n        module_path = module.split('.')\n        package_path = list(self.package(filename))\n"
                   "        while module_path and not module_path[0]:\n            package_path.pop()\n            module_path.pop(0)\n"
                   "        return self.context.find_pxd_file('.'.join(package_path + module_path), source_file_path=filename)\n")
    ev2, mod2, t2 = _tree_instance(ctx, {'p1.x'}, ['p1'], tree=pc)
    r.positive_control(ev2.call(ev2.getattr(t2, 'find_pxd'), ['.x', '/src/p1/m.pyx']) is None, 'relative name climbs one package too far')
    return r


def compiled_extensions(tree):
    """the source extensions the scheduling loop of cythonize() turns into C files"""
    fn = tables.find_function(tree, 'cythonize')
    exts = set()
    for n in ast.walk(fn):
        if isinstance(n, ast.Compare) and len(n.ops) == 1 and isinstance(n.ops[0], ast.In) and isinstance(n.left, ast.Name) and n.left.id == 'ext':
            v = tables.literal(n.comparators[0])
            if isinstance(v, (tuple, list, set)) and all(isinstance(x, str) for x in v):
                exts |= set(v)
    if not exts:
        raise AnalysisError('cythonize: the test `ext in (...)` that selects the sources to compile was not found')
    return exts


# ---------------------------------------------------------------------------------------------------------------- MARKV
def marker_outcomes(utils_tree, version='3.9.9'):
    ev = PyEval(max_steps=100000)
    exists = [True]
    content = [b'']
    os_stub = _NS(path=_NS(exists=lambda p: exists[0], getmtime=lambda p: 0, splitext=_os.path.splitext, isdir=lambda p: False, join=_os.path.join), unlink=lambda p: None)
    um = ev.load_module('Utils', utils_tree, imports={'re': _RE_STUB, 'os': os_stub, ':__version__': version})
    marker = um.vars.get('GENERATED_BY_MARKER')
    fn = um.vars.get('file_generated_by_this_cython')
    if not isinstance(marker, str) or not isinstance(fn, Func):
        raise AnalysisError('Utils.GENERATED_BY_MARKER / file_generated_by_this_cython could not be established by the evaluator')
    if version not in marker:
        return marker, None

    def opener(path, mode='r', *a, **k):
        if not exists[0]:
            raise FileNotFoundError(path)
        data = content[0]
        return _NS(__enter__=lambda: _NS(read=lambda n=-1: data if n is None or n < 0 else data[:n]), __exit__=lambda *a: None)
    um.vars['open'] = opener
    mb = marker.encode('ascii')
    other = marker.replace(version, '0.29.1').encode('ascii')
    cases = [('this-version', True, mb + b'\n\n#include <Python.h>\n', True),
             ('other-version', True, other + b'\n\n#include <Python.h>\n', False),
             ('shorter-version-prefix', True, marker.replace(version, version[:-2]).encode('ascii') + b'\n', False),
             ('truncated-marker', True, mb[:len(mb) // 2], False),
             ('foreign-file', True, b'/* hand written */\nint x;\n', False),
             ('empty-file', True, b'', False),
             ('missing-file', False, b'', False)]
    out = []
    for key, ex, data, want in cases:
        exists[0], content[0] = ex, data
        try:
            got = ev.truth(ev.call(fn, ['m.c']))
        except PyRaise as e:
            got = 'raises %r' % (e.exc,)
        out.append((key, data, want, got))
    return marker, out


def rule_marker_value(ctx):
    r = Rule('C46-MARKV', 'Utils.file_generated_by_this_cython (evaluated by the checker over the classes of file content relative to the marker) is true exactly for a file that '
             'begins with the complete "Generated by Cython <this version>" marker: C files of another Cython version, truncated, foreign, empty and missing files are regenerated', floor=7)
    urel = 'Cython/Utils.py'
    ut = ctx.parse(urel)
    fn = tables.find_function(ut, 'file_generated_by_this_cython')
    marker, rows = _guard('Utils.file_generated_by_this_cython', lambda: marker_outcomes(ut))
    if rows is None:
        r.inst('marker:version')
        r.violate('Utils.GENERATED_BY_MARKER:version', urel, fn.lineno, 'GENERATED_BY_MARKER (%r) does not contain the Cython version: C files generated by other versions are never regenerated' % marker)
        for i in range(6):
            r.inst('marker:skipped#%d' % i, nontrivial=False)
        return r
    for key, data, want, got in rows:
        r.inst('Utils.file_generated_by_this_cython:' + key, sample='%s (%r...) -> %r' % (key, data[:30], got))
        if got != want:
            r.violate('Utils.file_generated_by_this_cython:' + key, urel, fn.lineno,
                      'for a C file that is %s (content starts %r) file_generated_by_this_cython is %r instead of %r: %s' % (
                          key.replace('-', ' '), data[:40], got, want,
                          'cythonize keeps the stale C file of another compiler version / a damaged file instead of regenerating it' if not want else
                          'every C file counts as foreign and is regenerated on every run'))
    pc = ast.parse("import os\nfrom . import __version__ as cython_version\nGENERATED_BY_MARKER = '/* Generated by Cython %s */' % cython_version\nGENERATED_BY_MARKER_BYTES = GENERATED_BY_MARKER.encode('us-ascii')\n"
                   "def file_generated_by_this_cython(path):\n    file_content = b''\n    if os.path.exists(path):\n        with open(path, 'rb') as f:\n            file_content = f.read(22)\n"
                   "    return file_content and file_content.startswith(GENERATED_BY_MARKER_BYTES[:22])\n")
    _, rows2 = marker_outcomes(pc)
    r.positive_control(any(k == 'other-version' and got is True for k, _, _, got in rows2), 'marker compared without its version part')
    return r


# ---------------------------------------------------------------------------------------------------------------- NEWESTV
def newest_outcomes(ctx, tree=None):
    """newest_dependency evaluated on a modelled tree  SRC -cimport-> IMM -cimport-> TRANS (-cimport-> SRC, a cycle),  SRC -include-> INC"""
    out = []
    for newest in ('SRC', 'IMM', 'INC', 'TRANS'):
        for cyclic in (False, True):
            ev, mod, t = _tree_instance(ctx, set(), ['p'], tree)
            times = {f: 1 + i for i, f in enumerate(('SRC', 'IMM', 'INC', 'TRANS'))}
            times[newest] = 9
            cim = {'SRC': ('IMM',), 'IMM': ('TRANS',), 'TRANS': ('SRC',) if cyclic else ()}
            t.attrs['cimported_files'] = lambda f: cim.get(f, ())
            t.attrs['included_files'] = lambda f: {'INC'} if f == 'SRC' else set()
            t.attrs['timestamp'] = lambda f: times[f]
            try:
                got = ev.call(ev.getattr(t, 'newest_dependency'), ['SRC'])
            except PyRaise as e:
                got = 'raises %r' % (e.exc,)
            out.append((newest, cyclic, got, (9, newest)))
    return out


def rule_newest_value(ctx):
    r = Rule('C46-NEWESTV', 'newest_dependency(source), evaluated by the checker on a modelled tree (source, an immediate cimport, an include, a file reached only transitively; with '
             'and without a cimport cycle back to the source) returns (time, file) of whichever of them is newest', floor=8)
    fn = None
    for n in _tree(ctx).body:
        if isinstance(n, ast.ClassDef) and n.name == 'DependencyTree':
            fn = next((m for m in n.body if isinstance(m, ast.FunctionDef) and m.name == 'newest_dependency'), None)
    if fn is None:
        raise AnalysisError('DependencyTree.newest_dependency vanished')
    rows = _guard('DependencyTree.newest_dependency', lambda: newest_outcomes(ctx))
    done = set()
    for newest, cyclic, got, want in rows:
        key = 'Dependencies.DependencyTree.newest_dependency:newest=%s%s' % (newest, ':cycle' if cyclic else '')
        r.inst(key, sample='newest file %s%s -> %r' % (newest, ' (cyclic cimports)' if cyclic else '', got))
        ok = isinstance(got, (tuple, list)) and len(got) == 2 and tuple(got) == want
        if not ok and newest not in done:
            done.add(newest)
            r.violate('Dependencies.DependencyTree.newest_dependency:newest=%s' % newest, REL, fn.lineno,
                      'with the %s newer than everything else%s newest_dependency(source) yields %r instead of %r: the rebuild decision does not see that file, an edit to it does not '
                      'regenerate the module' % ({'SRC': 'source itself', 'IMM': 'directly cimported .pxd', 'INC': 'included file', 'TRANS': 'transitively cimported .pxd'}[newest],
                                                 ' (cimport cycle back to the source)' if cyclic else '', got, want))
    pc = ast.parse("class DependencyTree:\n    def __init__(self, context, quiet=False):\n        self.context = context\n"
                   "    def immediate_dependencies(self, f):\n        d = {f}\n        d.update(self.cimported_files(f))\n        d.update(self.included_files(f))\n        return d\n"
                   "    def newest_dependency(self, f):\n        return max([(self.timestamp(x), x) for x in self.immediate_dependencies(f)])\n")
    rows2 = newest_outcomes(ctx, pc)
    r.positive_control(any(n == 'TRANS' and tuple(g) != w for n, c, g, w in rows2) and all(tuple(g) == w for n, c, g, w in rows2 if n != 'TRANS'), 'maximum over the immediate dependencies only')
    return r
