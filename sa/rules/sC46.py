"""C46-PIPE: order of the text passes in the regex dependency scanner (Dependencies.parse_dependencies).

The scanner sees the file through a pipeline  read -> strip_string_literals -> normalisations -> regexes.  Two order
constraints are necessary for "the dependency set equals the set of files the compiler reads":

 PRE   strip_string_literals must receive the text exactly as it was read.  The stripper decides where string literals
       and comments begin and end the way the compiler's lexer does: by quotes, '#', backslashes and NEWLINES of the raw
       text.  Any rewrite applied before it (joining backslash-continued lines, replacing tabs, ...) moves those
       boundaries or changes literal contents: a comment ending in a backslash swallows the following `cimport` line, an
       include file name containing the replaced character is recorded under a different name.
 JOIN  the text the dependency regex is applied to must have backslash-newline continuations neutralised (the
       line-anchored patterns only allow blanks between the tokens of a statement) - by PRE, after the stripping.
       Decided by applying the constant replace steps of the lineage, and then the extracted pattern (stdlib re, run by
       the checker on constants), to continuation spellings of the four statement kinds.

The pipeline is recovered as a value lineage (path-sensitive def-use over the function): each text value carries the
tuple of passes applied since the file was read.  No repository code is executed.
"""
import ast, re

from ..core import Rule, AnalysisError, node_src
from ..engine import tables, pyflow
from .pC46 import REL, _tree, _regex_def, _call_name

STRIPPER = 'strip_string_literals'
TEXT_METHODS = {'replace', 'expandtabs', 'translate', 'strip', 'lstrip', 'rstrip', 'lower', 'upper', 'casefold', 'swapcase', 'title', 'capitalize',
                'format', 'join', 'removeprefix', 'removesuffix', 'zfill', 'center', 'ljust', 'rjust', 'encode', 'decode', 'splitlines', 'split'}
REGEX_APPLY = ('finditer', 'search', 'match', 'findall', 'fullmatch')
# continuation spellings: (statement kind, text after stripping, substrings the match must cover)
CONT_PROBES = [
    ('cimport-list', 'cimport aa, \\\n    bb\n', ('aa', 'bb')),
    ('from-cimport', 'from pkg \\\n    cimport mod\n', ('pkg',)),
    ('include', 'include \\\n    "__Pyx_L1_"\n', ('__Pyx_L1_',)),
    ('cdef-extern', 'cdef extern \\\n    from "__Pyx_L1_":\n', ('__Pyx_L1_',)),
]


def _const(e):
    v = tables.literal(e) if isinstance(e, (ast.Constant, ast.JoinedStr, ast.BinOp)) else None
    return v if isinstance(v, str) else None


def lineages(fn, regex_names):
    """-> (pre, uses): pre = [(call node, steps of the stripper's argument | None)], uses = [(call node, regex name, steps | None)]
    steps: tuple of ('read',) | ('strip',) | ('replace', a, b) | ('sub', pattern, repl) | ('method', name) | ('slice',) | ('concat',)"""
    pre, uses = [], []

    def lin(e, s):
        if isinstance(e, ast.Name):
            for f in s:
                if isinstance(f, tuple) and f[0] == 'H' and f[1] == e.id:
                    return f[2]
            return None
        if isinstance(e, ast.Call) and isinstance(e.func, ast.Attribute):
            base = lin(e.func.value, s)
            if base is None:
                if e.func.attr == 'read' and not e.args:
                    return (('read',),)
                if e.func.attr == 'sub' and len(e.args) >= 3:          # re.sub(pattern, repl, text)
                    b = lin(e.args[2], s)
                    if b is not None:
                        return b + (('sub', _const(e.args[0]), _const(e.args[1])),)
                return None
            if e.func.attr == 'replace' and len(e.args) >= 2:
                return base + (('replace', _const(e.args[0]), _const(e.args[1])),)
            return base + (('method', e.func.attr),)
        if isinstance(e, ast.Call) and isinstance(e.func, ast.Name) and e.func.id in ('str', 'StringIO') and len(e.args) == 1:
            return lin(e.args[0], s)
        if isinstance(e, ast.Subscript):
            b = lin(e.value, s)
            return None if b is None else b + (('slice',),)
        if isinstance(e, ast.BinOp) and isinstance(e.op, ast.Add):
            a, b = lin(e.left, s), lin(e.right, s)
            if a is None and b is None:
                return None
            return (a or b) + (('concat',),)
        if isinstance(e, ast.IfExp):
            a, b = lin(e.body, s), lin(e.orelse, s)
            return a if a == b else (a or b or ()) + (('either',),) if (a or b) else None
        return None

    def tr(n, state):
        s = set(state)
        for c in pyflow.calls_in(n):
            if _call_name(c) == STRIPPER and c.args:
                pre.append((c, lin(c.args[0], s)))
            if isinstance(c.func, ast.Attribute) and c.func.attr in REGEX_APPLY and isinstance(c.func.value, ast.Name) and c.func.value.id in regex_names and c.args:
                uses.append((c, c.func.value.id, lin(c.args[0], s)))
        if isinstance(n, ast.Assign):
            vals = {}
            for t in n.targets:
                if isinstance(t, ast.Name):
                    vals[t.id] = lin(n.value, s)
                elif isinstance(t, (ast.Tuple, ast.List)):
                    strip = isinstance(n.value, ast.Call) and _call_name(n.value) == STRIPPER and n.value.args
                    for i, e in enumerate(t.elts):
                        if isinstance(e, ast.Name):
                            b = lin(n.value.args[0], s) if strip and i == 0 else None
                            vals[e.id] = None if b is None else b + (('strip',),)
            for name, v in vals.items():
                s = {f for f in s if not (isinstance(f, tuple) and f[0] == 'H' and f[1] == name)}
                if v is not None:
                    s.add(('H', name, v))
        elif isinstance(n, ast.AugAssign) and isinstance(n.target, ast.Name):
            b = lin(n.target, s)
            if b is not None:
                s = {f for f in s if not (isinstance(f, tuple) and f[0] == 'H' and f[1] == n.target.id)}
                s.add(('H', n.target.id, b + (('concat',),)))
        return frozenset(s)
    pyflow.Flow(tr, correlate=False).run(fn)
    return pre, uses


_NAMES = {'\\': 'backslash', '\n': 'newline', '\r': 'cr', '\t': 'tab', ' ': 'space', '"': 'dquote', "'": 'quote', '#': 'hash'}


def _charnames(text):
    return '+'.join(_NAMES.get(ch, ch if ch.isalnum() else 'u%04x' % ord(ch)) for ch in text[:6]) or 'empty'


def _describe(step):
    if step[0] in ('replace', 'sub'):
        return '%s(%r, %r)' % (step[0], step[1], step[2])
    return step[1] + '()' if step[0] == 'method' else step[0]


def check_pre(fn, regex_names):
    """-> (n stripper calls, problems[(key, line, msg)], uses)"""
    pre, uses = lineages(fn, regex_names)
    if not pre:
        raise AnalysisError('%s: no call of %s found' % (fn.name, STRIPPER))
    problems, seen = [], set()
    for call, steps in pre:
        if steps is None or steps[0] != ('read',):
            raise AnalysisError('%s: the argument of %s (%s) cannot be traced back to the text read from the source file' % (fn.name, STRIPPER, node_src(call.args[0])))
        for st in steps[1:]:
            kind = st[0] if st[0] != 'method' else st[1]
            key = 'pre-strip:%s' % kind
            if st[0] == 'replace' and st[1] is not None:
                key += ':' + _charnames(st[1])
            if key in seen:
                continue
            seen.add(key)
            if st[0] in ('replace', 'sub'):
                touches = [w for w, ch in (('line ends', '\n'), ('line ends', '\r'), ('backslashes', '\\'), ('quotes', '"'), ('quotes', "'"), ('comment starts', '#'))
                           if any(isinstance(x, str) and ch in x for x in st[1:]) or st[1] is None]
                effect = ('it rewrites %s, which delimit comments and string literals: e.g. a comment line ending in a backslash is joined with the next line and a real '
                          'cimport/include statement on that line disappears into the comment label' % ' and '.join(sorted(set(touches)))) if touches else \
                    'it changes the contents of string literals, so an include / extern file name containing the replaced text is recorded under a name that does not exist'
            elif st[0] == 'method' and st[1] not in TEXT_METHODS:
                problems.append((key + ':unmodelled', call.lineno, None))
                continue
            else:
                effect = 'the stripper no longer sees the text the compiler reads'
            problems.append((key, call.lineno,
                             '%s is applied to the source text BEFORE %s: %s; the dependency (and with it the rebuild after an edit of that file) is lost. '
                             'Text normalisations belong after the stripping' % (_describe(st), STRIPPER, effect)))
    return len(pre), problems, uses


def apply_post(steps, text):
    """apply the constant replace steps of a lineage to a probe text (read / strip are the identity on a probe that holds no
    literals or comments); None if some other pass is involved"""
    if ('strip',) not in steps:
        return None
    for st in steps:
        if st in (('read',), ('strip',)):
            continue
        if st[0] == 'replace' and isinstance(st[1], str) and isinstance(st[2], str):
            text = text.replace(st[1], st[2])
        else:
            return None
    return text


def check_post(uses, regex_name, pat, flags):
    """-> (results[(kind, ok|None)], lineno)"""
    try:
        rx = re.compile(pat, flags)
    except re.error as e:
        raise AnalysisError('%s does not compile: %s' % (regex_name, e))
    mine = [(c, steps) for c, name, steps in uses if name == regex_name]
    if not mine:
        raise AnalysisError('parse_dependencies: %s is not applied' % regex_name)
    out = []
    for c, steps in mine:
        for kind, probe, needles in CONT_PROBES:
            one_line = probe.replace('\\\n', ' ')
            ref = [m.group(0) for m in rx.finditer(one_line)]
            if not ref or not all(any(n in g for g in ref) for n in needles):
                raise AnalysisError('%s does not match the single-line spelling %r' % (regex_name, one_line))
            t = apply_post(steps or (), probe)
            if t is None:
                out.append((kind, None, c.lineno))
                continue
            got = [m.group(0) for m in rx.finditer(t)]
            out.append((kind, all(any(n in g for g in got) for n in needles), c.lineno))
    return out


def rule_pipe(ctx):
    r = Rule('C46-PIPE', 'parse_dependencies: strip_string_literals receives the text exactly as read (no rewrite before the stripping), and backslash-newline continuations '
             'are neutralised between the stripping and the dependency regex', floor=4)
    tree = _tree(ctx)
    fn = tables.find_function(tree, 'parse_dependencies')
    pat, flags = _regex_def(tree, 'dependency_regex')
    names = {'dependency_regex', 'dependency_after_from_regex'}
    n, problems, uses = check_pre(fn, names)
    for i in range(n):
        r.inst('parse_dependencies:stripper-input#%d' % i, sample='argument of %s call %d is the unmodified file text' % (STRIPPER, i))
    for key, line, msg in problems:
        if msg is None:
            r.info('parse_dependencies: %s before %s is not modelled' % (key, STRIPPER))
        else:
            r.violate('Dependencies.parse_dependencies:' + key, REL, line, msg)
    for kind, ok, line in check_post(uses, 'dependency_regex', pat, flags):
        r.inst('parse_dependencies:continuation:' + kind, sample='%s statement with a backslash continuation is %s' % (kind, {True: 'found', False: 'MISSED', None: 'not modelled'}[ok]),
               nontrivial=ok is not None)
        if ok is None:
            r.info('parse_dependencies: a pass between %s and dependency_regex is not a constant str.replace; continuation probe %s skipped' % (STRIPPER, kind))
        elif not ok:
            r.violate('Dependencies.parse_dependencies:continuation:' + kind, REL, line,
                      'a %s statement whose tokens are separated by a backslash-newline continuation is not found by dependency_regex on the text it is applied to '
                      '(no pass around %s joins continued lines and the line-anchored pattern only allows blanks between tokens): the compiler reads the statement, '
                      'the scanner misses the dependency and the module is not rebuilt when that file changes' % (kind, STRIPPER))
    pc = ast.parse("def parse_dependencies(f):\n    with open(f) as fh:\n        source = fh.read()\n    source = source.replace('\\\\\\n', ' ').replace('\\t', ' ')\n"
                   "    source, literals = strip_string_literals(source)\n    for m in dependency_regex.finditer(source):\n        pass\n").body[0]
    _, p2, u2 = check_pre(pc, names)
    post2 = check_post(u2, 'dependency_regex', pat, flags)
    r.positive_control({k for k, _, _ in p2} == {'pre-strip:replace:backslash+newline', 'pre-strip:replace:tab'} and all(ok for _, ok, _ in post2) and
                       not any(ok for _, ok, _ in check_post([(c, n, tuple(x for x in st if x[0] != 'replace')) for c, n, st in u2], 'dependency_regex', pat, flags)),
                       'joins before the stripping; no join at all: %s' % sorted(k for k, _, _ in p2))
    return r
