"""dD12 - the snapshot contract of the two-phase (parallel) assignment (C20).

C20-SNAPSHOT   `a, b = b, a` and `a, b = c, d = b, a` are split into constituent assignments (a = b ; b = a  /  a = c = b ; b = d = a) that one *executor*
               node runs in two phases: first every constituent evaluates its right-hand side (`generate_rhs_evaluation_code`), then every constituent
               stores (`generate_assignment_code`).  Python reads all right-hand sides before the first store, so after phase one the right-hand side of
               every constituent must be a value that a store of phase two cannot change: a temporary, or a literal.  A plain name is "simple" - its
               evaluation code is empty and its C result is the variable itself - so it would be read in phase two, after the stores.  The executor
               therefore hands a flag to the analysis method of its constituents (`stat.analyse_types(env, use_temp=1)`), and every class that can be
               a constituent has to honour it.

               Found structurally (nothing is named in the rule but the three protocol methods):
                 executor      a class with a code-generation method that requests `generate_rhs_evaluation_code` from the elements of a `self.<list>`
                 constituent   a class that defines `generate_rhs_evaluation_code`; its value attributes are the `self.<R>` whose evaluation code that
                               method requests
                 flag          the keyword the executor passes to the elements' analysis method
               Decided:
                 (E) every request the executor makes to analyse an element of the list passes the flag as a true constant, and there is one;
                 (P) for every constituent class, on every path of the analysis method (MRO-resolved, own helper methods inlined, locals followed,
                     boolean locals evaluated, all tests on the flag and on flags of the right-hand side value kept as path facts and enumerated
                     completely) that is entered with the flag set and returns the node itself, the value left in `self.<R>` is the result of
                     `coerce_to_temp` (possibly inside a transparent wrapper), or the path has established `is_literal` for the value it was made from.
               A path that returns another node (the unrolled C array / ctuple assignment) hands the obligation to that node and is not judged here.
               Deviation: CascadedAssignmentNode.analyse_types tested `not rhs.is_name` before `use_temp`: a, b = c, d = b, a gave (2, 2, 2, 2).
"""
import ast

from ..core import Rule, AnalysisError

RHS_PHASE = 'generate_rhs_evaluation_code'
EVAL = 'generate_evaluation_code'
ANALYSERS = ('analyse_types', 'analyse_expressions')
SNAPSHOT = 'coerce_to_temp'                  # ExprNode.coerce_to_temp: the result lives in a temporary owned by the node
KEEPS = ('coerce_to_simple',)                # returns the node itself when it is simple already (a temporary, a literal), never un-temps
# node classes whose own evaluation adds nothing to their argument's: the wrapped value is as stable as the argument
TRANSPARENT = {'ProxyNode': 'delegates evaluation and result to .arg', 'CloneNode': 'borrows the result of .arg, evaluates nothing'}
MAX_STATES = 4000
MAX_DEPTH = 4


class _Opaque:
    def __repr__(self):
        return '?'


OPAQUE = _Opaque()
SELF = ('self',)


class Val:
    """abstract tree node that is (a candidate for) the right-hand side value.  state: 'snap' | 'raw' | 'unknown'"""
    __slots__ = ('ident', 'state', 'lit', 'how')

    def __init__(self, ident, state, lit, how):
        self.ident, self.state, self.lit, self.how = ident, state, lit, how      # lit: ident of the value whose is_literal flag vouches for this one

    def key(self):
        return (self.ident, self.state, self.lit)

    def __repr__(self):
        return '<%s %s>' % (self.state, self.how)


class Flag:
    """a boolean attribute read off a Val / the flag parameter: truth is a path fact"""
    __slots__ = ('atom', 'text')

    def __init__(self, atom, text):
        self.atom, self.text = atom, text


class St:
    __slots__ = ('env', 'attrs', 'facts', 'shown')

    def __init__(self, env=None, attrs=None, facts=None, shown=None):
        self.env, self.attrs, self.facts, self.shown = env or {}, attrs or {}, facts or {}, shown or {}

    def copy(self):
        return St(dict(self.env), dict(self.attrs), dict(self.facts), dict(self.shown))

    def key(self):
        def k(v):
            if isinstance(v, Val):
                return ('V',) + v.key()
            if isinstance(v, Flag):
                return ('F', v.atom)
            if v is OPAQUE:
                return ('?',)
            return ('C', repr(v))
        return (tuple(sorted((n, k(v)) for n, v in self.env.items())), tuple(sorted((n, k(v)) for n, v in self.attrs.items())),
                tuple(sorted(self.facts.items())))


def _dedupe(pairs):
    seen, out = set(), []
    for st, v in pairs:
        kk = (st.key(), St(env={'v': v}).key()[0])
        if kk not in seen:
            seen.add(kk)
            out.append((st, v))
    if len(out) > MAX_STATES:
        raise AnalysisError('C20-SNAPSHOT: more than %d abstract states' % MAX_STATES)
    return out


def _dedupe_states(states):
    return [st for st, _ in _dedupe([(s, None) for s in states])]


class Out:
    def __init__(self):
        self.normal, self.returns, self.breaks, self.continues = [], [], [], []


class Walker:
    """path enumeration of one analysis method over the typestate of the values that reach self.<R>"""

    def __init__(self, resolve, tracked_attrs, what):
        self.resolve = resolve                   # (kind, name) -> (owner label, FunctionDef) | None ; kind: 'self' | 'super'
        self.tracked = set(tracked_attrs)
        self.what = what

    # ------------------------------------------------------------------------------------------------------------ values
    def new(self, node, state, lit, how, parent=None):
        return Val((getattr(node, 'lineno', 0), getattr(node, 'col_offset', 0), how.split('(')[0], parent), state, lit, how)

    def truth(self, st, v):
        """-> [(state, bool)]"""
        if isinstance(v, Flag):
            if v.atom in st.facts:
                return [(st, st.facts[v.atom])]
            res = []
            for b in (True, False):
                s2 = st.copy()
                s2.facts[v.atom] = b
                s2.shown[v.atom] = v.text
                res.append((s2, b))
            return res
        if v is OPAQUE or isinstance(v, Val) or v is SELF:
            return [(st, True), (st.copy(), False)] if v is not SELF else [(st, True)]
        return [(st, bool(v))]

    def attr_chain(self, e):
        parts = []
        while isinstance(e, ast.Attribute):
            parts.append(e.attr)
            e = e.value
        return e, '.'.join(reversed(parts))

    def ev(self, e, st, depth):
        """-> [(state, value)]"""
        if isinstance(e, ast.Constant):
            return [(st, e.value)]
        if isinstance(e, ast.Name):
            return [(st, st.env.get(e.id, OPAQUE))]
        if isinstance(e, ast.Attribute):
            base, chain = self.attr_chain(e)
            if isinstance(base, ast.Name):
                bv = st.env.get(base.id, OPAQUE)
                if bv is SELF:
                    first = chain.split('.')[0]
                    if first in self.tracked:
                        v = st.attrs.get(first)
                        if v is None:
                            v = Val(('entry', first), 'raw', ('entry', first), 'self.%s' % first)
                            st.attrs[first] = v
                        rest = chain.split('.', 1)[1] if '.' in chain else ''
                        if not rest:
                            return [(st, v)]
                        if isinstance(v, Val):
                            return [(st, Flag((v.ident, rest), 'self.%s.%s' % (first, rest)))]
                    return [(st, OPAQUE)]
                if isinstance(bv, Val):
                    return [(st, Flag((bv.ident, chain), '%s.%s' % (base.id, chain)))]
            return [(st, OPAQUE)]
        if isinstance(e, ast.UnaryOp) and isinstance(e.op, ast.Not):
            res = []
            for s1, v in self.ev(e.operand, st, depth):
                for s2, b in self.truth(s1, v):
                    res.append((s2, not b))
            return res
        if isinstance(e, ast.BoolOp):
            stop_on = isinstance(e.op, ast.Or)
            cur, res = [st], []
            for i, operand in enumerate(e.values):
                nxt = []
                for s0 in cur:
                    for s1, v in self.ev(operand, s0, depth):
                        if i == len(e.values) - 1:
                            res.append((s1, v))
                            continue
                        for s2, b in self.truth(s1, v):
                            if b == stop_on:
                                res.append((s2, v if not isinstance(v, Flag) else b))
                            else:
                                nxt.append(s2)
                cur = _dedupe_states(nxt)
            return _dedupe(res)
        if isinstance(e, ast.IfExp):
            res = []
            for s1, t in self.ev(e.test, st, depth):
                for s2, b in self.truth(s1, t):
                    res.extend(self.ev(e.body if b else e.orelse, s2, depth))
            return _dedupe(res)
        if isinstance(e, ast.Call):
            return self.ev_call(e, st, depth)
        if isinstance(e, ast.NamedExpr):
            raise AnalysisError('C20-SNAPSHOT: assignment expression in %s (line %d) is not modelled' % (self.what, e.lineno))
        if isinstance(e, ast.Compare) and len(e.ops) == 1 and isinstance(e.ops[0], (ast.Is, ast.IsNot)):
            res = []
            for s1, a in self.ev(e.left, st, depth):
                for s2, b in self.ev(e.comparators[0], s1, depth):
                    if (a is None or b is None) and (isinstance(a, Val) or isinstance(b, Val) or (a is None and b is None) or a is SELF or b is SELF):
                        same = a is None and b is None
                        res.append((s2, same if isinstance(e.ops[0], ast.Is) else not same))
                    else:
                        res.append((s2, OPAQUE))
            return res
        return [(st, OPAQUE)]

    def ev_args(self, call, st, depth):
        """-> [(state, [positional values], {keyword: value})] ; *args / **kw -> opaque"""
        cur = [(st, [], {})]
        for a in call.args:
            nxt = []
            for s0, pos, kw in cur:
                if isinstance(a, ast.Starred):
                    nxt.append((s0, pos + [OPAQUE], kw))
                    continue
                for s1, v in self.ev(a, s0, depth):
                    nxt.append((s1, pos + [v], kw))
            cur = nxt
        for k in call.keywords:
            nxt = []
            for s0, pos, kw in cur:
                for s1, v in self.ev(k.value, s0, depth):
                    kw2 = dict(kw)
                    if k.arg is not None:
                        kw2[k.arg] = v
                    nxt.append((s1, pos, kw2))
            cur = nxt
        return cur

    def ev_call(self, e, st, depth):
        f = e.func
        # ---- calls of own methods: self.m(..) / super().m(..) / Base.m(self, ..)
        target = None
        if isinstance(f, ast.Attribute):
            if isinstance(f.value, ast.Name) and st.env.get(f.value.id) is SELF:
                target = self.resolve('self', f.attr)
            elif isinstance(f.value, ast.Call) and isinstance(f.value.func, ast.Name) and f.value.func.id == 'super':
                target = self.resolve('super', f.attr)
            elif isinstance(f.value, ast.Name) and e.args and isinstance(e.args[0], ast.Name) and st.env.get(e.args[0].id) is SELF:
                target = self.resolve(('class', f.value.id), f.attr)
        if target is not None:
            return self.inline(e, target, st, depth)
        res = []
        for s1, pos, kw in self.ev_args(e, st, depth):
            allv = pos + list(kw.values())
            if isinstance(f, ast.Attribute):
                for s2, recv in self.ev(f.value, s1, depth):
                    if f.attr == SNAPSHOT:
                        parent = recv.ident if isinstance(recv, Val) else None
                        res.append((s2, self.new(e, 'snap', None, '%s(..)' % SNAPSHOT, parent)))
                    elif isinstance(recv, Val):
                        if f.attr in KEEPS:
                            res.append((s2, self.new(e, recv.state, recv.lit, '%s.%s(..)' % (recv.how, f.attr), recv.ident)))
                        elif recv.state == 'raw':
                            # coerce_to / analyse_types / ... of an unsnapshotted value: a new node, still not a snapshot; literal-ness is asked again by the code
                            v = self.new(e, 'raw', None, '%s.%s(..)' % (recv.how, f.attr), recv.ident)
                            v.lit = v.ident
                            res.append((s2, v))
                        else:
                            res.append((s2, self.new(e, 'unknown', None, '%s.%s(..)' % (recv.how, f.attr), recv.ident)))
                    else:
                        cname = f.attr
                        res.extend(self.ctor(e, cname, allv, s2))
                continue
            if isinstance(f, ast.Name):
                res.extend(self.ctor(e, f.id, allv, s1))
                continue
            res.append((s1, OPAQUE))
        return _dedupe(res)

    def ctor(self, e, cname, allv, st):
        vals = [v for v in allv if isinstance(v, Val)]
        if cname in TRANSPARENT and len(vals) == 1:
            v = vals[0]
            return [(st, self.new(e, v.state, v.lit, '%s(%s)' % (cname, v.how), v.ident))]
        if vals and cname[:1].isupper():
            # a node built around the value: whether it still is a snapshot is not known to this model
            return [(st, self.new(e, 'unknown', None, '%s(..)' % cname, vals[0].ident))]
        return [(st, OPAQUE)]

    def needs_inline(self, fn, argvals):
        if any(isinstance(v, (Val, Flag)) or v is True or v is False for v in argvals):
            return True
        for n in ast.walk(fn):
            if isinstance(n, ast.Attribute) and isinstance(n.ctx, ast.Store) and n.attr in self.tracked:
                return True
            if isinstance(n, ast.Call) and isinstance(n.func, ast.Attribute) and isinstance(n.func.value, ast.Name) and n.func.value.id == 'self':
                t = self.resolve('self', n.func.attr)
                if t is not None and t[1] is not fn:
                    for m in ast.walk(t[1]):
                        if isinstance(m, ast.Attribute) and isinstance(m.ctx, ast.Store) and m.attr in self.tracked:
                            return True
        return False

    def inline(self, e, target, st, depth):
        owner, fn = target
        res = []
        for s1, pos, kw in self.ev_args(e, st, depth):
            f = e.func
            if not (isinstance(f.value, ast.Name) and s1.env.get(f.value.id) is SELF) and not isinstance(f.value, ast.Call):
                pos = pos[1:]                      # Base.m(self, ..)
            if not self.needs_inline(fn, pos + list(kw.values())):
                res.append((s1, OPAQUE))
                continue
            if depth >= MAX_DEPTH:
                raise AnalysisError('C20-SNAPSHOT: helper nesting deeper than %d at %s (line %d)' % (MAX_DEPTH, self.what, e.lineno))
            params = [a.arg for a in fn.args.args]
            defaults = dict(zip(params[len(params) - len(fn.args.defaults):], fn.args.defaults))
            env = {params[0]: SELF}
            for p, v in zip(params[1:], pos):
                env[p] = v
            for p in params[1 + len(pos):]:
                if p in kw:
                    env[p] = kw[p]
                elif p in defaults and isinstance(defaults[p], ast.Constant):
                    env[p] = defaults[p].value
                else:
                    env[p] = OPAQUE
            inner = St(env, s1.attrs, s1.facts, s1.shown)
            o = self.block(fn.body, [inner], depth + 1)
            for s2, v in o.returns + [(s, None) for s in o.normal]:
                res.append((St(dict(s1.env), s2.attrs, s2.facts, s2.shown), v))
        return _dedupe(res)

    # ------------------------------------------------------------------------------------------------------------ statements
    def block(self, stmts, states, depth):
        o = Out()
        cur = states
        for s in stmts:
            nxt = []
            for st in cur:
                so = self.stmt(s, st, depth)
                nxt.extend(so.normal)
                o.returns.extend(so.returns)
                o.breaks.extend(so.breaks)
                o.continues.extend(so.continues)
            cur = _dedupe_states(nxt)
            if not cur:
                break
        o.normal = cur
        o.returns = _dedupe(o.returns)
        return o

    def bind(self, t, v, st):
        if isinstance(t, ast.Name):
            st.env[t.id] = v
        elif isinstance(t, ast.Attribute):
            if isinstance(t.value, ast.Name) and st.env.get(t.value.id) is SELF:
                if t.attr in self.tracked:
                    st.attrs[t.attr] = v
            # stores into other objects do not concern the tracked attributes of self
        elif isinstance(t, (ast.Tuple, ast.List)):
            for x in t.elts:
                self.bind(x.value if isinstance(x, ast.Starred) else x, OPAQUE, st)
        elif isinstance(t, ast.Subscript):
            pass
        else:
            raise AnalysisError('C20-SNAPSHOT: assignment target %s in %s' % (type(t).__name__, self.what))

    def stmt(self, s, st, depth):
        o = Out()
        if isinstance(s, ast.Assign):
            for s1, v in self.ev(s.value, st, depth):
                for t in s.targets:
                    self.bind(t, v, s1)
                o.normal.append(s1)
        elif isinstance(s, ast.AnnAssign):
            if s.value is None:
                o.normal.append(st)
            else:
                for s1, v in self.ev(s.value, st, depth):
                    self.bind(s.target, v, s1)
                    o.normal.append(s1)
        elif isinstance(s, ast.AugAssign):
            for s1, v in self.ev(s.value, st, depth):
                self.bind(s.target, OPAQUE, s1)
                o.normal.append(s1)
        elif isinstance(s, ast.Expr):
            o.normal.extend(s1 for s1, v in self.ev(s.value, st, depth))
        elif isinstance(s, ast.Return):
            if s.value is None:
                o.returns.append((st, None))
            else:
                o.returns.extend(self.ev(s.value, st, depth))
        elif isinstance(s, ast.If):
            for s1, t in self.ev(s.test, st, depth):
                for s2, b in self.truth(s1, t):
                    bo = self.block(s.body if b else s.orelse, [s2], depth)
                    o.normal.extend(bo.normal); o.returns.extend(bo.returns); o.breaks.extend(bo.breaks); o.continues.extend(bo.continues)
        elif isinstance(s, (ast.For, ast.While)):
            entry = [st]
            if isinstance(s, ast.For):
                entry = []
                for s1, v in self.ev(s.iter, st, depth):
                    entry.append(s1)
            exits, seen, cur = list(entry), set(), entry
            for rnd in range(6):
                heads = []
                for s0 in cur:
                    if s0.key() in seen:
                        continue
                    seen.add(s0.key())
                    s1 = s0.copy()
                    if isinstance(s, ast.For):
                        self.bind(s.target, OPAQUE, s1)
                        heads.append(s1)
                    else:
                        for s2, t in self.ev(s.test, s1, depth):
                            for s3, b in self.truth(s2, t):
                                (heads if b else exits).append(s3)
                if not heads:
                    break
                bo = self.block(s.body, heads, depth)
                o.returns.extend(bo.returns)
                exits.extend(bo.breaks)
                cur = _dedupe_states(bo.normal + bo.continues)
                exits.extend(s0.copy() for s0 in cur)
            else:
                raise AnalysisError('C20-SNAPSHOT: loop in %s (line %d) does not stabilise' % (self.what, s.lineno))
            exits = _dedupe_states(exits)
            if s.orelse:
                bo = self.block(s.orelse, exits, depth)
                o.normal.extend(bo.normal); o.returns.extend(bo.returns)
            else:
                o.normal.extend(exits)
        elif isinstance(s, ast.Break):
            o.breaks.append(st)
        elif isinstance(s, ast.Continue):
            o.continues.append(st)
        elif isinstance(s, (ast.Pass, ast.Import, ast.ImportFrom, ast.FunctionDef, ast.ClassDef, ast.Global, ast.Nonlocal, ast.Assert, ast.Delete)):
            o.normal.append(st)
        elif isinstance(s, ast.Raise):
            pass
        elif isinstance(s, ast.With):
            cur = [st]
            for item in s.items:
                nxt = []
                for s0 in cur:
                    for s1, v in self.ev(item.context_expr, s0, depth):
                        if item.optional_vars is not None:
                            self.bind(item.optional_vars, OPAQUE, s1)
                        nxt.append(s1)
                cur = nxt
            bo = self.block(s.body, cur, depth)
            o.normal.extend(bo.normal); o.returns.extend(bo.returns); o.breaks.extend(bo.breaks); o.continues.extend(bo.continues)
        elif isinstance(s, ast.Try):
            # the body may stop after any statement: every prefix state can enter a handler
            prefixes, cur = [st.copy()], [st]
            for b in s.body:
                bo = self.block([b], cur, depth)
                o.returns.extend(bo.returns); o.breaks.extend(bo.breaks); o.continues.extend(bo.continues)
                cur = bo.normal
                prefixes.extend(x.copy() for x in cur)
            after = list(cur)
            if s.orelse:
                bo = self.block(s.orelse, after, depth)
                o.returns.extend(bo.returns); o.breaks.extend(bo.breaks); o.continues.extend(bo.continues)
                after = bo.normal
            for h in s.handlers:
                hs = [x.copy() for x in _dedupe_states(prefixes)]
                for x in hs:
                    if h.name:
                        x.env[h.name] = OPAQUE
                bo = self.block(h.body, hs, depth)
                o.returns.extend(bo.returns); o.breaks.extend(bo.breaks); o.continues.extend(bo.continues)
                after.extend(bo.normal)
            if s.finalbody:
                bo = self.block(s.finalbody, _dedupe_states(after), depth)
                o.returns.extend(bo.returns)
                after = bo.normal
                if o.returns:
                    ro = []
                    for rs, rv in o.returns:
                        fo = self.block(s.finalbody, [rs], depth)
                        ro.extend((x, rv) for x in fo.normal)
                        ro.extend(fo.returns)
                    o.returns = ro
            o.normal.extend(after)
        else:
            raise AnalysisError('C20-SNAPSHOT: statement %s in %s (line %d) is not modelled' % (type(s).__name__, self.what, s.lineno))
        return o


# ---------------------------------------------------------------------------------------------------------------- the decision for one constituent
def judge(fn, resolve, tracked, flag, what):
    """-> (number of judged paths, delegated paths, [(attr, Val or None, witness text)] failing, [(attr, text)] undecided)"""
    params = [a.arg for a in fn.args.args]
    if flag not in params:
        return None
    w = Walker(resolve, tracked, what)
    env = {params[0]: SELF}
    for p in params[1:]:
        env[p] = True if p == flag else OPAQUE
    o = w.block(fn.body, [St(env)], 0)
    judged = delegated = 0
    bad, undecided = {}, {}
    for st, rv in o.returns + [(s, None) for s in o.normal]:
        if rv is not SELF:
            delegated += 1
            continue
        judged += 1
        for a in sorted(tracked):
            v = st.attrs.get(a)
            if v is None:
                v = Val(('entry', a), 'raw', ('entry', a), 'self.%s as it was on entry (never replaced)' % a)
            if not isinstance(v, Val):
                undecided.setdefault((a, 'a value this model does not follow'), None)
                continue
            if v.state == 'snap':
                continue
            if v.state == 'unknown':
                undecided.setdefault((a, v.how), None)
                continue
            lit_true = [atom for atom, b in st.facts.items() if b and atom[1] == 'is_literal' and atom[0] == v.lit]
            if lit_true:
                continue
            facts = ', '.join('%s=%s' % (st.shown.get(atom, '.'.join(map(str, atom[1:]))), b) for atom, b in sorted(st.facts.items(), key=lambda kv: str(kv[0])))
            bad.setdefault(a, (v.how, facts))
    return judged, delegated, [(a, how, facts) for a, (how, facts) in sorted(bad.items())], sorted(undecided)


def _own_value_attrs(fn):
    """self.<R> whose evaluation code the rhs phase requests"""
    out = []
    for n in ast.walk(fn):
        if isinstance(n, ast.Call) and isinstance(n.func, ast.Attribute) and n.func.attr == EVAL:
            b = n.func.value
            if isinstance(b, ast.Attribute) and isinstance(b.value, ast.Name) and b.value.id == 'self' and b.attr not in out:
                out.append(b.attr)
    return out


def _element_requests(cls_methods, wanted):
    """calls `<x>.<wanted>(..)` where x iterates a self.<list> (for loop or comprehension) -> [(method name, list attr, call)]"""
    res = []
    for mname, fn in cls_methods.items():
        loops = []
        for n in ast.walk(fn):
            if isinstance(n, ast.For):
                loops.append((n.target, n.iter, n.body))
            elif isinstance(n, (ast.ListComp, ast.GeneratorExp, ast.SetComp)):
                for g in n.generators:
                    loops.append((g.target, g.iter, [n.elt]))
        for target, it, body in loops:
            if not isinstance(target, ast.Name):
                continue
            src = it
            while isinstance(src, ast.Call) and src.args and isinstance(src.func, ast.Name) and src.func.id in ('list', 'tuple', 'iter', 'reversed', 'enumerate'):
                src = src.args[0]
            while isinstance(src, ast.Subscript):
                src = src.value
            if not (isinstance(src, ast.Attribute) and isinstance(src.value, ast.Name) and src.value.id == 'self'):
                continue
            for b in body:
                for c in ast.walk(b):
                    if (isinstance(c, ast.Call) and isinstance(c.func, ast.Attribute) and c.func.attr in wanted
                            and isinstance(c.func.value, ast.Name) and c.func.value.id == target.id):
                        res.append((mname, src.attr, c))
    return res


def _resolver(ix, c):
    mro = ix.mro(c)

    def resolve(kind, name):
        if kind == 'self':
            hit = ix.find_method(c, name)
        elif kind == 'super':
            hit = ix.find_method(c, name, skip_self=True)
        else:
            hit = None
            for k in mro:
                if k.name == kind[1]:
                    hit = ix.find_method(k, name)
                    break
        if not hit:
            return None
        owner, fn = hit
        if owner.module is not c.module and owner.name in ('Node', 'object'):
            return None
        return owner.qual, fn
    return resolve


_CONTROL = '''
class Elem:
    def analyse_types(self, env, use_temp=0):
        value = self.rhs.analyse_types(env)
        if not value.is_name and (use_temp or value.type.is_pyobject):
            value = value.coerce_to_temp(env)
        else:
            value = value.coerce_to_simple(env)
        self.rhs = value
        return self
class Good:
    def needs(self, v, flag):
        return flag or v.is_attribute
    def analyse_types(self, env, use_temp=0):
        v = self.rhs.analyse_types(env)
        wanted = self.needs(v, use_temp)
        if v.is_literal:
            wanted = False
        if not wanted:
            self.rhs = v.coerce_to_simple(env)
            return self
        self.rhs = v.coerce_to_temp(env)
        return self
'''


def _control():
    tree = ast.parse(_CONTROL)
    verdicts = {}
    for cd in tree.body:
        methods = {f.name: f for f in cd.body if isinstance(f, ast.FunctionDef)}
        res = judge(methods['analyse_types'], lambda kind, name, m=methods, cn=cd.name: (cn, m[name]) if kind == 'self' and name in m else None,
                    ['rhs'], 'use_temp', 'embedded example ' + cd.name)
        verdicts[cd.name] = res
    e, g = verdicts['Elem'], verdicts['Good']
    return bool(e[2]) and any('is_name=True' in f for a, h, f in e[2]) and not g[2] and not g[3] and g[0] >= 2


def rule_snapshot(ctx, floor=3):
    ix = ctx.index
    r = Rule('C20-SNAPSHOT', 'two-phase (parallel) assignment: the executor passes its snapshot flag as a true constant to the analysis of every constituent, and every constituent '
             'class, entered with the flag set, leaves in the attribute its rhs phase evaluates a coerce_to_temp result (or a value established as a literal) on every path '
             'that returns the node itself', floor)
    r.positive_control(_control(), 'a constituent that keeps a plain name un-snapshotted under use_temp is reported; flag routed through a helper and a boolean local is accepted')
    classes = [c for c in ix.all_classes() if c.module.rel.startswith('Cython/Compiler/') and RHS_PHASE in c.module.src]
    constituents = [c for c in classes if RHS_PHASE in c.methods]
    executors = []
    for c in classes:
        reqs = [q for q in _element_requests(c.methods, (RHS_PHASE,)) if q[0].startswith('generate_')]
        if reqs:
            executors.append((c, sorted({q[1] for q in reqs})))
    if not executors:
        raise AnalysisError('C20-SNAPSHOT: no class requests %s from the elements of a child list (the two-phase executor was not found)' % RHS_PHASE)
    if not constituents:
        raise AnalysisError('C20-SNAPSHOT: no class defines %s' % RHS_PHASE)

    # ---- (E) the executor hands the flag to every element it analyses
    flags = set()
    for c, lists in executors:
        for lst in lists:
            key = '%s.%s[*]' % (c.name, lst)
            calls = [q for q in _element_requests(c.methods, ANALYSERS) if q[1] == lst]
            flagged = 0
            for mname, _, call in calls:
                kws = [k for k in call.keywords if k.arg is not None]
                r.inst('%s:%s' % (key, mname), sample='%s.%s analyses the elements of self.%s' % (c.name, mname, lst))
                const = [k for k in kws if isinstance(k.value, ast.Constant)]
                truthy = [k for k in const if k.value.value]
                if len(call.args) >= 2 and isinstance(call.args[1], ast.Constant) and call.args[1].value and call.func.attr == 'analyse_types':
                    flagged += 1
                    flags.add(None)
                elif truthy:
                    flagged += 1
                    flags.update(k.arg for k in truthy)
                elif kws and not const:
                    r.info('not decided: %s.%s passes a computed flag to the analysis of the elements of self.%s' % (c.name, mname, lst))
                    flagged += 1
                else:
                    r.violate('%s.%s:%s-without-snapshot-flag' % (c.name, mname, lst), c.module.rel, call.lineno,
                              '%s.%s analyses the elements of self.%s without a true snapshot flag (%s): the elements are executed in two phases (all right-hand sides, then all '
                              'stores), and without the flag a right-hand side that is a plain name or a C expression is read after the stores - `a, b = b, a` assigns the same value twice'
                              % (c.name, mname, lst, ast.unparse(call)))
            if not calls:
                r.violate('%s:%s-never-analysed-with-flag' % (c.name, lst), c.module.rel, c.node.lineno,
                          '%s executes the elements of self.%s in two phases but none of its methods analyses them element by element with the snapshot flag' % (c.name, lst))
    flag_names = sorted(f for f in flags if f)
    if len(flag_names) > 1:
        raise AnalysisError('C20-SNAPSHOT: executors use more than one flag keyword: %s' % flag_names)
    if not flag_names:
        # no executor names the flag (reported above): take it from the constituents - the one parameter with a false default all their analysis methods share
        common = None
        for c in constituents:
            hit = ix.find_method(c, 'analyse_types')
            if not hit:
                continue
            a = hit[1].args
            named = {p.arg for p, d in zip(a.args[len(a.args) - len(a.defaults):], a.defaults) if isinstance(d, ast.Constant) and not d.value}
            common = named if common is None else common & named
        if not common or len(common) != 1:
            if r.findings:
                return r
            raise AnalysisError('C20-SNAPSHOT: the keyword of the snapshot flag could not be determined')
        flag_names = sorted(common)
    flag = flag_names[0]

    # ---- (P) every constituent honours it
    for c in sorted(constituents, key=lambda c: c.name):
        tracked = _own_value_attrs(c.methods[RHS_PHASE])
        if not tracked:
            r.info('not decided: %s.%s requests no evaluation code from an attribute of self' % (c.name, RHS_PHASE))
            continue
        hit = ix.find_method(c, 'analyse_types')
        if not hit:
            raise AnalysisError('C20-SNAPSHOT: %s has no analyse_types' % c.name)
        owner, fn = hit
        key = '%s.analyse_types' % c.name
        res = judge(fn, _resolver(ix, c), tracked, flag, key)
        if res is None:
            r.inst(key, sample=key)
            r.violate('%s:%s-not-accepted' % (key, flag), owner.module.rel, fn.lineno,
                      '%s defines %s (it can be an element of a two-phase assignment) but its analyse_types has no parameter `%s`' % (c.name, RHS_PHASE, flag))
            continue
        judged, delegated, bad, undecided = res
        r.inst(key, sample='%s: %d paths with %s set return self, %d hand over to another node; value attribute(s) %s' % (key, judged, flag, delegated, ', '.join(tracked)))
        if judged == 0:
            raise AnalysisError('C20-SNAPSHOT: no path of %s returns self' % key)
        for a, how in undecided:
            r.info('not decided: %s leaves %s in self.%s on some path' % (key, how, a))
        for a, how, facts in bad:
            r.inst('%s:%s' % (key, a), sample=None)
            r.violate('%s:self.%s-not-snapshotted-under-%s' % (key, a, flag), owner.module.rel, fn.lineno,
                      '%s, entered with %s set, can return with self.%s = %s, which is neither a %s result nor a literal (path facts: %s). The parallel assignment evaluates '
                      'all right-hand sides first and stores afterwards; a plain name / simple C expression is only read at the store, after earlier stores of the same statement: '
                      '`a, b = c, d = b, a` (a, b = 1, 2) gives 2, 2, 2, 2 instead of 2, 1, 2, 1' % (key, flag, a, how, SNAPSHOT, facts or 'none'))
    return r
