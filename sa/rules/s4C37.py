"""C37 round 6: temporaries used inside an OpenMP region are thread-private (collector protocol, end to end).

`ParallelStatNode.privatize_temps` can only list the C temporaries it is told about.  The chain is

    FunctionState.start_collecting_temps()      pushes a collector
    FunctionState.allocate_temp()               registers every temp it hands out in the innermost collector
    FunctionState.stop_collecting_temps()       pops the collector and returns it
    privatize_temps()                           writes private(...) / firstprivate(...) for the collected temps through the
                                                insertion point captured on the `#pragma omp parallel` line

A temp that is used in the region but missing from the clauses is shared between the threads (wrong results for every thread
count > 1); a Python-object / memoryview temp that is `private` instead of `firstprivate` is uninitialised in every thread and is
XDECREF'd by cleanup_temps.

Technique: the methods are interpreted by a checker-owned *path-forking abstract interpreter* (class Interp).  Unknown values are
tokens with identity; every test on a token forks; containers that matter (the collector stack, the collected set, the clause lists)
are concrete.  Nothing from the repository is imported or executed.

C37-TEMPREG  (Code.py)   on every path of allocate_temp on which a collector is active, the value returned is registered in the
                         innermost collector (first tuple element); start/stop push and pop the same fresh container.
C37-TEMPPRIV (Nodes.py)  for ParallelWithBlockNode.generate_execution_code and ParallelRangeNode.generate_loop, per world
                         (is_parallel x is_nested_prange) and every path: collectors pushed in the method are popped in it; when the
                         method opens an active `#pragma omp parallel` line, the temps allocated while the body is generated are collected
                         by a collector of this method and each of them is written into a private/firstprivate clause through an insertion
                         point captured while an active `#pragma omp` line was open; object and memoryview temps are firstprivate.
"""
import ast, re

from ..core import Rule, AnalysisError, node_src
from ..engine.pyindex import walk_no_nested

CODE = 'Cython/Compiler/Code.py'
NODES = 'Cython/Compiler/Nodes.py'
MAX_PATHS = 30000
LOOP_BOUND = 2


# ====================================================================================================== values
class Unsupported(Exception):
    pass


class PathCut(Exception):
    """path abandoned (loop bound reached / exception raised by the interpreted code)"""

    def __init__(self, why):
        Exception.__init__(self, why)
        self.why = why


class _Ret(Exception):
    def __init__(self, value):
        self.value = value


class _Brk(Exception):
    pass


class _Cont(Exception):
    pass


class Tok:
    """an unknown value with identity"""
    _n = 0

    def __init__(self, name):
        Tok._n += 1
        self.uid = Tok._n
        self.name = name
        self.kids = {}

    def kid(self, key, label):
        if key not in self.kids:
            self.kids[key] = Tok(label)
        return self.kids[key]

    def __repr__(self):
        return '<%s>' % self.name

    def ph(self):
        return '\xa7%s#%d\xa7' % (self.name, self.uid)


class Obj:
    """instance of a repository class whose methods are interpreted"""

    def __init__(self, cls, attrs=None, name=None):
        self.cls, self.attrs, self.name = cls, dict(attrs or {}), name or cls.name

    def __repr__(self):
        return '<%s object>' % self.name


class Sym:
    """external object: preset attributes, native method hooks, everything else is recorded and unknown"""

    def __init__(self, name, attrs=None, hooks=None):
        self.name, self.attrs, self.hooks = name, dict(attrs or {}), dict(hooks or {})

    def __repr__(self):
        return '<%s>' % self.name


class BoundMethod:
    def __init__(self, obj, owner, fn):
        self.obj, self.owner, self.fn = obj, owner, fn


class Run:
    def __init__(self, prefix):
        self.prefix = list(prefix)
        self.taken = []
        self.labels = []
        self.memo = {}
        self.events = []
        self.globals = {}

    def decide(self, key, label, invert=False):
        if key is not None and key in self.memo:
            return self.memo[key]
        i = len(self.taken)
        v = self.prefix[i] if i < len(self.prefix) else True
        self.taken.append(v)
        self.labels.append((label, v != invert))
        if key is not None:
            self.memo[key] = v
        return v


def explore(thunk, what):
    """thunk(run) is executed once per decision string (depth first, True before False) -> [(status, result, run)]"""
    out, prefix = [], []
    while True:
        run = Run(prefix)
        try:
            out.append(('ok', thunk(run), run))
        except PathCut as e:
            out.append(('cut:' + e.why, None, run))
        if len(out) > MAX_PATHS:
            raise AnalysisError('%s: more than %d paths' % (what, MAX_PATHS))
        d = list(run.taken)
        while d and d[-1] is False:
            d.pop()
        if not d:
            return out
        d[-1] = False
        prefix = d


SPEC = re.compile(r'%(?:\((\w+)\))?[-#0 +]*(?:\d+)?(?:\.\d+)?([diouxXeEfFgGcrsa%])')
_LIST_METHODS = {'append', 'extend', 'pop', 'remove', 'insert', 'index', 'count', 'sort', 'reverse', 'copy', 'clear'}
_SET_METHODS = {'add', 'discard', 'remove', 'pop', 'update', 'copy', 'clear', 'union', 'difference', 'intersection', 'issubset'}
_DICT_METHODS = {'get', 'items', 'keys', 'values', 'setdefault', 'pop', 'update', 'copy', 'clear'}
_STR_METHODS = {'join', 'format', 'startswith', 'endswith', 'isdigit', 'strip', 'lstrip', 'rstrip', 'split', 'lower', 'upper', 'replace', 'count', 'find'}
_TUPLE_METHODS = {'index', 'count'}


def show(v):
    if isinstance(v, str):
        return v
    if isinstance(v, bool) or v is None:
        return str(v)
    if isinstance(v, (int, float)):
        return str(v)
    if isinstance(v, Tok):
        return v.ph()
    return '\xa7%s\xa7' % (getattr(v, 'name', None) or type(v).__name__)


def fmt(template, arg):
    pos = [0]
    seq = list(arg) if isinstance(arg, tuple) else None

    def rep(m):
        if m.group(2) == '%':
            return '%'
        if m.group(1):
            if isinstance(arg, dict):
                if m.group(1) not in arg:
                    raise PathCut('KeyError in % formatting')
                return show(arg[m.group(1)])
            return '\xa7%s\xa7' % m.group(1)
        if seq is not None:
            if pos[0] >= len(seq):
                raise PathCut('not enough arguments for format string')
            v = seq[pos[0]]
            pos[0] += 1
            return show(v)
        if isinstance(arg, Tok) and pos[0] > 0:
            pos[0] += 1
            return arg.kid(('item', pos[0] - 1), arg.name + '[%d]' % (pos[0] - 1)).ph()
        pos[0] += 1
        if isinstance(arg, Tok) and len([1 for x in SPEC.finditer(template) if x.group(2) != '%']) > 1:
            return arg.kid(('item', 0), arg.name + '[0]').ph()
        return show(arg)
    return SPEC.sub(rep, template)


# ====================================================================================================== interpreter
class Interp:
    def __init__(self, ix, what, inline=None, max_depth=4):
        self.ix, self.what = ix, what
        self.inline = inline            # inline(obj, owner ClassInfo, FunctionDef) -> bool: interpret this self-method call in place?
        self.max_depth = max_depth
        self.depth = 0
        self.run = None

    # ------------------------------------------------------------------ calls of interpreted functions
    def call_function(self, fn, args, kwargs, selfobj=None, label=None):
        a = fn.args
        params = [p.arg for p in a.posonlyargs + a.args]
        env = {}
        vals = ([selfobj] if selfobj is not None else []) + list(args)
        if len(vals) > len(params) and a.vararg is None:
            raise PathCut('too many arguments for %s' % fn.name)
        defaults = a.defaults
        nreq = len(params) - len(defaults)
        kwargs = dict(kwargs)
        for i, p in enumerate(params):
            if i < len(vals):
                env[p] = vals[i]
            elif p in kwargs:
                env[p] = kwargs.pop(p)
            elif i >= nreq:
                env[p] = self.ev(defaults[i - nreq], {})
            else:
                raise PathCut('missing argument %s of %s' % (p, fn.name))
        if a.vararg is not None:
            env[a.vararg.arg] = tuple(vals[len(params):])
        for p, d in zip(a.kwonlyargs, a.kw_defaults):
            if p.arg in kwargs:
                env[p.arg] = kwargs.pop(p.arg)
            elif d is not None:
                env[p.arg] = self.ev(d, {})
            else:
                raise PathCut('missing keyword argument %s' % p.arg)
        if a.kwarg is not None:
            env[a.kwarg.arg] = kwargs
        elif kwargs:
            raise PathCut('unexpected keyword argument %s' % sorted(kwargs)[0])
        self.depth += 1
        try:
            if self.depth > self.max_depth + 2:
                raise Unsupported('call depth')
            self.block(fn.body, env)
        except _Ret as r:
            return r.value
        finally:
            self.depth -= 1
        return None

    def event(self, *e):
        self.run.events.append(e)

    # ------------------------------------------------------------------ truth
    def truth(self, v, label='?'):
        if isinstance(v, Tok):
            return self.run.decide(('truth', v.uid), label)
        if isinstance(v, (Obj, Sym, BoundMethod)):
            return True
        try:
            return bool(v)
        except Exception:
            raise Unsupported('truth of %r' % (v,))

    def test(self, n, env):
        return self.truth(self.ev(n, env), n)

    # ------------------------------------------------------------------ expressions
    def global_name(self, name):
        g = self.run.globals
        if name not in g:
            g[name] = Tok(name)
        return g[name]

    def getattr(self, b, attr, n=None):
        if isinstance(b, Obj):
            if attr in b.attrs:
                return b.attrs[attr]
            r = self.ix.find_method(b.cls, attr)
            if r is not None:
                return BoundMethod(b, r[0], r[1])
            t = Tok('%s.%s' % (b.name, attr))
            b.attrs[attr] = t
            return t
        if isinstance(b, Sym):
            if attr not in b.attrs:
                b.attrs[attr] = ('hook', b, attr) if attr in b.hooks else Tok('%s.%s' % (b.name, attr))
            return b.attrs[attr]
        if isinstance(b, Tok):
            return b.kid(('attr', attr), '%s.%s' % (b.name, attr))
        if isinstance(b, (list, set, dict, str, tuple)):
            return ('native', b, attr)
        raise Unsupported('attribute %s of %r' % (attr, b))

    def ev(self, n, env):
        if isinstance(n, ast.Constant):
            return n.value
        if isinstance(n, ast.Name):
            if n.id in env:
                return env[n.id]
            if n.id in ('True', 'False', 'None'):
                return {'True': True, 'False': False, 'None': None}[n.id]
            return self.global_name(n.id)
        if isinstance(n, ast.Attribute):
            return self.getattr(self.ev(n.value, env), n.attr, n)
        if isinstance(n, ast.Tuple):
            return tuple(self.elts(n.elts, env))
        if isinstance(n, ast.List):
            return list(self.elts(n.elts, env))
        if isinstance(n, ast.Set):
            return set(self.elts(n.elts, env))
        if isinstance(n, ast.Dict):
            d = {}
            for k, v in zip(n.keys, n.values):
                if k is None:
                    raise Unsupported('dict unpacking')
                d[self.ev(k, env)] = self.ev(v, env)
            return d
        if isinstance(n, ast.JoinedStr):
            out = []
            for p in n.values:
                if isinstance(p, ast.Constant):
                    out.append(str(p.value))
                else:
                    out.append(show(self.ev(p.value, env)))
            return ''.join(out)
        if isinstance(n, ast.BoolOp):
            v = None
            for x in n.values:
                v = self.ev(x, env)
                t = self.truth(v, x)
                if isinstance(n.op, ast.And) and not t:
                    return v
                if isinstance(n.op, ast.Or) and t:
                    return v
            return v
        if isinstance(n, ast.UnaryOp):
            if isinstance(n.op, ast.Not):
                return not self.test(n.operand, env)
            v = self.ev(n.operand, env)
            if isinstance(v, (int, float)) and not isinstance(v, bool):
                return -v if isinstance(n.op, ast.USub) else +v if isinstance(n.op, ast.UAdd) else ~v
            return Tok('unary')
        if isinstance(n, ast.IfExp):
            return self.ev(n.body if self.test(n.test, env) else n.orelse, env)
        if isinstance(n, ast.Compare):
            left = self.ev(n.left, env)
            for op, rn in zip(n.ops, n.comparators):
                right = self.ev(rn, env)
                if not self.compare(op, left, right, n):
                    return False
                left = right
            return True
        if isinstance(n, ast.BinOp):
            return self.binop(n.op, self.ev(n.left, env), self.ev(n.right, env), n)
        if isinstance(n, ast.Subscript):
            return self.subscript(self.ev(n.value, env), n.slice, env)
        if isinstance(n, ast.Call):
            return self.call(n, env)
        if isinstance(n, (ast.ListComp, ast.SetComp, ast.GeneratorExp)):
            out = []
            if not self.comp(n.generators, 0, env, lambda e: out.append(self.ev(n.elt, e))):
                return Tok('comprehension')
            return set(out) if isinstance(n, ast.SetComp) else out
        if isinstance(n, ast.DictComp):
            out = {}
            if not self.comp(n.generators, 0, env, lambda e: out.__setitem__(self.ev(n.key, e), self.ev(n.value, e))):
                return Tok('comprehension')
            return out
        if isinstance(n, ast.Starred):
            raise Unsupported('starred expression')
        if isinstance(n, ast.Lambda):
            return Tok('lambda')
        raise Unsupported('expression %s' % node_src(n, 60))

    def elts(self, elts, env):
        out = []
        for e in elts:
            if isinstance(e, ast.Starred):
                v = self.ev(e.value, env)
                if isinstance(v, (list, tuple)):
                    out.extend(v)
                else:
                    out.append(Tok('*'))
            else:
                out.append(self.ev(e, env))
        return out

    def comp(self, gens, i, env, emit):
        """-> False when an iterable is unknown"""
        if i == len(gens):
            emit(env)
            return True
        g = gens[i]
        it = self.ev(g.iter, env)
        if isinstance(it, Tok):
            return False
        if isinstance(it, (set, dict)):
            it = sorted(it, key=repr)
        if not isinstance(it, (list, tuple, str)):
            raise Unsupported('comprehension over %r' % (it,))
        for v in list(it):
            e = dict(env)
            self.assign(g.target, v, e)
            if all(self.test(c, e) for c in g.ifs):
                if not self.comp(gens, i + 1, e, emit):
                    return False
        return True

    def compare(self, op, a, b, n):
        unknown = isinstance(a, Tok) or isinstance(b, Tok)
        label = n
        if isinstance(op, (ast.Is, ast.IsNot)):
            if unknown and not (isinstance(a, Tok) and isinstance(b, Tok) and a is b):
                key = ('is', a.uid if isinstance(a, Tok) else repr(a), b.uid if isinstance(b, Tok) else repr(b))
                r = self.run.decide(key, label, invert=isinstance(op, ast.IsNot))
            else:
                r = a is b
            return r if isinstance(op, ast.Is) else not r
        if isinstance(op, (ast.In, ast.NotIn)):
            if isinstance(b, Tok) or (isinstance(a, Tok) and isinstance(b, (str,))):
                r = self.run.decide(None, label)
                return r
            if isinstance(b, (list, tuple, set, dict, str)):
                try:
                    r = a in b
                except TypeError:
                    raise PathCut('TypeError in membership test')
                return r if isinstance(op, ast.In) else not r
            raise Unsupported('membership in %r' % (b,))
        if unknown:
            if isinstance(a, Tok) and isinstance(b, Tok) and a is b and isinstance(op, (ast.Eq, ast.NotEq)):
                return isinstance(op, ast.Eq)
            return self.run.decide(None, label)
        if isinstance(a, (Obj, Sym)) or isinstance(b, (Obj, Sym)):
            if isinstance(op, ast.Eq):
                return a is b
            if isinstance(op, ast.NotEq):
                return a is not b
            raise Unsupported('ordering of objects')
        try:
            if isinstance(op, ast.Eq):
                return a == b
            if isinstance(op, ast.NotEq):
                return a != b
            if isinstance(op, ast.Lt):
                return a < b
            if isinstance(op, ast.LtE):
                return a <= b
            if isinstance(op, ast.Gt):
                return a > b
            if isinstance(op, ast.GtE):
                return a >= b
        except TypeError:
            raise PathCut('TypeError in comparison')
        raise Unsupported('comparison operator')

    def binop(self, op, a, b, n):
        if isinstance(op, ast.Mod) and isinstance(a, str):
            return fmt(a, b)
        if isinstance(a, Tok) or isinstance(b, Tok):
            if isinstance(op, ast.Add) and (isinstance(a, str) or isinstance(b, str)):
                return show(a) + show(b)
            return Tok('binop')
        try:
            if isinstance(op, ast.Add):
                return a + b
            if isinstance(op, ast.Sub):
                return a - b
            if isinstance(op, ast.Mult):
                return a * b
            if isinstance(op, ast.FloorDiv):
                return a // b
            if isinstance(op, ast.Mod):
                return a % b
            if isinstance(op, ast.BitOr):
                return a | b
            if isinstance(op, ast.BitAnd):
                return a & b
            if isinstance(op, ast.Pow) and isinstance(a, int) and isinstance(b, int) and 0 <= b <= 64:
                return a ** b
            if isinstance(op, ast.LShift) and isinstance(a, int) and isinstance(b, int) and 0 <= b <= 64:
                return a << b
        except Exception:
            raise PathCut('exception in arithmetic')
        raise Unsupported('operator in %s' % node_src(n, 60))

    def subscript(self, b, sl, env):
        if isinstance(sl, ast.Slice):
            lo = self.ev(sl.lower, env) if sl.lower is not None else None
            hi = self.ev(sl.upper, env) if sl.upper is not None else None
            st = self.ev(sl.step, env) if sl.step is not None else None
            if isinstance(b, (list, tuple, str)) and all(x is None or (isinstance(x, int) and not isinstance(x, bool)) for x in (lo, hi, st)):
                return b[lo:hi:st]
            if isinstance(b, Tok):
                return b.kid(('slice', repr((lo, hi, st))), b.name + '[:]')
            raise Unsupported('slice of %r' % (b,))
        i = self.ev(sl, env)
        if isinstance(b, Tok):
            return b.kid(('item', i.uid if isinstance(i, Tok) else repr(i)), '%s[%s]' % (b.name, show(i)))
        if isinstance(b, (list, tuple, str)):
            if isinstance(i, int) and not isinstance(i, bool):
                try:
                    return b[i]
                except IndexError:
                    raise PathCut('IndexError')
            if isinstance(i, Tok):
                return Tok('item')
            raise Unsupported('index %r' % (i,))
        if isinstance(b, dict):
            try:
                if i in b:
                    return b[i]
            except TypeError:
                raise PathCut('unhashable key')
            raise PathCut('KeyError')
        raise Unsupported('subscript of %r' % (b,))

    # ------------------------------------------------------------------ calls
    def call(self, n, env):
        f = n.func
        args = self.elts(n.args, env)
        kwargs = {}
        for k in n.keywords:
            if k.arg is None:
                raise Unsupported('**kwargs in call')
            kwargs[k.arg] = self.ev(k.value, env)
        if isinstance(f, ast.Name) and f.id not in env:
            r = self.builtin(f.id, args, kwargs, n)
            if r is not NotImplemented:
                return r
        if isinstance(f, ast.Call) and isinstance(f.func, ast.Name) and f.func.id == 'super':
            raise Unsupported('super() call')
        fv = self.ev(f, env)
        return self.apply(fv, args, kwargs, n)

    def apply(self, fv, args, kwargs, n):
        if isinstance(fv, BoundMethod):
            if self.inline is None or self.inline(fv.obj, fv.owner, fv.fn):
                return self.call_function(fv.fn, args, kwargs, selfobj=fv.obj)
            self.event('opaque', fv.obj.name, fv.fn.name, args, n)
            return Tok('%s()' % fv.fn.name)
        if isinstance(fv, tuple) and fv and fv[0] == 'hook':
            _, sym, attr = fv
            return sym.hooks[attr](self, sym, args, kwargs, n)
        if isinstance(fv, tuple) and fv and fv[0] == 'native':
            return self.native(fv[1], fv[2], args, kwargs, n)
        if isinstance(fv, Tok):
            self.event('call', fv.name, args, kwargs, n)
            return Tok('%s()' % fv.name)
        raise Unsupported('call of %r' % (fv,))

    def native(self, b, attr, args, kwargs, n):
        if kwargs and not (isinstance(b, list) and attr == 'sort'):
            raise Unsupported('keyword arguments to %s' % attr)
        try:
            if isinstance(b, list) and attr in _LIST_METHODS:
                if attr == 'extend' and args and isinstance(args[0], Tok):
                    b.append(Tok('*' + args[0].name))
                    return None
                if attr == 'sort':
                    b.sort(key=repr)
                    return None
                return getattr(b, attr)(*args)
            if isinstance(b, set) and attr in _SET_METHODS:
                if attr == 'pop':
                    if not b:
                        raise PathCut('pop from empty set')
                    v = sorted(b, key=repr)[0]
                    b.discard(v)
                    return v
                return getattr(b, attr)(*args)
            if isinstance(b, dict) and attr in _DICT_METHODS:
                r = getattr(b, attr)(*args)
                return list(r) if attr in ('items', 'keys', 'values') else r
            if isinstance(b, tuple) and attr in _TUPLE_METHODS:
                return getattr(b, attr)(*args)
            if isinstance(b, str) and attr in _STR_METHODS:
                if attr == 'join':
                    it = args[0]
                    if isinstance(it, Tok):
                        return it.ph()
                    if isinstance(it, (set, dict)):
                        it = sorted(it, key=repr)
                    return b.join(show(x) for x in it)
                if attr == 'format':
                    raise Unsupported('str.format')
                if any(isinstance(a, Tok) for a in args):
                    return Tok('str.%s' % attr)
                return getattr(b, attr)(*args)
        except (PathCut, Unsupported):
            raise
        except (IndexError, KeyError, ValueError, TypeError, AttributeError) as e:
            raise PathCut('%s in %s' % (type(e).__name__, attr))
        raise Unsupported('method %s of %s' % (attr, type(b).__name__))

    def builtin(self, name, args, kwargs, n):
        unknown = any(isinstance(a, Tok) for a in args)
        if name in ('sorted', 'list', 'tuple', 'set', 'frozenset', 'reversed') and len(args) <= 1:
            if not args:
                return {'sorted': [], 'list': [], 'tuple': (), 'set': set(), 'frozenset': set(), 'reversed': []}[name]
            v = args[0]
            if isinstance(v, Tok):
                return Tok('%s(%s)' % (name, v.name))
            if isinstance(v, dict):
                v = list(v)
            if not isinstance(v, (list, tuple, set, str)):
                raise Unsupported('%s(%r)' % (name, v))
            if name == 'sorted':
                if kwargs:
                    raise Unsupported('sorted with key')
                return sorted(v, key=repr)
            if name in ('set', 'frozenset'):
                return set(v)
            if name == 'tuple':
                return tuple(sorted(v, key=repr) if isinstance(v, set) else v)
            if name == 'reversed':
                return list(reversed(list(v)))
            return list(sorted(v, key=repr) if isinstance(v, set) else v)
        if name == 'len' and len(args) == 1:
            if unknown:
                return Tok('len')
            return len(args[0])
        if name == 'bool' and len(args) == 1:
            return self.truth(args[0], n)
        if name == 'str' and len(args) == 1:
            return show(args[0])
        if name == 'int' and len(args) == 1:
            if isinstance(args[0], (int, str)) and not unknown:
                try:
                    return int(args[0])
                except ValueError:
                    raise PathCut('ValueError in int()')
            return Tok('int')
        if name == 'dict' and not args:
            return dict(kwargs)
        if name in ('zip', 'enumerate'):
            if unknown or not all(isinstance(a, (list, tuple, str)) for a in args):
                return Tok(name)
            return list(zip(*args)) if name == 'zip' else list(enumerate(args[0]))
        if name == 'isinstance':
            return Tok('isinstance')
        if name in ('any', 'all') and len(args) == 1 and isinstance(args[0], (list, tuple)):
            ts = [self.truth(x, name) for x in args[0]]
            return any(ts) if name == 'any' else all(ts)
        if name in ('getattr', 'hasattr', 'setattr', 'min', 'max', 'abs', 'repr', 'id', 'type', 'print', 'range', 'iter', 'next', 'map', 'filter', 'sum'):
            if name == 'getattr' and len(args) >= 2 and isinstance(args[1], str) and isinstance(args[0], (Obj, Sym, Tok)):
                return self.getattr(args[0], args[1])
            return Tok(name + '()')
        return NotImplemented

    # ------------------------------------------------------------------ statements
    def block(self, stmts, env):
        for s in stmts:
            self.stmt(s, env)

    def assign(self, t, v, env):
        if isinstance(t, ast.Name):
            env[t.id] = v
        elif isinstance(t, (ast.Tuple, ast.List)):
            if isinstance(v, Tok):
                vals = [v.kid(('item', repr(i)), '%s[%d]' % (v.name, i)) for i in range(len(t.elts))]
            elif isinstance(v, (tuple, list)):
                if any(isinstance(e, ast.Starred) for e in t.elts):
                    raise Unsupported('starred assignment')
                if len(v) != len(t.elts):
                    raise PathCut('unpacking %d values into %d targets' % (len(v), len(t.elts)))
                vals = list(v)
            else:
                raise Unsupported('unpacking of %r' % (v,))
            for e, x in zip(t.elts, vals):
                self.assign(e, x, env)
        elif isinstance(t, ast.Attribute):
            b = self.ev(t.value, env)
            if isinstance(b, (Obj, Sym)):
                b.attrs[t.attr] = v
                self.event('setattr', b.name, t.attr, v, t)
            elif isinstance(b, Tok):
                b.kids[('attr', t.attr)] = v if isinstance(v, Tok) else Tok('%s.%s' % (b.name, t.attr))
            else:
                raise Unsupported('attribute store on %r' % (b,))
        elif isinstance(t, ast.Subscript):
            b = self.ev(t.value, env)
            if isinstance(t.slice, ast.Slice):
                raise Unsupported('slice store')
            i = self.ev(t.slice, env)
            if isinstance(b, dict):
                try:
                    b[i] = v
                except TypeError:
                    raise PathCut('unhashable key')
            elif isinstance(b, list) and isinstance(i, int):
                try:
                    b[i] = v
                except IndexError:
                    raise PathCut('IndexError')
            elif isinstance(b, Tok):
                b.kids[('item', i.uid if isinstance(i, Tok) else repr(i))] = v if isinstance(v, Tok) else Tok('item')
            else:
                raise Unsupported('item store on %r' % (b,))
        else:
            raise Unsupported('assignment target %s' % node_src(t, 40))

    def stmt(self, s, env):
        if isinstance(s, ast.Expr):
            self.ev(s.value, env)
        elif isinstance(s, ast.Assign):
            v = self.ev(s.value, env)
            for t in s.targets:
                self.assign(t, v, env)
        elif isinstance(s, ast.AnnAssign):
            if s.value is not None:
                self.assign(s.target, self.ev(s.value, env), env)
        elif isinstance(s, ast.AugAssign):
            cur = self.ev(_as_load(s.target), env)
            v = self.ev(s.value, env)
            if isinstance(cur, list) and isinstance(s.op, ast.Add) and isinstance(v, (list, tuple)):
                cur.extend(v)
                return
            if isinstance(cur, set) and isinstance(s.op, ast.BitOr) and isinstance(v, set):
                cur.update(v)
                return
            self.assign(s.target, self.binop(s.op, cur, v, s), env)
        elif isinstance(s, ast.If):
            self.block(s.body if self.test(s.test, env) else s.orelse, env)
        elif isinstance(s, ast.For):
            it = self.ev(s.iter, env)
            if isinstance(it, Tok):
                if self.run.decide(None, ('iterate', s.iter)):
                    self.assign(s.target, it.kid(('elem',), 'element of %s' % it.name), env)
                    try:
                        self.block(s.body, env)
                    except _Brk:
                        return
                    except _Cont:
                        pass
                self.block(s.orelse, env)
                return
            if isinstance(it, (set, dict)):
                it = sorted(it, key=repr)
            if not isinstance(it, (list, tuple, str)):
                raise Unsupported('for over %r' % (it,))
            for v in list(it):
                self.assign(s.target, v, env)
                try:
                    self.block(s.body, env)
                except _Brk:
                    return
                except _Cont:
                    continue
            self.block(s.orelse, env)
        elif isinstance(s, ast.While):
            n = 0
            while self.test(s.test, env):
                n += 1
                if n > LOOP_BOUND:
                    raise PathCut('loop bound')
                try:
                    self.block(s.body, env)
                except _Brk:
                    return
                except _Cont:
                    continue
            self.block(s.orelse, env)
        elif isinstance(s, ast.Return):
            raise _Ret(self.ev(s.value, env) if s.value is not None else None)
        elif isinstance(s, ast.Pass):
            pass
        elif isinstance(s, ast.Break):
            raise _Brk()
        elif isinstance(s, ast.Continue):
            raise _Cont()
        elif isinstance(s, ast.Raise):
            raise PathCut('raise')
        elif isinstance(s, ast.Try):
            try:
                self.block(s.body, env)
                self.block(s.orelse, env)
            finally:
                self.block(s.finalbody, env)
        elif isinstance(s, ast.With):
            for item in s.items:
                v = self.ev(item.context_expr, env)
                if item.optional_vars is not None:
                    self.assign(item.optional_vars, v if isinstance(v, Tok) else Tok('with'), env)
            self.block(s.body, env)
        elif isinstance(s, (ast.Import, ast.ImportFrom)):
            for a in s.names:
                nm = a.asname or a.name.split('.')[0]
                env[nm] = self.global_name(nm)
        elif isinstance(s, ast.Delete):
            for t in s.targets:
                if isinstance(t, ast.Name):
                    env.pop(t.id, None)
                elif isinstance(t, ast.Subscript) and not isinstance(t.slice, ast.Slice):
                    b, i = self.ev(t.value, env), self.ev(t.slice, env)
                    if isinstance(b, (list, dict)) and not isinstance(i, Tok):
                        try:
                            del b[i]
                        except (IndexError, KeyError, TypeError):
                            raise PathCut('exception in del')
                    elif not isinstance(b, Tok):
                        raise Unsupported('del on %r' % (b,))
                elif isinstance(t, ast.Attribute):
                    b = self.ev(t.value, env)
                    if isinstance(b, (Obj, Sym)):
                        b.attrs.pop(t.attr, None)
                else:
                    raise Unsupported('del target')
        elif isinstance(s, (ast.Assert, ast.Global, ast.Nonlocal)):
            pass
        elif isinstance(s, (ast.FunctionDef, ast.ClassDef)):
            env[s.name] = Tok(s.name)
        else:
            raise Unsupported('statement %s' % type(s).__name__)


_LOADS = {}


def _as_load(t):
    if id(t) not in _LOADS:
        _LOADS[id(t)] = (t, ast.parse(ast.unparse(t), mode='eval').body)
    return _LOADS[id(t)][1]


def _guard(what, thunk):
    try:
        return thunk()
    except Unsupported as e:
        raise AnalysisError('%s: construct outside the interpreted subset: %s' % (what, e))
    except RecursionError:
        raise AnalysisError('%s: recursion limit' % what)


def path_text(run, limit=4):
    def txt(l):
        if isinstance(l, tuple):
            return '%s %s' % (l[0], node_src(l[1], 50))
        return node_src(l, 70) if isinstance(l, ast.AST) else str(l)
    ls = ['%s%s' % ('' if v else 'not ', txt(l)) for l, v in run.labels]
    return '; '.join(ls[-limit:]) if ls else 'straight line'


# ====================================================================================================== C37-TEMPREG
def collector_attr(ix, fs):
    """the attribute of FunctionState that start_collecting_temps pushes to: found by interpreting the method on an object whose
    list-valued attributes are created on demand"""
    r = ix.find_method(fs, 'start_collecting_temps')
    r2 = ix.find_method(fs, 'stop_collecting_temps')
    if r is None or r2 is None:
        raise AnalysisError('%s.start_collecting_temps / stop_collecting_temps vanished' % fs.qual)
    # candidates: self attributes that the method calls .append()/.add()/+= on
    cands = []
    for n in walk_no_nested(r[1]):
        if isinstance(n, ast.Attribute) and isinstance(n.value, ast.Name) and n.value.id == r[1].args.args[0].arg:
            if n.attr not in cands and ix.find_method(fs, n.attr) is None:
                cands.append(n.attr)
    good = []
    for a in cands:
        def thunk(run, a=a):
            it = Interp(ix, 'start_collecting_temps')
            it.run = run
            o = Obj(fs, {a: []}, 'self')
            it.call_function(r[1], [], {}, selfobj=o)
            return o.attrs[a]
        try:
            paths = explore(thunk, 'start_collecting_temps')
        except Unsupported:
            continue
        if paths and all(st == 'ok' and isinstance(v, list) and len(v) == 1 for st, v, _ in paths):
            good.append(a)
    if len(good) != 1:
        raise AnalysisError('%s.start_collecting_temps: the collector stack attribute could not be identified (candidates %s)' % (fs.qual, good or cands))
    return good[0], r[1], r2[1]


def stack_problems(ix, fs, attr, startfn, stopfn):
    """start pushes a fresh empty container on top; stop pops exactly that container and returns it -> (instances, problems)"""
    inst, probs = [], {}
    for depth in (0, 1):
        def thunk(run):
            it = Interp(ix, 'collector stack')
            it.run = run
            outer = [set([('outer', 0)])] if depth else []
            o = Obj(fs, {attr: list(outer)}, 'self')
            it.call_function(startfn, [], {}, selfobj=o)
            st = o.attrs[attr]
            if not isinstance(st, list) or len(st) != depth + 1:
                return 'start', 'start_collecting_temps leaves %d collectors on a stack that held %d' % (len(st) if isinstance(st, list) else -1, depth)
            top = st[-1]
            if not isinstance(top, (set, list)) or len(top) != 0:
                return 'start', 'start_collecting_temps does not push a fresh empty collector on top of the stack (top is %r)' % (top,)
            if depth and st[0] is not outer[0]:
                return 'start', 'start_collecting_temps replaces the enclosing collector'
            marker = ('temp', 'type')
            (top.add if isinstance(top, set) else top.append)(marker)
            got = it.call_function(stopfn, [], {}, selfobj=o)
            if got is not top:
                return 'stop', 'stop_collecting_temps does not return the collector pushed by the matching start_collecting_temps (returns %r)' % (got,)
            st = o.attrs[attr]
            if not isinstance(st, list) or len(st) != depth or (depth and st[0] is not outer[0]):
                return 'stop', 'stop_collecting_temps does not restore the collector stack to the state before start_collecting_temps'
            return None
        for status, res, run in _guard('FunctionState.start/stop_collecting_temps', lambda: explore(thunk, 'collector stack')):
            inst.append('stack:depth%d' % depth)
            if status != 'ok':
                probs.setdefault('stack:path', 'a path of start/stop_collecting_temps ends in an exception (%s) with %d enclosing collectors' % (status, depth))
            elif res is not None:
                probs.setdefault('stack:' + res[0], res[1] + ' [%d enclosing collector(s)]' % depth)
    return inst, probs


def alloc_paths(ix, fs, attr, fn, inline_all=True):
    """every path of the allocator with an enclosing and an innermost active collector -> [(status, (returned value, collector contents, type token), run)]"""
    def thunk(run):
        it = Interp(ix, fn.name)
        it.run = run
        top = set()
        o = Obj(fs, {attr: [set(), top]}, 'self')     # a prange that contains a `with parallel()` block: two collectors, the innermost one counts
        a = fn.args
        params = [p.arg for p in a.posonlyargs + a.args][1:]
        kw = {p: Tok(p) for p in params}
        for p in a.kwonlyargs:
            kw[p.arg] = Tok(p.arg)
        v = it.call_function(fn, [], kw, selfobj=o)
        return v, o.attrs[attr], top
    return _guard('%s.%s' % (fs.qual, fn.name), lambda: explore(thunk, fn.name))


def alloc_problems(paths, fname):
    """-> (n paths evaluated, problem or None)"""
    n, bad = 0, []
    for status, res, run in paths:
        if status != 'ok':
            continue
        v, stack, top = res
        if v is None:
            continue
        n += 1
        if not isinstance(stack, list) or not stack or stack[-1] is not top:
            bad.append(('the collector stack is changed by the allocator', run))
            continue
        members = list(top)
        if not any(isinstance(m, tuple) and m and (m[0] is v or (isinstance(v, str) and m[0] == v)) for m in members):
            bad.append(('registered: %s' % (', '.join(sorted(show(m[0]) if isinstance(m, tuple) and m else repr(m) for m in members)) or 'nothing'), run))
    if not bad:
        return n, None
    what, run = bad[0]
    return n, ('%s hands out a temporary without registering it in the active collector on %d of %d paths (e.g. when %s; %s): '
               'a temp that is taken inside an OpenMP region is then missing from the private()/firstprivate() clause, i.e. shared by all threads'
               % (fname, len(bad), n, path_text(run, 5), what))


PC_ALLOC = '''
class FS:
    def start_collecting_temps(self):
        self.stack.append(set())
    def stop_collecting_temps(self):
        return self.stack.pop()
    def allocate_temp(self, type, manage_ref):
        free = self.free.get(type)
        if free:
            name = free.pop()
        else:
            self.counter += 1
            name = "t%d" % self.counter
            if self.stack:
                self.stack[-1].add((name, type))
        return name
    def allocate_ok(self, type, manage_ref):
        free = self.free.get(type)
        if free:
            name = free.pop()
        else:
            self.counter += 1
            name = "t%d" % self.counter
        self._note(name, type)
        return name
    def _note(self, n, t):
        if not self.stack:
            return
        self.stack[-1].add((n, t))
'''


class _MiniIndex:
    """find_method over one synthetic class (positive controls)"""

    def __init__(self, src):
        self.cls = {c.name: c for c in ast.parse(src).body if isinstance(c, ast.ClassDef)}

    def get(self, name):
        c = self.cls[name]
        c.qual = name
        return c

    def find_method(self, c, name, skip_self=False):
        for m in c.body:
            if isinstance(m, ast.FunctionDef) and m.name == name:
                return (c, m)
        return None


def rule_tempreg(ctx):
    r = Rule('C37-TEMPREG', 'FunctionState: every temporary handed out while a collector is active is registered in the innermost collector; '
             'start/stop_collecting_temps push and pop the same fresh collector', floor=150)
    ix = ctx.index
    fs = ix.cls('Code', 'FunctionState')
    attr, startfn, stopfn = collector_attr(ix, fs)
    inst, probs = stack_problems(ix, fs, attr, startfn, stopfn)
    for k in inst:
        r.inst(k, sample='%s: push/pop of self.%s' % (k, attr))
    for k, m in sorted(probs.items()):
        r.violate(k, CODE, startfn.lineno, 'FunctionState: ' + m + ' - privatize_temps then lists the wrong set of temporaries')
    res = ix.find_method(fs, 'allocate_temp')
    if res is None:
        raise AnalysisError('FunctionState.allocate_temp vanished')
    fn = res[1]
    paths = alloc_paths(ix, fs, attr, fn)
    n, prob = alloc_problems(paths, 'FunctionState.allocate_temp')
    cut = sum(1 for st, _, _ in paths if st != 'ok')
    for i in range(n):
        r.inst('reg:allocate_temp:path%d' % i, sample='allocate_temp: %d returning paths with an active collector (%d paths cut)' % (n, cut))
    if n == 0:
        raise AnalysisError('FunctionState.allocate_temp: no returning path could be interpreted')
    if prob:
        r.violate('reg:FunctionState.allocate_temp', CODE, fn.lineno, prob)
    # positive control
    mi = _MiniIndex(PC_ALLOC)
    c = mi.get('FS')
    bad = alloc_problems(alloc_paths(mi, c, 'stack', mi.find_method(c, 'allocate_temp')[1]), 'pc')[1]
    good = alloc_problems(alloc_paths(mi, c, 'stack', mi.find_method(c, 'allocate_ok')[1]), 'pc')[1]
    a2, s1, s2 = collector_attr(mi, c)
    r.positive_control(bad is not None and good is None and a2 == 'stack' and not stack_problems(mi, c, 'stack', s1, s2)[1],
                       'an allocator that registers only freshly created temps is reported, one that registers through a helper is not')
    return r


# ====================================================================================================== C37-TEMPPRIV
NEEDLES = ('start_collecting_temps', 'stop_collecting_temps', 'privatization_insertion_point')
CLAUSE = re.compile(r'\b(firstprivate|lastprivate|private|shared|reduction)\s*\(([^()]*)\)')
PRAGMA_OMP = re.compile(r'^\s*#\s*pragma\s+omp\b')
PRAGMA_PAR = re.compile(r'^\s*#\s*pragma\s+omp\s+parallel\b')
UNKNOWN = None


class Writer(Sym):
    """model of a CCodeWriter: the text of the line that is currently open (None = unknown), the stack of emitted #if lines, and for
    insertion points the state of the parent at the time of capture"""

    def __init__(self, name, origin=None):
        Sym.__init__(self, name)
        self.line, self.pp, self.puts, self.origin = '', [], [], origin
        self.captures = []
        self.hooks = {'put': self._put, 'put_safe': self._put, 'putln': self._putln, 'insertion_point': self._point,
                      'begin_block': self._line, 'end_block': self._line, 'putln_openmp': self._line}

    def _text(self, args):
        if not args:
            return ''
        return args[0] if isinstance(args[0], str) else show(args[0])

    def _put(self, it, sym, args, kwargs, n):
        t = self._text(args)
        self.puts.append(t)
        if self.line is UNKNOWN:
            if t.lstrip().startswith('#'):
                self.line = t           # a preprocessor directive can only start a line
        else:
            self.line += t
        if '\n' in t:
            self.line = t.rsplit('\n', 1)[1]
        it.event('put', self, t, n)
        return None

    def _putln(self, it, sym, args, kwargs, n):
        t = self._text(args)
        self.puts.append(t + '\n')
        whole = (self.line or '') + t
        m = re.match(r'\s*#\s*(if|ifdef|ifndef|else|elif|endif)\b', whole)
        if m:
            if m.group(1) in ('if', 'ifdef', 'ifndef'):
                self.pp.append(' '.join(whole.split()))
            elif m.group(1) == 'endif':
                if self.pp:
                    self.pp.pop()
            else:
                if self.pp:
                    self.pp[-1] = '#else of ' + self.pp[-1]
        self.line = ''
        it.event('putln', self, t, n)
        return None

    def _line(self, it, sym, args, kwargs, n):
        self.line = ''
        it.event('line', self, n)
        return None

    def _point(self, it, sym, args, kwargs, n):
        w = Writer('%s.insertion_point#%d' % (self.name, len(self.captures)), origin=(self.line, tuple(self.pp), n))
        self.captures.append(w)
        it.event('capture', self, w, n)
        return w

    def active(self):
        return not any(re.match(r'#\s*if\s+0\b', p) for p in self.pp)


def needle_methods(ix, cls):
    """names of methods (along the MRO of cls) that mention the collector protocol, directly or through self.<method>() calls"""
    meths = {}
    for k in reversed(ix.mro(cls)):
        meths.update(k.methods)
    direct = set()
    calls = {}
    for name, fn in meths.items():
        cs = set()
        for n in walk_no_nested(fn):
            if isinstance(n, ast.Attribute):
                if n.attr in NEEDLES:
                    direct.add(name)
                if isinstance(n.value, ast.Name) and fn.args.args and n.value.id == fn.args.args[0].arg and n.attr in meths:
                    cs.add(n.attr)
        calls[name] = cs
    changed = True
    while changed:
        changed = False
        for name, cs in calls.items():
            if name not in direct and cs & direct:
                direct.add(name)
                changed = True
    return direct


def temp_kinds():
    def ty(name, py, mv):
        return Sym('type:' + name, {'is_pyobject': py, 'is_memoryviewslice': mv, 'needs_refcounting': py or mv, 'is_memoryview_slice': mv,
                                    'is_int': not (py or mv), 'is_numeric': not (py or mv), 'is_ptr': False, 'is_struct': False, 'is_cpp_class': False})
    return [('__pyx_t_obj', ty('object', True, False), 'object'), ('__pyx_t_mvs', ty('memoryview', False, True), 'memoryview'),
            ('__pyx_t_c1', ty('int', False, False), 'C integer'), ('__pyx_t_c2', ty('int', False, False), 'second C integer')]


def region_paths(ix, cls, fn, fs, attr, world, allocator='allocate_temp'):
    """interpret one code-generating method of a parallel construct -> [(status, result dict, run)]"""
    needle = needle_methods(ix, cls)
    fs_inline = set()
    for k in ix.mro(fs):
        for name, f in k.methods.items():
            if name != allocator and any(isinstance(n, ast.Attribute) and n.attr == attr for n in walk_no_nested(f)):
                fs_inline.add(name)
    temps = temp_kinds()

    def thunk(run):
        state = {'where': None, 'body': 0}
        outer = set()
        funcstate = Obj(fs, {attr: [outer]}, 'funcstate')
        code = Writer('code')
        code.attrs['funcstate'] = funcstate

        def inline(obj, owner, f):
            if obj is funcstate:
                return f.name in fs_inline
            return f.name in needle

        it = Interp(ix, '%s.%s' % (cls.name, fn.name), inline=inline)
        it.run = run
        _orig_event = it.event

        def event(*e):
            # an un-interpreted call that receives a writer may emit any number of complete lines through it
            if e and e[0] in ('opaque', 'call'):
                args = e[3] if e[0] == 'opaque' else list(e[2]) + list(e[3].values())
                for a in args:
                    if isinstance(a, Writer):
                        a.line = UNKNOWN
            _orig_event(*e)
        it.event = event

        def body_hook(itp, sym, args, kwargs, n):
            state['body'] += 1
            st = funcstate.attrs.get(attr)
            if isinstance(st, list) and st and isinstance(st[-1], (set, list)):
                top = st[-1]
                for name, t, _ in temps:
                    (top.add if isinstance(top, set) else top.append)((name, t))
                state['where'] = top
            for a in args:
                if isinstance(a, Writer):
                    a.line = UNKNOWN
            itp.event('body', n)
            return None
        body = Sym('body', hooks={'generate_execution_code': body_hook})
        attrs = dict(world)
        attrs.update({'body': body, 'privatization_insertion_point': None})
        me = Obj(cls, attrs, 'self')
        a = fn.args
        params = [p.arg for p in a.posonlyargs + a.args][1:]
        kw = {p: Tok(p) for p in params}
        if params:
            kw[params[0]] = code
        it.call_function(fn, [], kw, selfobj=me)
        st = funcstate.attrs.get(attr)
        return {'stack_ok': isinstance(st, list) and len(st) == 1 and st[0] is outer, 'delegated': state['where'] is outer, 'where': state['where'],
                'body': state['body'], 'code': code, 'outer': outer}
    return _guard('%s.%s' % (cls.name, fn.name), lambda: explore(thunk, fn.name))


def _all_writers(code):
    out, todo = [], [code]
    while todo:
        w = todo.pop()
        out.append(w)
        todo.extend(w.captures)
    return out


def region_problems(paths, temps, label):
    """-> (instances [(key, sample)], problems {key: message}, infos)"""
    inst, probs, infos = {}, {}, set()
    npaths = 0
    for status, res, run in paths:
        if status != 'ok':
            continue
        npaths += 1
        when = path_text(run, 4)
        code = res['code']
        inst.setdefault('balance', 'collectors pushed = collectors popped')
        for name, t, kind in temps:
            inst.setdefault('clause:%s' % kind, 'a %s temp allocated while the body is generated' % kind)
        if not res['stack_ok']:
            probs.setdefault('balance', '%s: the collectors pushed by start_collecting_temps() and popped by stop_collecting_temps() do not balance on the path [%s]: the next '
                             'stop_collecting_temps() returns the wrong set and temporaries of an enclosing or following region are not privatised' % (label, when))
            continue
        if not res['body']:
            continue
        writers = _all_writers(code)
        opened = [e for e in run.events if e[0] == 'put' and e[1] is code and PRAGMA_PAR.match(e[2])]
        # is the `#pragma omp parallel` line emitted while an `#if 0` is open?
        active_parallel = False
        pp, line = [], ''
        for e in run.events:
            if e[0] == 'putln' and e[1] is code:
                t = e[2]
                m = re.match(r'\s*#\s*(if|ifdef|ifndef|endif)\b', t)
                if m and m.group(1) == 'endif':
                    if pp:
                        pp.pop()
                elif m:
                    pp.append(' '.join(t.split()))
            elif e[0] == 'put' and e[1] is code and PRAGMA_PAR.match(e[2]):
                if not any(re.match(r'#\s*if\s+0\b', p) for p in pp):
                    active_parallel = True
        clauses = {}        # temp name -> [(clause, writer)]
        for w in writers:
            text = ''.join(w.puts)
            for m in CLAUSE.finditer(text):
                for nm in m.group(2).split(','):
                    clauses.setdefault(nm.strip(), []).append((m.group(1), w))
        own = not res['delegated'] and res['where'] is not None
        for name, t, kind in temps:
            key = 'clause:%s' % kind
            if not own:
                if active_parallel:
                    probs.setdefault('collect', '%s opens its own `#pragma omp parallel` region, but on the path [%s] no collector of this method is active while the body is '
                                     'generated (start_collecting_temps() not called before self.body.generate_execution_code): the temporaries of the body are not listed in '
                                     'private()/firstprivate() and are shared by all threads' % (label, when))
                continue
            got = [(c, w) for c, w in clauses.get(name, []) if c in ('private', 'firstprivate')]
            if not got:
                probs.setdefault(key, '%s: on the path [%s] the %s temp collected for the region is not written into any private()/firstprivate() clause: it is shared by all '
                                 'threads of the region' % (label, when, kind))
                continue
            good = []
            for c, w in got:
                if w.origin is None:
                    probs.setdefault('place:' + kind, '%s: on the path [%s] the %s(%s) clause is written through the code writer after the region body, not through the insertion '
                                     'point on the `#pragma omp` line' % (label, when, c, name))
                elif w.origin[0] is UNKNOWN:
                    infos.add('%s: the insertion point that receives the privatisation clauses is captured after an un-interpreted call; its line is not known' % label)
                    good.append(c)
                elif not PRAGMA_OMP.match(w.origin[0]):
                    probs.setdefault('place:' + kind, '%s: on the path [%s] the %s(%s) clause is written through an insertion point that was captured when the open line was %r, '
                                     'not an open `#pragma omp` line: the clause does not become part of the directive' % (label, when, c, name, w.origin[0][:40]))
                elif any(re.match(r'#\s*if\s+0\b', p) for p in w.origin[1]) and active_parallel:
                    probs.setdefault('place:' + kind, '%s: on the path [%s] the %s(%s) clause is written to a directive inside `#if 0`' % (label, when, c, name))
                else:
                    good.append(c)
            if t.attrs['needs_refcounting'] and good and 'firstprivate' not in good:
                probs.setdefault('firstprivate:' + kind, '%s: on the path [%s] the %s temp is listed as private(), not firstprivate(): every thread starts with an uninitialised '
                                 'pointer which the error path and cleanup_temps XDECREF' % (label, when, kind))
    return inst, probs, infos, npaths


PC_REGION = '''
class FS:
    def start_collecting_temps(self):
        self.stack.append(set())
    def stop_collecting_temps(self):
        return self.stack.pop()

class Par:
    def gen_late(self, code):
        code.putln("#ifdef _OPENMP")
        code.put("#pragma omp parallel")
        self.privatization_insertion_point = code.insertion_point()
        code.putln("")
        code.putln("#endif")
        self.body.generate_execution_code(code)
        code.funcstate.start_collecting_temps()
        self.privatize(code)
    def gen_ok(self, code):
        code.putln("#ifdef _OPENMP")
        code.put("#pragma omp parallel")
        self.privatization_insertion_point = code.insertion_point()
        code.putln("")
        code.putln("#endif")
        code.funcstate.start_collecting_temps()
        self.body.generate_execution_code(code)
        self.privatize(code)
    def gen_nostop(self, code):
        code.put("#pragma omp parallel")
        self.privatization_insertion_point = code.insertion_point()
        code.putln("")
        code.funcstate.start_collecting_temps()
        self.body.generate_execution_code(code)
        if self.flag:
            self.privatize(code)
    def gen_allprivate(self, code):
        code.putln("#ifdef _OPENMP")
        code.put("#pragma omp parallel")
        self.privatization_insertion_point = code.insertion_point()
        code.putln("")
        code.putln("#endif")
        code.funcstate.start_collecting_temps()
        self.body.generate_execution_code(code)
        temps = code.funcstate.stop_collecting_temps()
        self.privatization_insertion_point.put(" private(%s)" % ", ".join(t for t, ty in sorted(temps)))
    def privatize(self, code):
        c = self.privatization_insertion_point
        temps = code.funcstate.stop_collecting_temps()
        first = [t for t, ty in sorted(temps) if ty.is_pyobject or ty.is_memoryviewslice]
        rest = [t for t, ty in sorted(temps) if not (ty.is_pyobject or ty.is_memoryviewslice)]
        if rest:
            c.put(" private(%s)" % ", ".join(rest))
        if first:
            c.put(" firstprivate(%s)" % ", ".join(first))
'''


class _MiniIndex2(_MiniIndex):
    def mro(self, c):
        return [_K(c)]


class _K:
    def __init__(self, c):
        self.methods = {m.name: m for m in c.body if isinstance(m, ast.FunctionDef)}


def rule_temppriv(ctx):
    r = Rule('C37-TEMPPRIV', 'parallel constructs: the temporaries allocated while the region body is generated are collected by a collector of the construct and every one '
             'of them is written into private()/firstprivate() through an insertion point on the `#pragma omp` line; object/memoryview temps are firstprivate; '
             'collectors balance on every path', floor=20)
    ix = ctx.index
    fs = ix.cls('Code', 'FunctionState')
    attr, _, _ = collector_attr(ix, fs)
    temps = temp_kinds()
    targets = [('ParallelWithBlockNode', 'generate_execution_code', [{'is_parallel': True}]),
               ('ParallelRangeNode', 'generate_loop', [{'is_parallel': p, 'is_nested_prange': n} for p in (True, False) for n in (False, True)])]
    regions = 0
    for cname, mname, worlds in targets:
        cls = ix.cls('Nodes', cname)
        res = ix.find_method(cls, mname)
        if res is None:
            raise AnalysisError('Nodes.%s.%s vanished' % (cname, mname))
        fn = res[1]
        for world in worlds:
            wl = ','.join('%s=%s' % kv for kv in sorted(world.items()))
            label = '%s.%s [%s]' % (cname, mname, wl)
            paths = region_paths(ix, cls, fn, fs, attr, world)
            inst, probs, infos, npaths = region_problems(paths, temps, label)
            if npaths == 0:
                raise AnalysisError('%s: no path could be interpreted' % label)
            for k, s in sorted(inst.items()):
                r.inst('priv:%s.%s:%s:%s' % (cname, mname, wl, k), sample='%s: %s (%d paths)' % (label, s, npaths))
            for k, m in sorted(probs.items()):
                r.violate('priv:%s.%s:%s:%s' % (cname, mname, wl, k), NODES, fn.lineno, m)
            for i in sorted(infos):
                r.info(i)
            if any(e[0] == 'put' and isinstance(e[1], Writer) and e[1].origin is None and PRAGMA_PAR.match(e[2]) for _, _, run in paths for e in run.events):
                regions += 1
    if regions < 2:
        raise AnalysisError('C37-TEMPPRIV: fewer than two worlds emit a `#pragma omp parallel` line (%d)' % regions)
    mi = _MiniIndex2(PC_REGION)
    f, p = mi.get('FS'), mi.get('Par')
    got = {}
    for m in ('gen_late', 'gen_ok', 'gen_allprivate', 'gen_nostop'):
        got[m] = sorted(region_problems(region_paths(mi, p, mi.find_method(p, m)[1], f, 'stack', {}), temps, m)[1])
    r.positive_control(got['gen_ok'] == [] and got['gen_late'] == ['collect'] and got['gen_nostop'] == ['balance']
                       and got['gen_allprivate'] == ['firstprivate:memoryview', 'firstprivate:object'],
                       'collector started after the body / object temps listed as private are reported; the correct bracket is not (%s)' % got)
    return r
