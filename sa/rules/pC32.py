"""Helpers for C32 (and C36): a small path-enumerating abstract evaluator for *decision functions* of the code generator.

The evaluator walks the statements of one Python function (or one block of it) of the repository **as an AST** and
enumerates its paths for ONE point of a finite domain supplied by the client (the `oracle`): attribute paths such as
`func_type.exception_check` or calls such as `self.error_value()` get the value the domain point prescribes, every other
value is opaque.  Emitted C text is kept as a template (`Str`: constant pieces and opaque pieces), lists that are built
with `[]`/`.append` are kept as tuples, calls are kept symbolically and logged as events in evaluation order.  Tests
whose truth is not determined fork the path.  Nothing from /repo is imported or executed; the evaluator understands only
the handful of statement and expression forms that occur in table-like decision code and turns everything else into an
opaque value, so it extracts the *decision table* of such a function over its complete finite domain.
"""
import ast, re

from ..core import AnalysisError, node_src

NOTFOUND = object()


class Unk:
    """An undetermined value."""
    def __repr__(self):
        return '?'


UNK = Unk()


class Obj:
    """Opaque object reached through an access path; truth: True (never None/empty), False, or None (not known)."""
    __slots__ = ('path', 'truth')

    def __init__(self, path, truth=None):
        self.path, self.truth = path, truth

    def __repr__(self):
        return '<%s>' % self.path

    def __eq__(self, other):
        return isinstance(other, Obj) and other.path == self.path

    def __hash__(self):
        return hash(('Obj', self.path))


class Fresh(Obj):
    """A domain value that is different from every other value (a declared sentinel, a result variable)."""
    __slots__ = ()

    def __init__(self, path):
        Obj.__init__(self, path, True)

    def __eq__(self, other):
        return other is self

    def __hash__(self):
        return id(self)


class Call:
    """Symbolic result of a call."""
    __slots__ = ('func', 'args', 'kwargs', 'node', 'recv')

    def __init__(self, func, args, kwargs, node, recv=None):
        self.func, self.args, self.kwargs, self.node, self.recv = func, tuple(args), dict(kwargs), node, recv

    @property
    def name(self):
        return self.func.rsplit('.', 1)[-1]

    def __repr__(self):
        return '%s(%s)' % (self.func, ', '.join([repr(a) for a in self.args] + ['%s=%r' % kv for kv in self.kwargs.items()]))


class Item:
    """i-th element of an opaque tuple-returning call."""
    __slots__ = ('base', 'index')

    def __init__(self, base, index):
        self.base, self.index = base, index

    def __repr__(self):
        return '%r[%d]' % (self.base, self.index)


class Str:
    """Emitted text: tuple of parts, each a python str (constant text) or an abstract value."""
    __slots__ = ('parts',)

    def __init__(self, parts):
        flat = []
        for p in parts:
            if isinstance(p, Str):
                flat.extend(p.parts)
            elif isinstance(p, str):
                if p:
                    if flat and isinstance(flat[-1], str):
                        flat[-1] += p
                    else:
                        flat.append(p)
            else:
                flat.append(p)
        self.parts = tuple(flat)

    def text(self, ph='§'):
        return ''.join(p if isinstance(p, str) else ph for p in self.parts)

    def values(self):
        return [p for p in self.parts if not isinstance(p, str)]

    def __repr__(self):
        return 'Str(%s)' % ''.join(p if isinstance(p, str) else '{%r}' % (p,) for p in self.parts)


class Lst:
    __slots__ = ('items',)

    def __init__(self, items=()):
        self.items = tuple(items)

    def __repr__(self):
        return 'Lst%r' % (self.items,)


class Path:
    """Result of one enumerated path."""
    __slots__ = ('env', 'events', 'ret', 'kind', 'assumed')

    def __init__(self, env, events, ret, kind, assumed):
        self.env, self.events, self.ret, self.kind, self.assumed = env, events, ret, kind, assumed

    def calls(self, *names):
        return [e for e in self.events if isinstance(e, Call) and e.name in names]


class _State:
    __slots__ = ('env', 'events', 'assumed')

    def __init__(self, env, events=(), assumed=()):
        self.env, self.events, self.assumed = dict(env), list(events), dict(assumed)

    def copy(self):
        return _State(self.env, self.events, self.assumed)


def truth(v):
    """True / False / None(unknown)."""
    if v is None or v is False:
        return False
    if v is True:
        return True
    if isinstance(v, (int, float)):
        return bool(v)
    if isinstance(v, str):
        return bool(v)
    if isinstance(v, tuple):
        return bool(v)
    if isinstance(v, Lst):
        return bool(v.items)
    if isinstance(v, Str):
        if any(isinstance(p, str) and p for p in v.parts):
            return True
        return None if v.parts else False
    if isinstance(v, Obj):
        return v.truth
    return None


def is_none(v):
    """True / False / None(unknown) for `v is None`."""
    if v is None:
        return True
    if isinstance(v, (bool, int, float, str, tuple, Lst, Str)):
        return False
    if isinstance(v, Obj):
        return False if v.truth else None
    return None


_FMT = re.compile(r'%(?:\((\w+)\))?[-#0 +]*(?:\d+|\*)?(?:\.\d+)?([diouxXeEfFgGcrsa%])')


class Evaluator:
    """oracle(path) -> value | NOTFOUND for attribute paths and names;
    call_oracle(func_path, args, kwargs) -> value | NOTFOUND for call results;
    relevant(stmt) -> bool: an `if` with an undetermined test forks only when relevant (otherwise both branches are
    skipped and the names they assign become unknown).  `sensitive(call_name)` names calls that must never sit in a skipped region."""

    MAX_PATHS = 4096

    def __init__(self, oracle=None, call_oracle=None, relevant=None, sensitive=None, what='function'):
        self.oracle = oracle or (lambda p: NOTFOUND)
        self.call_oracle = call_oracle or (lambda f, a, k: NOTFOUND)
        self.relevant = relevant
        self.sensitive = sensitive or (lambda n: False)
        self.what = what
        self.paths = []

    # ------------------------------------------------------------------ expressions
    def path_of(self, v):
        return v.path if isinstance(v, Obj) else None

    def ev(self, e, st):
        if isinstance(e, ast.Constant):
            return e.value
        if isinstance(e, ast.Name):
            if e.id in st.env:
                return st.env[e.id]
            o = self.oracle(e.id)
            return Obj(e.id) if o is NOTFOUND else o
        if isinstance(e, ast.Attribute):
            base = self.ev(e.value, st)
            if isinstance(base, Obj):
                p = base.path + '.' + e.attr
                o = self.oracle(p)
                return Obj(p) if o is NOTFOUND else o
            return UNK
        if isinstance(e, ast.JoinedStr):
            parts = []
            for v in e.values:
                if isinstance(v, ast.Constant):
                    parts.append(v.value)
                else:
                    parts.append(self._as_part(self.ev(v.value, st)))
            return Str(parts)
        if isinstance(e, ast.BinOp):
            if isinstance(e.op, ast.Mod):
                left = self.ev(e.left, st)
                if isinstance(left, (str, Str)):
                    return self._percent(left, e.right, st)
                self.ev(e.right, st)
                return UNK
            if isinstance(e.op, ast.Add):
                a, b = self.ev(e.left, st), self.ev(e.right, st)
                if isinstance(a, (str, Str)) and isinstance(b, (str, Str)):
                    return Str([a, b])
                if (isinstance(a, (str, Str)) and isinstance(b, (Call, Obj, Item))) or (isinstance(b, (str, Str)) and isinstance(a, (Call, Obj, Item))):
                    return Str([a, b])       # text + (opaque text)
                if isinstance(a, Lst) and isinstance(b, Lst):
                    return Lst(a.items + b.items)
                return UNK
            self.ev(e.left, st)
            self.ev(e.right, st)
            return UNK
        if isinstance(e, ast.UnaryOp):
            v = self.ev(e.operand, st)
            if isinstance(e.op, ast.Not):
                t = truth(v)
                return UNK if t is None else (not t)
            if isinstance(e.op, ast.USub) and isinstance(v, (int, float)):
                return -v
            return UNK
        if isinstance(e, ast.BoolOp):
            is_and = isinstance(e.op, ast.And)
            unknown = False
            last = None
            for sub in e.values:
                last = self.ev(sub, st)
                t = truth(last)
                if t is None:
                    unknown = True
                    continue
                if is_and and not t:
                    return UNK if unknown else last
                if not is_and and t:
                    return UNK if unknown else last
            return UNK if unknown else last
        if isinstance(e, ast.Compare):
            left = self.ev(e.left, st)
            res = True
            for op, c in zip(e.ops, e.comparators):
                right = self.ev(c, st)
                r = self._cmp(op, left, right)
                if r is None:
                    return UNK
                if not r:
                    res = False
                left = right
            return res
        if isinstance(e, ast.IfExp):
            t = truth(self.ev(e.test, st))
            if t is None:
                a, b = self.ev(e.body, st), self.ev(e.orelse, st)
                return a if repr(a) == repr(b) else UNK
            return self.ev(e.body if t else e.orelse, st)
        if isinstance(e, (ast.Tuple,)):
            return tuple(self.ev(x, st) for x in e.elts)
        if isinstance(e, ast.List):
            return Lst(self.ev(x, st) for x in e.elts)
        if isinstance(e, ast.Call):
            return self._call(e, st)
        if isinstance(e, ast.Subscript):
            base = self.ev(e.value, st)
            idx = self.ev(e.slice, st) if not isinstance(e.slice, ast.Slice) else UNK
            if isinstance(base, (tuple,)) and isinstance(idx, int) and -len(base) <= idx < len(base):
                return base[idx]
            if isinstance(base, Lst) and isinstance(idx, int) and -len(base.items) <= idx < len(base.items):
                return base.items[idx]
            if isinstance(base, Obj) and isinstance(idx, (str, int)):
                p = '%s[%r]' % (base.path, idx)
                o = self.oracle(p)
                return Obj(p) if o is NOTFOUND else o
            return UNK
        if isinstance(e, ast.NamedExpr):
            v = self.ev(e.value, st)
            self._bind(e.target, v, st)
            return v
        if isinstance(e, (ast.Dict, ast.Set, ast.ListComp, ast.SetComp, ast.DictComp, ast.GeneratorExp, ast.Lambda, ast.Starred)):
            return UNK
        return UNK

    @staticmethod
    def _as_part(v):
        if isinstance(v, (str, Str)):
            return v
        if v is None or isinstance(v, (bool, int, float)):
            return str(v)
        return v

    def _percent(self, left, right, st):
        fmt = left if isinstance(left, str) else None
        if fmt is None:
            # a template that already has opaque pieces: only constant pieces may contain conversion specs
            fmt_parts = left.parts
        else:
            fmt_parts = (fmt,)
        if isinstance(right, ast.Tuple):
            args = [self.ev(x, st) for x in right.elts]
            mapping = None
        elif isinstance(right, ast.Dict):
            mapping = {}
            for k, v in zip(right.keys, right.values):
                kk = self.ev(k, st) if k is not None else None
                mapping[kk] = self.ev(v, st)
            args = []
        else:
            v = self.ev(right, st)
            args = list(v) if isinstance(v, tuple) else [v]
            mapping = None
        out, ai = [], 0
        for piece in fmt_parts:
            if not isinstance(piece, str):
                out.append(piece)
                continue
            pos = 0
            for m in _FMT.finditer(piece):
                out.append(piece[pos:m.start()])
                pos = m.end()
                if m.group(2) == '%':
                    out.append('%')
                elif m.group(1) is not None:
                    out.append(self._as_part(mapping.get(m.group(1), UNK)) if mapping is not None else UNK)
                else:
                    out.append(self._as_part(args[ai]) if ai < len(args) else UNK)
                    ai += 1
            out.append(piece[pos:])
        return Str(out)

    @staticmethod
    def _cmp(op, a, b):
        if isinstance(op, (ast.Is, ast.IsNot)):
            if b is None or a is None:
                other = a if b is None else b
                r = is_none(other)
                if r is None:
                    return None
                return r if isinstance(op, ast.Is) else not r
            if isinstance(a, Obj) and isinstance(b, Obj) and a.path == b.path:
                return isinstance(op, ast.Is)
            return None
        concrete = (bool, int, float, str, type(None))
        if isinstance(op, (ast.Eq, ast.NotEq)):
            if (isinstance(a, Fresh) or isinstance(b, Fresh)) and not isinstance(a, Unk) and not isinstance(b, Unk):
                return (a is b) if isinstance(op, ast.Eq) else (a is not b)
            if isinstance(a, concrete) and isinstance(b, concrete):
                return (a == b) if isinstance(op, ast.Eq) else (a != b)
            if isinstance(a, Obj) and isinstance(b, Obj) and a.path == b.path:
                return isinstance(op, ast.Eq)
            return None
        if isinstance(op, (ast.Lt, ast.LtE, ast.Gt, ast.GtE)):
            if isinstance(a, (int, float)) and isinstance(b, (int, float)):
                return {ast.Lt: a < b, ast.LtE: a <= b, ast.Gt: a > b, ast.GtE: a >= b}[type(op)]
            return None
        if isinstance(op, (ast.In, ast.NotIn)):
            if isinstance(a, concrete) and isinstance(b, tuple) and all(isinstance(x, concrete) for x in b):
                return (a in b) if isinstance(op, ast.In) else (a not in b)
            if isinstance(a, str) and isinstance(b, str):
                return (a in b) if isinstance(op, ast.In) else (a not in b)
            return None
        return None

    def _func_path(self, f, st):
        """(path text, receiver value)"""
        if isinstance(f, ast.Name):
            v = st.env.get(f.id)
            return (v.path if isinstance(v, Obj) else f.id), None
        if isinstance(f, ast.Attribute):
            recv = self.ev(f.value, st)
            if isinstance(recv, Obj):
                return recv.path + '.' + f.attr, recv
            if isinstance(f.value, ast.Call) and isinstance(f.value.func, ast.Name) and f.value.func.id == 'super':
                return 'super().' + f.attr, recv
            return '?.' + f.attr, recv
        return '?', None

    def _call(self, e, st):
        f = e.func
        # " && ".join(list)
        if isinstance(f, ast.Attribute) and f.attr == 'join' and len(e.args) == 1 and not e.keywords:
            sep = self.ev(f.value, st)
            seq = self.ev(e.args[0], st)
            if isinstance(sep, str) and isinstance(seq, (Lst, tuple)):
                items = seq.items if isinstance(seq, Lst) else seq
                parts = []
                for i, it in enumerate(items):
                    if i:
                        parts.append(sep)
                    parts.append(self._as_part(it))
                c = Call('str.join', (sep, seq), {}, e)
                st.events.append(c)
                return Str(parts)
        path, recv = self._func_path(f, st)
        args = [self.ev(a.value if isinstance(a, ast.Starred) else a, st) for a in e.args]
        kwargs = {k.arg: self.ev(k.value, st) for k in e.keywords if k.arg}
        for k in e.keywords:
            if not k.arg:
                self.ev(k.value, st)
        c = Call(path, args, kwargs, e, recv)
        # list mutation through a local name
        if isinstance(f, ast.Attribute) and isinstance(f.value, ast.Name) and isinstance(st.env.get(f.value.id), Lst):
            if f.attr == 'append' and len(args) == 1:
                st.env[f.value.id] = Lst(st.env[f.value.id].items + (args[0],))
                st.events.append(c)
                return None
            if f.attr in ('extend', 'insert', 'pop', 'remove', 'clear', 'sort', 'reverse'):
                st.env[f.value.id] = UNK
                st.events.append(c)
                return UNK
        if isinstance(f, ast.Name) and f.id == 'str' and len(args) == 1 and isinstance(args[0], (str, Str)):
            return args[0]
        if isinstance(f, ast.Name) and f.id == 'len' and len(args) == 1 and f.id not in st.env:
            if isinstance(args[0], Lst):
                return len(args[0].items)
            if isinstance(args[0], (tuple, str)):
                return len(args[0])
        if isinstance(f, ast.Name) and f.id == 'bool' and len(args) == 1 and f.id not in st.env:
            t = truth(args[0])
            if t is not None:
                return t
        st.events.append(c)
        o = self.call_oracle(path, args, kwargs)
        if o is not NOTFOUND:
            return o
        return c

    # ------------------------------------------------------------------ statements
    def _bind(self, target, v, st):
        if isinstance(target, ast.Name):
            st.env[target.id] = v
            self._forget(target.id, st)
        elif isinstance(target, (ast.Tuple, ast.List)):
            n = len(target.elts)
            if isinstance(v, tuple) and len(v) == n:
                for t, x in zip(target.elts, v):
                    self._bind(t, x, st)
            else:
                for i, t in enumerate(target.elts):
                    self._bind(t, Item(v, i) if isinstance(v, Call) else UNK, st)
        elif isinstance(target, ast.Starred):
            self._bind(target.value, UNK, st)
        else:
            # attribute / subscript store: evaluate for the record, do not model the heap
            for sub in ast.iter_child_nodes(target):
                if isinstance(sub, ast.expr):
                    self.ev(sub, st)

    @staticmethod
    def _forget(name, st):
        pat = re.compile(r'\b%s\b' % re.escape(name))
        for k in [k for k in st.assumed if pat.search(k)]:
            del st.assumed[k]

    def _assigned(self, stmts):
        out = set()
        for s in stmts:
            for n in ast.walk(s):
                if isinstance(n, ast.Name) and isinstance(n.ctx, (ast.Store, ast.Del)):
                    out.add(n.id)
                elif isinstance(n, ast.Call) and isinstance(n.func, ast.Attribute) and isinstance(n.func.value, ast.Name) and \
                        n.func.attr in ('append', 'extend', 'insert', 'pop', 'remove', 'clear'):
                    out.add(n.func.value.id)
        return out

    def _has_sensitive(self, stmts):
        for s in stmts:
            for n in ast.walk(s):
                if isinstance(n, ast.Call):
                    nm = n.func.attr if isinstance(n.func, ast.Attribute) else n.func.id if isinstance(n.func, ast.Name) else None
                    if nm and self.sensitive(nm):
                        return n
                if isinstance(n, ast.Return):
                    return n
        return None

    def _havoc(self, stmts, st, why):
        bad = self._has_sensitive(stmts)
        if bad is not None:
            raise AnalysisError('%s: %s at line %d sits inside %s, which the decision-table evaluator does not model' % (
                self.what, node_src(bad, 60), bad.lineno, why))
        for n in self._assigned(stmts):
            st.env[n] = UNK
            self._forget(n, st)

    def _test(self, test, st):
        """-> list of (truth, state)"""
        neg = False
        core = test
        while isinstance(core, ast.UnaryOp) and isinstance(core.op, ast.Not):
            neg = not neg
            core = core.operand
        key = ' '.join(ast.unparse(core).split())
        if key in st.assumed:
            return [(st.assumed[key] != neg, st)]
        v = self.ev(test, st)
        t = truth(v)
        if t is not None:
            return [(t, st)]
        out = []
        for b in (True, False):
            s2 = st.copy()
            s2.assumed[key] = (b != neg)
            # `a and b` true / `a or b` false fix the components
            self._decompose(core, b != neg, s2)
            out.append((b, s2))
        return out

    def _decompose(self, e, tr, st):
        if isinstance(e, ast.UnaryOp) and isinstance(e.op, ast.Not):
            self._decompose(e.operand, not tr, st)
        elif isinstance(e, ast.BoolOp):
            if (isinstance(e.op, ast.And) and tr) or (isinstance(e.op, ast.Or) and not tr):
                for v in e.values:
                    self._decompose(v, tr, st)
        else:
            st.assumed[' '.join(ast.unparse(e).split())] = tr
            # a name tested for truth / None-ness gets the matching abstract value
            if isinstance(e, ast.Name) and isinstance(st.env.get(e.id, UNK), (Unk, Obj, Call, Item)):
                cur = st.env.get(e.id, UNK)
                if tr:
                    st.env[e.id] = Obj(getattr(cur, 'path', None) or '#' + e.id, True) if not isinstance(cur, (Call, Item)) else cur
            if isinstance(e, ast.Compare) and len(e.ops) == 1 and isinstance(e.left, ast.Name) and \
                    isinstance(e.comparators[0], ast.Constant) and e.comparators[0].value is None:
                isnone = isinstance(e.ops[0], ast.Is) == tr
                if isnone and not isinstance(st.env.get(e.left.id), (Call,)):
                    st.env[e.left.id] = None

    def run_block(self, stmts, env=None):
        self.paths = []
        st = _State(env or {})
        for end in self._block(list(stmts), st):
            self.paths.append(Path(end.env, end.events, None, 'normal', end.assumed))
        return self.paths

    def run_function(self, fn, env=None):
        e = {}
        for a in fn.args.posonlyargs + fn.args.args + fn.args.kwonlyargs:
            o = self.oracle(a.arg)
            e[a.arg] = Obj(a.arg) if o is NOTFOUND else o
        if fn.args.vararg:
            e[fn.args.vararg.arg] = UNK
        if fn.args.kwarg:
            e[fn.args.kwarg.arg] = UNK
        e.update(env or {})
        return self.run_block(fn.body, e)

    def _finish(self, st, ret, kind):
        if len(self.paths) >= self.MAX_PATHS:
            raise AnalysisError('%s: more than %d paths' % (self.what, self.MAX_PATHS))
        self.paths.append(Path(st.env, st.events, ret, kind, st.assumed))

    def _block(self, stmts, st):
        """Run statements; yields the states that fall off the end.  Paths ending in return/raise are recorded."""
        states = [st]
        for s in stmts:
            nxt = []
            for cur in states:
                nxt.extend(self._stmt(s, cur))
            states = nxt
            if len(states) > self.MAX_PATHS:
                raise AnalysisError('%s: more than %d paths' % (self.what, self.MAX_PATHS))
            if not states:
                break
        return states

    def _stmt(self, s, st):
        if isinstance(s, ast.Assign):
            v = self.ev(s.value, st)
            for t in s.targets:
                self._bind(t, v, st)
            return [st]
        if isinstance(s, ast.AnnAssign):
            if s.value is not None:
                self._bind(s.target, self.ev(s.value, st), st)
            return [st]
        if isinstance(s, ast.AugAssign):
            v = self.ev(s.value, st)
            if isinstance(s.target, ast.Name):
                cur = st.env.get(s.target.id, UNK)
                if isinstance(s.op, ast.Add) and isinstance(cur, (str, Str)) and isinstance(v, (str, Str)):
                    st.env[s.target.id] = Str([cur, v])
                elif isinstance(s.op, ast.Add) and isinstance(cur, Lst) and isinstance(v, Lst):
                    st.env[s.target.id] = Lst(cur.items + v.items)
                else:
                    st.env[s.target.id] = UNK
                self._forget(s.target.id, st)
            return [st]
        if isinstance(s, ast.Expr):
            self.ev(s.value, st)
            return [st]
        if isinstance(s, ast.If):
            if self.relevant is not None and not self.relevant(s):
                t = truth(self.ev(s.test, st.copy()))
                if t is None:
                    self._havoc([s], st, 'a branch skipped as irrelevant')
                    return [st]
            out = []
            for t, s2 in self._test(s.test, st):
                out.extend(self._block(s.body if t else s.orelse, s2))
            return out
        if isinstance(s, ast.Return):
            v = self.ev(s.value, st) if s.value is not None else None
            self._finish(st, v, 'return')
            return []
        if isinstance(s, ast.Raise):
            self._finish(st, None, 'raise')
            return []
        if isinstance(s, ast.Assert):
            out = []
            t = truth(self.ev(s.test, st))
            if t is False:
                self._finish(st, None, 'raise')
                return []
            return [st]
        if isinstance(s, (ast.For, ast.While, ast.AsyncFor)):
            if isinstance(s, ast.For):
                self.ev(s.iter, st)
            self._havoc([s], st, 'a loop')
            return [st]
        if isinstance(s, (ast.With, ast.AsyncWith)):
            for it in s.items:
                self.ev(it.context_expr, st)
                if it.optional_vars is not None:
                    self._bind(it.optional_vars, UNK, st)
            return self._block(s.body, st)
        if isinstance(s, ast.Try):
            out = self._block(s.body, st)
            res = []
            for o in out:
                res.extend(self._block(s.orelse, o) if s.orelse else [o])
            if s.finalbody:
                fin = []
                for o in res:
                    fin.extend(self._block(s.finalbody, o))
                res = fin
            return res
        if isinstance(s, (ast.FunctionDef, ast.AsyncFunctionDef, ast.ClassDef)):
            st.env[s.name] = Obj(s.name, True)
            return [st]
        if isinstance(s, (ast.Import, ast.ImportFrom)):
            for a in s.names:
                nm = (a.asname or a.name).split('.')[0]
                st.env[nm] = Obj(nm, True)
            return [st]
        if isinstance(s, (ast.Pass, ast.Global, ast.Nonlocal, ast.Delete, ast.Break, ast.Continue)):
            return [st]
        if isinstance(s, ast.Match):
            self._havoc([s], st, 'a match statement')
            return [st]
        return [st]


# ====================================================================================== C condition text
def strip_parens(s):
    s = s.strip()
    while s.startswith('(') and s.endswith(')'):
        depth = 0
        ok = True
        for i, ch in enumerate(s):
            if ch == '(':
                depth += 1
            elif ch == ')':
                depth -= 1
                if depth == 0 and i != len(s) - 1:
                    ok = False
                    break
        if not ok:
            break
        s = s[1:-1].strip()
    return s


def split_top(s, ops=('&&', '||')):
    """Split a C expression at top-level binary logical operators -> (operands, operators)."""
    s = strip_parens(s)
    depth, i, last = 0, 0, 0
    operands, found = [], []
    while i < len(s):
        ch = s[i]
        if ch in '([{':
            depth += 1
        elif ch in ')]}':
            depth -= 1
        elif ch in '"\'':
            j = i + 1
            while j < len(s) and s[j] != ch:
                j += 2 if s[j] == '\\' else 1
            i = j
        elif depth == 0 and s[i:i + 2] in ops:
            operands.append(s[last:i].strip())
            found.append(s[i:i + 2])
            i += 2
            last = i
            continue
        i += 1
    operands.append(s[last:].strip())
    return operands, found


def conjuncts(s):
    """Flatten nested top-level && ; returns (list of conjunct texts, set of other logical operators seen at a conjunction level)."""
    ops_seen = set()
    out = []

    def rec(t):
        parts, ops = split_top(t)
        if not ops:
            out.append(strip_parens(parts[0]))
            return
        if set(ops) == {'&&'}:
            for p in parts:
                rec(p)
        else:
            ops_seen.update(o for o in ops if o != '&&')
            out.append(strip_parens(t))
    rec(s)
    return out, ops_seen


def unwrap_calls(s, names=('unlikely', 'likely', '__builtin_expect')):
    """Remove branch-prediction wrappers around a condition text."""
    s = strip_parens(s)
    while True:
        m = re.match(r'(\w+)\s*\((.*)\)$', s, re.S)
        if m and m.group(1) in names and strip_parens('(' + m.group(2) + ')') == strip_parens(m.group(2)) and _balanced(m.group(2)):
            s = strip_parens(m.group(2))
            continue
        return s


def _balanced(t):
    d = 0
    for ch in t:
        if ch == '(':
            d += 1
        elif ch == ')':
            d -= 1
            if d < 0:
                return False
    return d == 0
