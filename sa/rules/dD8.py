"""C43 - rules written from defects D8 (literal-focused inputs: values of literals that reach the C file or a host-Python conversion).

C43-BITWIDTH   every C bit-field declaration the code generator writes from a template (`<int type> <name> : {width}` in an f-string, or
               `... : %d` in a %-format) gets a width whose *lower bound* is >= 1 (C11 6.7.2.1p4: a named bit-field of width 0 is a constraint
               violation).  The width expression is evaluated over the interval abstraction [lb, +inf): constants, max()/min(), len() >= 0,
               X.bit_length() (0 for X == 0), `X or c`, conditional expressions, +, *, and local names through *all* their assignments in the
               function (monotone updates `n = max(n, e)` cannot lower the bound; loop targets / parameters are unknown).  max(<list>) of a
               list built as list(map(len, ...)) / [len(..) for ..] has element bound 0.  Unknown bound -> info, never a guess.
C43-CFLOAT     a Python float converted to text (repr / str / %-format / f-string) spells three of its four value classes {finite, +inf, -inf,
               nan} as `inf`, `-inf`, `nan`, none of which is a C expression.  In the methods that produce C code (calculate_result_code,
               generate_*, get_constant_c_result_code, *_c_code and the helpers they call on self) such a text must not be interpolated into
               a string or returned, unless the function branches on the non-finite classes (comparison of the text with 'inf'/'nan'
               constants, math.isinf / isnan / isfinite, or the x != x idiom).  Value flow: float(...) calls, locals bound to them, texts made
               from them, methods of the same module that return such a text.
C43-INTLIMIT   typestate of INT token text: the parser function that stores token text (s.systring and locals derived from it) as the value
               of an IntNode must first *probe* it - a conversion call on that text inside `try` with a handler for ValueError (or wider) that
               reports an error - because every later consumer (IntNode methods, Utils.long_literal, the constant table in Code.py) converts
               the text with int(), which raises ValueError beyond sys.get_int_max_str_digits() digits, and none of them is guarded.
               The obligation is void if the shared converter itself guards its int() calls or lifts the limit.
C43-NESTDEPTH  (no repair available: reported as a known finding) the recursive-descent parser needs `cycle` interpreter frames per nesting
               level of a parenthesised / bracketed expression, where `cycle` is at least the length of the shortest call cycle through the
               atom parser in Parsing.py's static call graph (function-valued arguments count as calls by the passing function).  With the
               default recursion limit (1000) and the nesting CPython itself accepts (100 levels, tokenizer MAXLEVEL is 200) the necessary
               condition  cycle * 100 < limit  must hold unless the compiler raises the limit (sys.setrecursionlimit in Cython/Compiler or
               Cython/Utils.py) or converts RecursionError into a positioned error.
C43-DOCTYPE    the docstring slot of def / class nodes is consumed as str.  Domain: the node classes of ExprNodes with is_string_literal = True,
               value kind (bytes / str) from their `type` class attribute.  For each function of Parsing.py that tests .is_string_literal and
               takes <var>.value, every (binding of var, use of var.value) pair is decided per class by three-valued evaluation of the path
               conditions (isinstance through the class graph, `is None`, early returns): a bytes-valued class for which binding and use are
               jointly possible is a violation (`def f(): b'x'` crashed AutoTestDictTransform).
Static only: ASTs of the repository sources; nothing is imported or run.
"""
import ast
import os
import re

from ..core import Rule, AnalysisError


def _u(n):
    return ' '.join(ast.unparse(n).split())


def _compiler_files(ctx):
    d = ctx.path('Cython/Compiler')
    if not os.path.isdir(d):
        raise AnalysisError('Cython/Compiler missing')
    return ['Cython/Compiler/' + f for f in sorted(os.listdir(d)) if f.endswith('.py')]


def _functions(tree):
    """(qualified name, FunctionDef, class name or None) for every function, methods included, nested functions with a dotted name."""
    out = []

    def rec(node, prefix, cls):
        for ch in ast.iter_child_nodes(node):
            if isinstance(ch, (ast.FunctionDef, ast.AsyncFunctionDef)):
                out.append((prefix + ch.name, ch, cls))
                rec(ch, prefix + ch.name + '.', cls)
            elif isinstance(ch, ast.ClassDef):
                rec(ch, prefix + ch.name + '.', ch.name)
            else:
                rec(ch, prefix, cls)
    rec(tree, '', None)
    return out


def _own_nodes(fn):
    """Nodes of a function body without nested function / class bodies."""
    stack = list(fn.body)
    while stack:
        n = stack.pop()
        yield n
        for ch in ast.iter_child_nodes(n):
            if not isinstance(ch, (ast.FunctionDef, ast.AsyncFunctionDef, ast.ClassDef, ast.Lambda)):
                stack.append(ch)


# ====================================================================================================== C43-BITWIDTH
_BITFIELD = re.compile(r'(?:\b(?:unsigned|signed|int|char|short|long|bool|_Bool|\w+_t)\b[\s\w]*?)\b[A-Za-z_]\w*\s*:\s*$')
INF = float('inf')


class _LB:
    """Lower bounds of integer expressions inside one function."""

    def __init__(self, fn):
        self.fn = fn
        self.assigns = {}          # name -> [value expr or None (unknown binding)]
        params = {a.arg for a in fn.args.args + fn.args.kwonlyargs + fn.args.posonlyargs}
        if fn.args.vararg:
            params.add(fn.args.vararg.arg)
        if fn.args.kwarg:
            params.add(fn.args.kwarg.arg)
        for p in params:
            self.assigns.setdefault(p, []).append(None)
        for n in _own_nodes(fn):
            if isinstance(n, ast.Assign):
                for t in n.targets:
                    self._bind(t, n.value)
            elif isinstance(n, ast.AnnAssign) and n.value is not None:
                self._bind(n.target, n.value)
            elif isinstance(n, ast.AugAssign):
                if isinstance(n.target, ast.Name):
                    self.assigns.setdefault(n.target.id, []).append(ast.BinOp(left=ast.Name(id=n.target.id, ctx=ast.Load()), op=n.op, right=n.value))
            elif isinstance(n, (ast.For, ast.AsyncFor)):
                self._bind(n.target, None)
            elif isinstance(n, ast.comprehension):
                self._bind(n.target, None)
            elif isinstance(n, (ast.With, ast.AsyncWith)):
                for it in n.items:
                    if it.optional_vars is not None:
                        self._bind(it.optional_vars, None)
            elif isinstance(n, ast.NamedExpr):
                self._bind(n.target, n.value)
        self._busy = {}

    def _bind(self, target, value):
        if isinstance(target, ast.Name):
            self.assigns.setdefault(target.id, []).append(value)
        elif isinstance(target, (ast.Tuple, ast.List)):
            for e in target.elts:
                self._bind(e, None)
        elif isinstance(target, ast.Starred):
            self._bind(target.value, None)

    # -- scalar lower bound: int, or None = unknown
    def lb(self, e):
        if isinstance(e, ast.Constant):
            if isinstance(e.value, bool) or not isinstance(e.value, int):
                return None
            return e.value
        if isinstance(e, ast.Name):
            return self._name(e.id)
        if isinstance(e, ast.Call):
            f = e.func
            if isinstance(f, ast.Name) and f.id == 'len' and not e.keywords:
                return 0
            if isinstance(f, ast.Name) and f.id == 'max' and e.args:
                if len(e.args) == 1 and not isinstance(e.args[0], ast.Starred):
                    dflt = [k.value for k in e.keywords if k.arg == 'default']
                    el = self.elem_lb(e.args[0])
                    if dflt:
                        d = self.lb(dflt[0])
                        return None if el is None or d is None else min(el, d)
                    return el
                known = [v for v in (self.lb(a) for a in e.args if not isinstance(a, ast.Starred)) if v is not None]
                return max(known) if known else None
            if isinstance(f, ast.Name) and f.id == 'min' and len(e.args) >= 2:
                vals = [self.lb(a) for a in e.args]
                return None if any(v is None for v in vals) else min(vals)
            if isinstance(f, ast.Attribute) and f.attr == 'bit_length' and not e.args:
                v = self.lb(f.value)
                if v is None:
                    return None        # undecided (reported as info), although bit_length() itself is never negative
                return v.bit_length() if v > 0 else 0
            if isinstance(f, ast.Name) and f.id == 'abs' and len(e.args) == 1:
                v = self.lb(e.args[0])
                return v if v is not None and v >= 0 else 0
            return None
        if isinstance(e, ast.BinOp):
            a, b = self.lb(e.left), self.lb(e.right)
            if isinstance(e.op, ast.Add):
                return None if a is None or b is None else a + b
            if isinstance(e.op, ast.Mult):
                return a * b if a is not None and b is not None and a >= 0 and b >= 0 else None
            if isinstance(e.op, ast.Sub) and isinstance(e.right, ast.Constant) and isinstance(e.right.value, int):
                return None if a is None else a - e.right.value
            return None
        if isinstance(e, ast.BoolOp) and isinstance(e.op, ast.Or) and len(e.values) == 2:
            a, b = self.lb(e.values[0]), self.lb(e.values[1])
            if a is None or b is None or a < 0:
                return None
            return min(max(a, 1), b)       # a non-negative integer that is truthy is >= 1
        if isinstance(e, ast.IfExp):
            a, b = self.lb(e.body), self.lb(e.orelse)
            return None if a is None or b is None else min(a, b)
        return None

    def _name(self, name):
        if name in self._busy:
            return self._busy[name]
        vals = self.assigns.get(name)
        if not vals or any(v is None for v in vals):
            return None
        selfref = [v for v in vals if any(isinstance(x, ast.Name) and x.id == name for x in ast.walk(v))]
        plain = [v for v in vals if v not in selfref]
        if not plain:
            return None
        self._busy[name] = INF
        bounds = [self.lb(v) for v in plain]
        del self._busy[name]
        if any(b is None for b in bounds):
            return None
        cur = min(bounds)
        for _ in range(4):                 # updates that refer to the name itself: descend to a fixpoint
            self._busy[name] = cur
            upd = [self.lb(v) for v in selfref]
            del self._busy[name]
            if any(b is None for b in upd):
                return None
            new = min([cur] + upd)
            if new == cur:
                return cur
            cur = new
        return None

    # -- lower bound of the elements of an iterable
    def elem_lb(self, e):
        if isinstance(e, (ast.List, ast.Tuple, ast.Set)):
            vals = [self.lb(x) for x in e.elts]
            return None if not vals or any(v is None for v in vals) else min(vals)
        if isinstance(e, ast.Call) and isinstance(e.func, ast.Name) and e.func.id in ('list', 'tuple', 'sorted', 'set') and len(e.args) == 1:
            return self.elem_lb(e.args[0])
        if isinstance(e, ast.Call) and isinstance(e.func, ast.Name) and e.func.id == 'map' and len(e.args) == 2:
            return 0 if isinstance(e.args[0], ast.Name) and e.args[0].id == 'len' else None
        if isinstance(e, (ast.ListComp, ast.GeneratorExp, ast.SetComp)):
            sub = _LB.__new__(_LB)
            sub.__dict__.update(self.__dict__)
            return self.lb(e.elt)
        if isinstance(e, ast.Name):
            vals = self.assigns.get(e.id)
            if not vals or any(v is None for v in vals):
                # a loop variable over a literal list of (.., name) pairs: bound of every candidate
                return self._loop_elem(e.id)
            bounds = [self.elem_lb(v) for v in vals]
            return None if any(b is None for b in bounds) else min(bounds)
        return None

    def _loop_elem(self, name):
        """`for a, NAME in [(x, e1), (y, e2)]:` - NAME is one of e1, e2."""
        res = []
        for n in _own_nodes(self.fn):
            if isinstance(n, ast.For) and isinstance(n.target, (ast.Tuple, ast.List)):
                idx = [i for i, t in enumerate(n.target.elts) if isinstance(t, ast.Name) and t.id == name]
                if not idx:
                    continue
                if not isinstance(n.iter, (ast.List, ast.Tuple)):
                    return None
                for item in n.iter.elts:
                    if not isinstance(item, (ast.Tuple, ast.List)) or len(item.elts) != len(n.target.elts):
                        return None
                    res.append(self.elem_lb(item.elts[idx[0]]))
        others = [v for v in self.assigns.get(name, []) if v is not None]
        res += [self.elem_lb(v) for v in others]
        if not res or any(b is None for b in res):
            return None
        return min(res)


def _const_text(v):
    return v.value if isinstance(v, ast.Constant) and isinstance(v.value, str) else None


def bitfield_sites(fn):
    """[(field name, width expr, line)] for the bit-field templates of one function."""
    out = []
    for n in _own_nodes(fn):
        if isinstance(n, ast.JoinedStr):
            text = ''
            for v in n.values:
                t = _const_text(v)
                if t is not None:
                    text += t
                elif isinstance(v, ast.FormattedValue):
                    m = _BITFIELD.search(text)
                    if m:
                        out.append((re.findall(r'[A-Za-z_]\w*', m.group(0))[-1], v.value, v.lineno))
                    text += '\x00'
        elif isinstance(n, ast.BinOp) and isinstance(n.op, ast.Mod):
            parts = []
            left = n.left
            t = _const_text(left)
            if t is None and isinstance(left, ast.JoinedStr):
                continue
            if t is None:
                continue
            args = n.right.elts if isinstance(n.right, ast.Tuple) else [n.right]
            pos = 0
            k = 0
            for m in re.finditer(r'%(?:\((\w+)\))?[-+ #0]*\d*(?:\.\d+)?([a-zA-Z%])', t):
                if m.group(2) == '%':
                    continue
                if m.group(1) is None and k < len(args):
                    mm = _BITFIELD.search(t[:m.start()])
                    if mm and m.group(2) in 'diu s'.replace(' ', ''):
                        out.append((re.findall(r'[A-Za-z_]\w*', mm.group(0))[-1], args[k], n.lineno))
                k += 1
            del parts, pos
    return out


def rule_BITWIDTH(ctx, floor=5):
    r = Rule('C43-BITWIDTH', 'every C bit-field the code generator declares from a template gets a width whose lower bound (interval evaluation of the '
                             'width expression through the local assignments) is >= 1; a zero-width named bit-field does not compile', floor)
    for rel in _compiler_files(ctx):
        src = ctx.read(rel)
        if not re.search(r':\s*(?:\{|%[-+ #0]*\d*[dius])', src):
            continue
        tree = ctx.parse(rel)
        for qn, fn, cls in _functions(tree):
            sites = bitfield_sites(fn)
            if not sites:
                continue
            ev = _LB(fn)
            for field, expr, line in sites:
                key = '%s:%s:%s' % (rel.rsplit('/', 1)[-1][:-3], qn, field)
                b = ev.lb(expr)
                r.inst(key, sample='%s width %s >= %s' % (key, _u(expr), b))
                if b is None:
                    r.info('%s: lower bound of the width `%s` is not decidable' % (key, _u(expr)))
                elif b < 1:
                    r.violate(key, rel, line, 'bit-field `%s` is declared with width `%s`, which can be %d (all measured values 0: bit_length() of 0 is 0); '
                                              'a named bit-field of width 0 is rejected by the C compiler' % (field, _u(expr), b))
    # embedded examples
    bad = ast.parse("def g(w, index):\n    lens = list(map(len, index))\n    w.putln(f'struct {{ unsigned int length: {max(lens).bit_length()}; }} t[] = ...')\n").body[0]
    good = ast.parse("def g(w, nodes):\n    m = 1\n    for n in nodes:\n        m = max(m, len(n.args) - n.k)\n    w.put(f'unsigned int argcount : {m.bit_length()};')\n").body[0]
    sb, sg = bitfield_sites(bad), bitfield_sites(good)
    ok = len(sb) == 1 and len(sg) == 1 and _LB(bad).lb(sb[0][1]) == 0 and _LB(good).lb(sg[0][1]) == 1
    r.positive_control(ok, 'width max(list(map(len, ..))).bit_length() has lower bound 0; a maximum started at 1 has bit_length >= 1')
    return r


# ====================================================================================================== C43-CFLOAT
_C_EMIT = re.compile(r'^(calculate_result_code|get_constant_c_result_code|generate_\w+|\w*_c_code|\w*c_result_code)$')
_REPORTERS = {'error', 'warning', 'message', 'performance_hint', 'info', 'AnalysisError', 'CompileError', 'InternalError'}


class _FloatFlow:
    def __init__(self, fn, ftext_methods, cls=None):
        self.fn = fn
        self.cls = cls
        self.ftext_methods = ftext_methods
        self.binds = {}
        for n in _own_nodes(fn):
            if isinstance(n, ast.Assign):
                for t in n.targets:
                    if isinstance(t, ast.Name):
                        self.binds.setdefault(t.id, []).append(n.value)
                    else:
                        for x in ast.walk(t):
                            if isinstance(x, ast.Name):
                                self.binds.setdefault(x.id, []).append(None)
            elif isinstance(n, ast.AnnAssign) and isinstance(n.target, ast.Name) and n.value is not None:
                self.binds.setdefault(n.target.id, []).append(n.value)
        self._seen = set()

    def kind(self, e):
        """'float' | 'text' | None"""
        if isinstance(e, ast.Call):
            f = e.func
            if isinstance(f, ast.Name) and f.id == 'float' and len(e.args) == 1:
                return 'float'
            if isinstance(f, ast.Name) and f.id in ('repr', 'str', 'format') and e.args and self.kind(e.args[0]):
                return 'text'
            if isinstance(f, ast.Attribute) and isinstance(f.value, ast.Name) and f.value.id == 'self' and (self.cls, f.attr) in self.ftext_methods:
                return 'text'
            if isinstance(f, ast.Attribute) and f.attr in ('strip', 'lstrip', 'rstrip', 'lower', 'upper') and self.kind(f.value) == 'text':
                return 'text'
            return None
        if isinstance(e, ast.Name):
            if e.id in self._seen:
                return None
            vals = self.binds.get(e.id)
            if not vals or any(v is None for v in vals):
                return None
            self._seen.add(e.id)
            ks = {self.kind(v) for v in vals}
            self._seen.discard(e.id)
            return ks.pop() if len(ks) == 1 else ('text' if ks == {'float', 'text'} else None)
        if isinstance(e, ast.UnaryOp) and isinstance(e.op, (ast.USub, ast.UAdd)):
            return 'float' if self.kind(e.operand) == 'float' else None
        if isinstance(e, ast.IfExp):
            a, b = self.kind(e.body), self.kind(e.orelse)
            return a or b
        if self.interp(e):
            return 'text'
        return None

    def interp(self, e):
        """the float / float-text operands interpolated by a format expression"""
        ops = []
        if isinstance(e, ast.BinOp) and isinstance(e.op, ast.Mod) and (_const_text(e.left) is not None or isinstance(e.left, ast.JoinedStr)):
            args = e.right.elts if isinstance(e.right, ast.Tuple) else [e.right]
            ops = [a for a in args if self.kind(a)]
        elif isinstance(e, ast.JoinedStr):
            ops = [v.value for v in e.values if isinstance(v, ast.FormattedValue) and self.kind(v.value)]
        elif isinstance(e, ast.Call) and isinstance(e.func, ast.Attribute) and e.func.attr == 'format' and _const_text(e.func.value) is not None:
            ops = [a for a in list(e.args) + [k.value for k in e.keywords] if self.kind(a)]
        elif isinstance(e, ast.BinOp) and isinstance(e.op, ast.Add) and (self.kind(e.left) == 'text' or self.kind(e.right) == 'text') and \
                (_const_text(e.left) is not None or _const_text(e.right) is not None):
            ops = [x for x in (e.left, e.right) if self.kind(x) == 'text']
        return ops

    def guarded(self):
        """does the function branch on the non-finite classes?"""
        for n in _own_nodes(self.fn):
            if isinstance(n, ast.Compare):
                consts = [c.value for c in ast.walk(n) if isinstance(c, ast.Constant) and isinstance(c.value, str)]
                if any('inf' in c for c in consts) and any('nan' in c for c in consts):
                    return True
                if len(n.ops) == 1 and isinstance(n.ops[0], ast.NotEq) and _u(n.left) == _u(n.comparators[0]):
                    return 'partial'
            if isinstance(n, ast.Call):
                nm = n.func.attr if isinstance(n.func, ast.Attribute) else getattr(n.func, 'id', '')
                if nm == 'isfinite':
                    return True
        seen = set()
        for n in _own_nodes(self.fn):
            if isinstance(n, ast.Compare):
                for c in ast.walk(n):
                    if isinstance(c, ast.Constant) and isinstance(c.value, str):
                        seen.add('inf' if 'inf' in c.value else 'nan' if 'nan' in c.value else '')
            if isinstance(n, ast.Call):
                nm = n.func.attr if isinstance(n.func, ast.Attribute) else getattr(n.func, 'id', '')
                if nm in ('isinf', 'isnan'):
                    seen.add(nm[2:])
        return {'inf', 'nan'} <= seen


def _float_text_methods(trees):
    """(class, method) pairs with a return of raw float text and no branch on the non-finite classes (resolved on self within the class)"""
    names = set()
    for _ in range(3):
        before = len(names)
        for rel, tree in trees:
            for qn, fn, cls in _functions(tree):
                if cls is None or (cls, fn.name) in names:
                    continue
                fl = _FloatFlow(fn, names, cls)
                rets = [n.value for n in _own_nodes(fn) if isinstance(n, ast.Return) and n.value is not None]
                if any(fl.kind(v) == 'text' for v in rets) and fl.guarded() is not True:
                    names.add((cls, fn.name))
        if len(names) == before:
            break
    return names


def cfloat_findings(trees):
    inst, finds = [], []
    helpers = _float_text_methods(trees)
    for rel, tree in trees:
        mod = rel.rsplit('/', 1)[-1][:-3]
        for qn, fn, cls in _functions(tree):
            if cls is None or not (_C_EMIT.match(fn.name) or (cls, fn.name) in helpers):
                continue
            fl = _FloatFlow(fn, helpers, cls)
            reported = set()
            for n in _own_nodes(fn):
                if isinstance(n, ast.Call):
                    nm = n.func.attr if isinstance(n.func, ast.Attribute) else getattr(n.func, 'id', '')
                    if nm in _REPORTERS:
                        for x in ast.walk(n):
                            reported.add(id(x))
            sinks = []
            for n in _own_nodes(fn):
                if id(n) in reported:
                    continue
                ops = fl.interp(n)
                if ops:
                    sinks.append((n, ops, 'interpolated into `%s`' % _u(n)[:90]))
                elif isinstance(n, ast.Return) and n.value is not None and not fl.interp(n.value) and fl.kind(n.value) == 'text' and _C_EMIT.match(fn.name):
                    sinks.append((n, [n.value], 'returned as the C code'))
            if not sinks:
                continue
            g = fl.guarded()
            for n, ops, how in sinks:
                key = '%s:%s:%s' % (mod, qn, _u(ops[0])[:40])
                inst.append((key, '%s %s guarded=%s' % (key, how, g)))
                if g is not True:
                    finds.append((key, rel, n.lineno, 'the text of a Python float (`%s`) is %s in %s.%s without a branch on the non-finite values: '
                                  'repr/str/%%-formats spell them `inf`, `-inf`, `nan`, which is not C (e.g. the literal 1e999j)' % (_u(ops[0])[:60], how, mod, qn)))
    return inst, finds, helpers


def rule_CFLOAT(ctx, floor=1):
    r = Rule('C43-CFLOAT', 'C-code producing methods never interpolate / return the text of a Python float (repr, str, %-format, f-string of float(...)) '
                           'unless the function branches on inf / nan: over the classes {finite, +inf, -inf, nan} three spell a non-C token', floor)
    trees = [(rel, ctx.parse(rel)) for rel in _compiler_files(ctx) if 'float(' in ctx.read(rel)]
    inst, finds, helpers = cfloat_findings(trees)
    for key, s in inst:
        r.inst(key, sample=s)
    # the guarded converter is an instance of its own: a function that turns float text into C code behind the branches
    for rel, tree in trees:
        for qn, fn, cls in _functions(tree):
            if cls and _C_EMIT.match(fn.name):
                fl = _FloatFlow(fn, helpers, cls)
                if fl.guarded() is True and any(fl.kind(x) for x in _own_nodes(fn) if isinstance(x, ast.Call)):
                    r.inst('%s:%s:guard' % (rel.rsplit('/', 1)[-1][:-3], qn), sample='%s branches on inf/nan' % qn)
    for key, rel, line, msg in finds:
        r.violate(key, rel, line, msg)
    bad = ast.parse("class I:\n    def calculate_result_code(self):\n        return '%s(0, %r)' % (self.type.from_parts, float(self.value))\n")
    bad2 = ast.parse("class I:\n    def part(self):\n        v = float(self.value)\n        return repr(v)\n    def generate_result_code(self, code):\n        code.putln('x = f(0.0, %s);' % self.part())\n")
    good = ast.parse("class F:\n    def get_constant_c_result_code(self):\n        c = repr(float(self.value))\n        if c == 'nan':\n            return 'NAN'\n        elif c == 'inf':\n            return 'HUGE'\n        return self.value\n")
    ok = len(cfloat_findings([('a/b.py', bad)])[1]) == 1 and len(cfloat_findings([('a/b.py', bad2)])[1]) >= 1 and not cfloat_findings([('a/b.py', good)])[1]
    r.positive_control(ok, '%r of float(self.value) in calculate_result_code; raw float text through a helper method; the converter that branches on inf / nan is clean')
    return r


# ====================================================================================================== C43-INTLIMIT
def _derived_from_systring(fn):
    """local names whose value derives from <scanner>.systring"""
    names = set()
    changed = True
    while changed:
        changed = False
        for n in _own_nodes(fn):
            tgt = val = None
            if isinstance(n, ast.Assign) and len(n.targets) == 1 and isinstance(n.targets[0], ast.Name):
                tgt, val = n.targets[0].id, n.value
            elif isinstance(n, ast.AnnAssign) and isinstance(n.target, ast.Name) and n.value is not None:
                tgt, val = n.target.id, n.value
            if tgt is None or tgt in names:
                continue
            for x in ast.walk(val):
                if (isinstance(x, ast.Attribute) and x.attr == 'systring') or (isinstance(x, ast.Name) and x.id in names):
                    names.add(tgt)
                    changed = True
                    break
    return names


def _mentions(e, names):
    return any((isinstance(x, ast.Name) and x.id in names) or (isinstance(x, ast.Attribute) and x.attr == 'systring') for x in ast.walk(e))


def _handler_wide(h):
    if h.type is None:
        return True
    ts = h.type.elts if isinstance(h.type, ast.Tuple) else [h.type]
    return any(_u(t).rsplit('.', 1)[-1] in ('ValueError', 'Exception', 'BaseException') for t in ts)


def _reports(h):
    for n in ast.walk(h):
        if isinstance(n, ast.Call):
            nm = n.func.attr if isinstance(n.func, ast.Attribute) else getattr(n.func, 'id', '')
            if nm in ('error', 'warning') or nm.endswith('error'):
                return True
        if isinstance(n, ast.Raise):
            return True
    return False


def _is_probe(st, names):
    conv = any(isinstance(c, ast.Call) and any(_mentions(a, names) for a in c.args) for s in st.body for c in ast.walk(s))
    return conv and any(_handler_wide(h) and _reports(h) for h in st.handlers)


def _helper_probes(st, names, funcs):
    """a statement that hands the text to a module function which probes its parameter (extracted helper)"""
    for c in ast.walk(st):
        if isinstance(c, ast.Call) and isinstance(c.func, ast.Name) and c.func.id in funcs:
            h = funcs[c.func.id]
            params = [a.arg for a in h.args.posonlyargs + h.args.args]
            passed = {params[i] for i, a in enumerate(c.args) if i < len(params) and _mentions(a, names)}
            passed |= {k.arg for k in c.keywords if k.arg and _mentions(k.value, names)}
            if passed and any(isinstance(t, ast.Try) and _is_probe(t, passed) for t in _own_nodes(h)):
                return True
    return False


def _probe_before(fn, names, target, funcs=None):
    """is there, on the block path to `target`, an earlier try statement that converts the text under a reporting ValueError handler?"""
    funcs = funcs or {}

    def search(stmts):
        probed = False
        for st in stmts:
            if st is target or any(x is target for x in ast.walk(st)):
                if probed:
                    return True
                for field in ('body', 'orelse', 'finalbody'):
                    sub = getattr(st, field, None)
                    if isinstance(sub, list) and sub and isinstance(sub[0], ast.stmt) and any(x is target for s in sub for x in ast.walk(s)):
                        return search(sub)
                for h in getattr(st, 'handlers', []):
                    if any(x is target for x in ast.walk(h)):
                        return search(h.body)
                return False
            if isinstance(st, ast.Try) and _is_probe(st, names):
                probed = True
            elif funcs and not isinstance(st, (ast.FunctionDef, ast.ClassDef)) and _helper_probes(st, names, funcs):
                probed = True
        return False
    return search(fn.body)


def _converter_guarded(ctx):
    """does Utils.str_to_number guard its int() calls (or the package lift the limit)?"""
    try:
        tree = ctx.parse('Cython/Utils.py')
    except AnalysisError:
        return False, 0
    fn = next((f for f in tree.body if isinstance(f, ast.FunctionDef) and f.name == 'str_to_number'), None)
    if fn is None:
        raise AnalysisError('Utils.str_to_number not found')
    ints = [n for n in _own_nodes(fn) if isinstance(n, ast.Call) and isinstance(n.func, ast.Name) and n.func.id == 'int']
    guarded = set()
    for n in _own_nodes(fn):
        if isinstance(n, ast.Try) and any(_handler_wide(h) for h in n.handlers):
            for s in n.body:
                for c in ast.walk(s):
                    guarded.add(id(c))
    lifted = 'set_int_max_str_digits' in ctx.read('Cython/Utils.py') or 'set_int_max_str_digits' in ctx.read('Cython/Compiler/Main.py')
    return (bool(ints) and all(id(c) in guarded for c in ints)) or lifted, len(ints)


def intlimit_sites(tree):
    """[(function, IntNode call, derived names)] - parser functions that store token text as an IntNode value"""
    out = []
    for qn, fn, cls in _functions(tree):
        names = _derived_from_systring(fn)
        for n in _own_nodes(fn):
            if isinstance(n, ast.Call) and _u(n.func).rsplit('.', 1)[-1] == 'IntNode':
                val = next((k.value for k in n.keywords if k.arg == 'value'), None)
                if val is not None and _mentions(val, names):
                    out.append((qn, fn, n, names))
    return out


def rule_INTLIMIT(ctx, floor=2):
    r = Rule('C43-INTLIMIT', 'INT token text is probed (converted inside try with a reporting ValueError handler) by the parser before it becomes the value '
                             'of an IntNode: the consumers convert it with int(), which raises ValueError beyond the host limit of 4300 digits', floor)
    tree = ctx.parse('Cython/Compiler/Parsing.py')
    sites = intlimit_sites(tree)
    if not sites:
        raise AnalysisError('no parser function builds IntNode(value=<token text>)')
    conv_ok, nints = _converter_guarded(ctx)
    funcs = {f.name: f for f in tree.body if isinstance(f, ast.FunctionDef)}
    # consumers: unguarded conversions of <node>.value in the compiler
    consumers = 0
    for rel in _compiler_files(ctx):
        if 'str_to_number' not in ctx.read(rel) and 'long_literal' not in ctx.read(rel):
            continue
        for n in ast.walk(ctx.parse(rel)):
            if isinstance(n, ast.Call) and _u(n.func).rsplit('.', 1)[-1] in ('str_to_number', 'long_literal'):
                consumers += 1
    r.inst('consumers', sample='%d conversion sites of literal text (str_to_number / long_literal), converter int() calls: %d, guarded or limit lifted: %s' % (consumers, nints, conv_ok))
    for qn, fn, call, names in sites:
        key = 'Parsing:%s:IntNode' % qn
        ok = conv_ok or _probe_before(fn, names, call, funcs)
        r.inst(key, sample='%s stores %s; probed before: %s' % (qn, sorted(names), ok))
        if not ok:
            r.violate(key, 'Cython/Compiler/Parsing.py', call.lineno,
                      '%s stores the text of an INT token as IntNode.value without probing the conversion: a decimal literal beyond sys.get_int_max_str_digits() '
                      '(4300) digits makes the first of %d unguarded int() conversions raise ValueError (compiler crash) where CPython reports a SyntaxError' % (qn, consumers))
    bad = ast.parse("def p(s):\n    value = s.systring\n    s.next()\n    return ExprNodes.IntNode(pos, value=value)\n")
    good = ast.parse("def p(s):\n    value = s.systring\n    try:\n        Utils.str_to_number(value)\n    except ValueError as e:\n        error(pos, str(e))\n        value = '0'\n    return ExprNodes.IntNode(pos, value=value)\n")
    sb, sg = intlimit_sites(bad), intlimit_sites(good)
    ok = len(sb) == 1 and len(sg) == 1 and not _probe_before(sb[0][1], sb[0][3], sb[0][2]) and _probe_before(sg[0][1], sg[0][3], sg[0][2])
    r.positive_control(ok, 'IntNode(value=<systring>) without / with a guarded probe conversion')
    return r


# ====================================================================================================== C43-NESTDEPTH
REQUIRED_NESTING = 100          # CPython compiles 100 nested parentheses (tokenizer MAXLEVEL 200)
DEFAULT_RECURSION_LIMIT = 1000  # sys.getrecursionlimit() of an unmodified interpreter


def parser_call_graph(tree):
    funcs = {f.name: f for f in tree.body if isinstance(f, ast.FunctionDef)}
    graph = {}
    for name, fn in funcs.items():
        out = set()
        for n in ast.walk(fn):
            if isinstance(n, ast.Name) and isinstance(n.ctx, ast.Load) and n.id in funcs and n.id != name:
                out.add(n.id)          # a call, or a function handed to a combinator that calls it
        graph[name] = out
    return graph


def shortest_cycle(graph, start):
    dist = {s: 1 for s in graph.get(start, ())}
    frontier = list(dist)
    while frontier:
        nxt = []
        for f in frontier:
            for g in graph.get(f, ()):
                if g == start:
                    return dist[f] + 1
                if g not in dist:
                    dist[g] = dist[f] + 1
                    nxt.append(g)
        frontier = nxt
    return None


def rule_NESTDEPTH(ctx, floor=1):
    r = Rule('C43-NESTDEPTH', 'frames per nesting level of the recursive-descent parser (shortest call cycle through the atom parser) times the nesting CPython '
                              'accepts (100) stays below the default recursion limit, unless the compiler raises the limit or turns RecursionError into an error', floor)
    tree = ctx.parse('Cython/Compiler/Parsing.py')
    graph = parser_call_graph(tree)
    atoms = [f for f in graph if f == 'p_atom']
    if not atoms:
        raise AnalysisError('Parsing.p_atom not found')
    cyc = shortest_cycle(graph, 'p_atom')
    if cyc is None:
        raise AnalysisError('no call cycle through p_atom: the parser is not recursive descent any more?')
    raised = False
    for rel in _compiler_files(ctx) + ['Cython/Utils.py']:
        src = ctx.read(rel)
        if 'setrecursionlimit' in src or 'RecursionError' in src:
            for n in ast.walk(ctx.parse(rel)):
                if isinstance(n, ast.Call) and _u(n.func).endswith('setrecursionlimit'):
                    raised = True
                if isinstance(n, ast.ExceptHandler) and n.type is not None and 'RecursionError' in _u(n.type):
                    raised = True
    need = cyc * REQUIRED_NESTING
    r.inst('Parsing:p_atom:cycle', sample='shortest cycle through p_atom: %d frames; %d levels need >= %d frames; limit raised / handled: %s' % (cyc, REQUIRED_NESTING, need, raised))
    if need >= DEFAULT_RECURSION_LIMIT and not raised:
        r.violate('Parsing:p_atom:cycle', 'Cython/Compiler/Parsing.py', graph and tree.body[0].lineno,
                  'one nesting level of a parenthesised expression costs at least %d interpreter frames (shortest call cycle through p_atom), so %d levels need '
                  '%d frames >= the default recursion limit %d: the uncompiled parser dies with RecursionError on nesting CPython accepts, and nothing raises '
                  'the limit or reports the overflow as an error' % (cyc, REQUIRED_NESTING, need, DEFAULT_RECURSION_LIMIT))
    g = {'a': {'b'}, 'b': {'c', 'a'}, 'c': {'a'}}
    r.positive_control(shortest_cycle(g, 'a') == 2 and shortest_cycle({'a': {'b'}, 'b': set()}, 'a') is None, 'shortest cycle of a small call graph')
    return r


# ====================================================================================================== C43-DOCTYPE
def _string_literal_classes(ctx):
    """{class: bytes_valued (True / False / None)} for the node classes with is_string_literal = True, subclasses included"""
    tree = ctx.parse('Cython/Compiler/ExprNodes.py')
    classes = {c.name: c for c in tree.body if isinstance(c, ast.ClassDef)}

    def attr(c, name, seen=()):
        for st in c.body:
            if isinstance(st, ast.Assign) and any(isinstance(t, ast.Name) and t.id == name for t in st.targets):
                return st.value
        for b in c.bases:
            bn = _u(b).rsplit('.', 1)[-1]
            if bn in classes and bn not in seen:
                v = attr(classes[bn], name, seen + (c.name,))
                if v is not None:
                    return v
        return None
    out = {}
    for name, c in classes.items():
        v = attr(c, 'is_string_literal')
        if isinstance(v, ast.Constant) and v.value in (True, 1):
            t = attr(c, 'type')
            tn = _u(t).rsplit('.', 1)[-1] if t is not None else ''
            out[name] = True if tn in ('bytes_type', 'c_char_ptr_type', 'c_const_char_ptr_type', 'bytearray_type') else \
                False if tn in ('unicode_type', 'str_type') else None
    return out, classes


def _subclass(classes, c, t):
    seen = set()
    todo = [c]
    while todo:
        n = todo.pop()
        if n == t:
            return True
        if n in seen or n not in classes:
            continue
        seen.add(n)
        todo += [_u(b).rsplit('.', 1)[-1] for b in classes[n].bases]
    return False


def _terminates(stmts):
    return bool(stmts) and isinstance(stmts[-1], (ast.Return, ast.Raise, ast.Continue, ast.Break))


def _cond_walk(stmts, conds, visit):
    conds = list(conds)
    for st in stmts:
        visit(st, conds)
        if isinstance(st, ast.If):
            _cond_walk(st.body, conds + [(st.test, True)], visit)
            _cond_walk(st.orelse, conds + [(st.test, False)], visit)
            if _terminates(st.body):
                conds.append((st.test, False))
            elif st.orelse and _terminates(st.orelse):
                conds.append((st.test, True))
        elif isinstance(st, (ast.For, ast.While, ast.With, ast.Try)):
            for field in ('body', 'orelse', 'finalbody'):
                _cond_walk(getattr(st, field, []) or [], conds, visit)
            for h in getattr(st, 'handlers', []):
                _cond_walk(h.body, conds, visit)


def _ev3(test, atom):
    if isinstance(test, ast.BoolOp):
        vals = [_ev3(v, atom) for v in test.values]
        if isinstance(test.op, ast.And):
            return False if any(v is False for v in vals) else (True if all(v is True for v in vals) else None)
        return True if any(v is True for v in vals) else (False if all(v is False for v in vals) else None)
    if isinstance(test, ast.UnaryOp) and isinstance(test.op, ast.Not):
        v = _ev3(test.operand, atom)
        return None if v is None else (not v)
    return atom(test)


def doctype_findings(fn, lit_classes, classes):
    """docstring extraction of one function, decided per string-literal class: [(key, sample)], [(key, line, msg)]"""
    binds, uses = [], []

    def visit(st, conds):
        if isinstance(st, ast.Assign) and len(st.targets) == 1 and isinstance(st.targets[0], ast.Name):
            tgt, v = st.targets[0].id, st.value
            if isinstance(v, ast.Attribute) and v.attr == 'value' and isinstance(v.value, ast.Name):
                uses.append((v.value.id, st, list(conds)))
            elif not (isinstance(v, ast.Constant) and v.value is None):
                binds.append((tgt, v, list(conds)))
        elif isinstance(st, ast.Return) and st.value is not None:
            for x in ([st.value] + (list(st.value.elts) if isinstance(st.value, ast.Tuple) else [])):
                if isinstance(x, ast.Attribute) and x.attr == 'value' and isinstance(x.value, ast.Name):
                    uses.append((x.value.id, st, list(conds)))
    _cond_walk(fn.body, [], visit)
    tested = {_u(n.value) for n in _own_nodes(fn) if isinstance(n, ast.Attribute) and n.attr == 'is_string_literal'}
    inst, finds = [], []
    for var, st, uconds in uses:
        for tgt, expr, bconds in binds:
            if tgt != var or _u(expr) not in tested:
                continue
            for cname, bytes_valued in sorted(lit_classes.items()):
                def atom(t, var=var, expr=expr, cname=cname):
                    if isinstance(t, ast.Attribute) and t.attr == 'is_string_literal':
                        return True if _u(t.value) in (var, _u(expr)) else None
                    if isinstance(t, ast.Call) and isinstance(t.func, ast.Name) and t.func.id == 'isinstance' and len(t.args) == 2:
                        if _u(t.args[0]) not in (var, _u(expr)):
                            return None
                        ts = t.args[1].elts if isinstance(t.args[1], ast.Tuple) else [t.args[1]]
                        names = [_u(x).rsplit('.', 1)[-1] for x in ts]
                        if any(n not in classes for n in names):
                            return None
                        return any(_subclass(classes, cname, n) for n in names)
                    if isinstance(t, ast.Compare) and len(t.ops) == 1 and isinstance(t.comparators[0], ast.Constant) and t.comparators[0].value is None \
                            and _u(t.left) == var:
                        return isinstance(t.ops[0], ast.IsNot)
                    if isinstance(t, ast.Name) and t.id == var:
                        return True
                    return None
                possible = all(_ev3(test, atom) is not (not want) for test, want in bconds + uconds)
                key = '%s:%s<-%s:%s' % (fn.name, var, _u(expr), cname)
                inst.append((key, '%s: %s.value of a %s becomes the docstring: %s' % (fn.name, var, cname, 'possible' if possible else 'excluded')))
                if possible and bytes_valued is None:
                    finds.append((key, st.lineno, None))
                elif possible and bytes_valued:
                    finds.append((key, st.lineno, '%s takes `%s.value` of a %s (a bytes value) as the docstring: the doc slot of def / class nodes is read as str '
                                  '(`\'>>>\' in node.doc`, escaping for the C string), so `def f(): b\'x\'` crashes the compiler; in Python 3 a bytes literal '
                                  'is no docstring' % (fn.name, var, cname)))
    return inst, finds


def rule_DOCTYPE(ctx, floor=4):
    r = Rule('C43-DOCTYPE', 'docstring extraction in the parser, evaluated for every node class with is_string_literal = True: the value that becomes the '
                            'docstring is never taken from a bytes-valued literal class (the doc slot is consumed as str)', floor)
    lit, classes = _string_literal_classes(ctx)
    if not lit or not any(v for v in lit.values()):
        raise AnalysisError('no bytes-valued string literal class found in ExprNodes (is_string_literal / type attributes moved?)')
    tree = ctx.parse('Cython/Compiler/Parsing.py')
    n = 0
    for qn, fn, cls in _functions(tree):
        if not any(isinstance(x, ast.Attribute) and x.attr == 'is_string_literal' for x in _own_nodes(fn)):
            continue
        inst, finds = doctype_findings(fn, lit, classes)
        n += len(inst)
        for key, s in inst:
            r.inst('Parsing:' + key, sample=s)
        for key, line, msg in finds:
            if msg is None:
                r.info('Parsing:%s: value kind of the literal class is not decidable (no `type` class attribute)' % key)
            else:
                r.violate('Parsing:' + key, 'Cython/Compiler/Parsing.py', line, msg)
    if not n:
        raise AnalysisError('no docstring extraction found in Parsing.py (a function that tests .is_string_literal and takes .value)')
    cl = {'B': ast.parse('class B(C):\n    pass').body[0], 'U': ast.parse('class U(C):\n    pass').body[0]}
    bad = ast.parse("def ex(node):\n    d = None\n    if node.expr.is_string_literal:\n        d = node.expr\n    if d is None:\n        doc = None\n    elif isinstance(d, B):\n        warn()\n        doc = d.value\n    else:\n        doc = d.value\n    return doc\n").body[0]
    good = ast.parse("def ex(node):\n    d = None\n    if node.expr.is_string_literal and not isinstance(node.expr, B):\n        d = node.expr\n    if d is None:\n        return None\n    return d.value\n").body[0]
    fb = [f for f in doctype_findings(bad, {'B': True, 'U': False}, cl)[1]]
    fg = [f for f in doctype_findings(good, {'B': True, 'U': False}, cl)[1]]
    r.positive_control(len(fb) == 1 and fb[0][0] == 'ex:d<-node.expr:B' and not fg, 'extractor that keeps the bytes branch / extractor that excludes the bytes class at the binding')
    return r
