"""Rules over the builtin-call optimisation handlers of MethodDispatcherTransform subclasses (C13, C02, C43)."""
import ast, builtins, re

from ..core import Rule, AnalysisError, node_src
from ..engine import pyflow, tables
from ..engine.pyindex import walk_no_nested
from .typed import _eval_len_test, LEN_UNIVERSE

HANDLER_RE = re.compile(r'_handle_(simple|general|any)_(function|method|slot)_?(.*)$')


def dispatcher_classes(ix):
    base = ix.cls('Visitor', 'MethodDispatcherTransform')
    return [base] + ix.subclasses(base)


def builtin_type_names(ctx):
    """Names in Builtin.builtin_types_table (+ 'object' wildcard, 'unicode' alias used by the dispatcher for str)."""
    tree = ctx.parse('Cython/Compiler/Builtin.py')
    tab = tables.module_assign(tree, 'builtin_types_table')
    if not isinstance(tab, (ast.List, ast.Tuple)):
        raise AnalysisError('Builtin.builtin_types_table not found')
    names = set()
    for e in tab.elts:
        if isinstance(e, ast.Tuple) and e.elts and isinstance(e.elts[0], ast.Constant):
            names.add(e.elts[0].value)
    if len(names) < 10:
        raise AnalysisError('builtin_types_table has only %d rows' % len(names))
    return names


def builtin_function_names(ctx):
    tree = ctx.parse('Cython/Compiler/Builtin.py')
    names = set()
    for n in ast.walk(tree):
        if isinstance(n, ast.Call) and isinstance(n.func, ast.Name) and n.func.id == 'BuiltinFunction' and n.args and isinstance(n.args[0], ast.Constant):
            names.add(n.args[0].value)
    return names


def all_handlers(ctx):
    ix = ctx.index
    for c in dispatcher_classes(ix):
        for name in list(c.methods) + [a for a in c.attrs if a.startswith('_handle_') and a not in c.methods]:
            m = HANDLER_RE.match(name)
            if m:
                yield c, name, c.methods.get(name), m.groups()


def rule_V1h(ctx, floor=75):
    """Handler names of the builtin-call dispatcher resolve to a builtin function / a method of a builtin type."""
    r = Rule('V1h', '_handle_(simple|general|any)_(function|method|slot)_NAME handlers name an existing builtin function, or TYPE_METHOD with TYPE a builtin type of Builtin.builtin_types_table and METHOD an attribute of that Python type', floor)
    types = builtin_type_names(ctx) | {'object', 'unicode'}
    funcs = builtin_function_names(ctx) | set(dir(builtins)) | types
    # special method names Cython itself knows (TypeSlots tables, includes Py2 legacy names such as __div__)
    known_dunders = set(re.findall(r'["\'](__\w+__)["\']', ctx.read('Cython/Compiler/TypeSlots.py'))) | {'__new__', '__class__'}
    for c, name, fn, (ctype, kind, rest) in all_handlers(ctx):
        key = '%s.%s' % (c.qual, name)
        line = fn.lineno if fn is not None else c.node.lineno
        r.inst(key, sample=key)
        if kind == 'function':
            if rest not in funcs:
                r.violate(key, c.module.rel, line, 'handler %s names builtin function %r, which neither Python nor Builtin.py defines: it is never dispatched to' % (name, rest))
        elif kind == 'method':
            # TYPE_METHOD: type names contain no underscore except via longest-prefix match
            cands = [t for t in types if rest.startswith(t + '_')]
            if not cands:
                r.violate(key, c.module.rel, line, 'handler %s: %r does not start with a builtin type name of Builtin.builtin_types_table' % (name, rest))
                continue
            ok = False
            for t in cands:
                meth = rest[len(t) + 1:]
                pyt = getattr(builtins, 'str' if t == 'unicode' else t, None)
                if t == 'object' or (pyt is not None and hasattr(pyt, meth)) or (pyt is None) or meth in known_dunders:
                    ok = True
            if not ok:
                r.violate(key, c.module.rel, line, 'handler %s: builtin type %r has no method %r (typo? the optimisation can never trigger)' % (name, cands[0], rest[len(cands[0]) + 1:]))
        elif kind == 'slot':
            if ('_' + rest) not in known_dunders and rest not in known_dunders:
                r.violate(key, c.module.rel, line, 'slot handler %s does not name a special method' % name)
    return r


def rule_arg_guards(ctx, floor=50):
    """Inside a handler, every constant index into the argument list is admitted by the len() guards on all paths."""
    r = Rule('HARG', 'every args[k] read in a builtin-call handler is dominated by length guards admitting index k (finite length domain)', floor)
    UNK = '?'

    def analyse(fn, argname, min_len):
        problems = []

        def getk(state):
            for f in state:
                if isinstance(f, tuple) and f[0] == 'len':
                    return f[1]
            return UNK

        def setk(state, k):
            return frozenset([f for f in state if not (isinstance(f, tuple) and f[0] == 'len')] + [('len', k)])

        def check_reads(n, k):
            if k == UNK:
                return
            for x in _walk_expr(n):
                if isinstance(x, ast.Subscript) and isinstance(x.value, ast.Name) and x.value.id == argname and isinstance(x.ctx, ast.Load):
                    idx = tables.literal(x.slice)
                    if isinstance(idx, int) and not isinstance(idx, bool):
                        need = idx + 1 if idx >= 0 else -idx
                        if k < need:
                            problems.append((x.lineno, idx, k))
                elif isinstance(x, (ast.Assign,)) and isinstance(x.targets[0], (ast.Tuple, ast.List)) and isinstance(x.value, ast.Name) and x.value.id == argname:
                    tgt = x.targets[0]
                    if not any(isinstance(e, ast.Starred) for e in tgt.elts) and len(tgt.elts) != k:
                        problems.append((x.lineno, 'unpack%d' % len(tgt.elts), k))

        def transfer(n, state):
            k = getk(state)
            if isinstance(n, ast.expr) and isinstance(n, (ast.BoolOp, ast.IfExp)):
                _check_shortcircuit(n, k, argname, problems, check_reads)
            else:
                check_reads(n, k)
            if isinstance(n, ast.Assign):
                for t in n.targets:
                    if isinstance(t, ast.Name) and t.id == argname:
                        v = n.value
                        if isinstance(v, (ast.List, ast.Tuple)) and not any(isinstance(e, ast.Starred) for e in v.elts):
                            return setk(state, len(v.elts))
                        if isinstance(v, ast.Call) and isinstance(v.func, ast.Name) and v.func.id in ('list', 'tuple') and v.args and isinstance(v.args[0], ast.Name) and v.args[0].id == argname:
                            return state
                        return setk(state, UNK)
            for c in pyflow.calls_in(n):
                if isinstance(c.func, ast.Attribute) and isinstance(c.func.value, ast.Name) and c.func.value.id == argname:
                    if c.func.attr in ('append', 'insert'):
                        k = UNK if k == UNK else k + 1
                    elif c.func.attr in ('extend', 'pop', 'remove', 'clear'):
                        k = UNK
            return setk(state, k)

        def refine(test, truth, state):
            k = getk(state)
            if k == UNK:
                return state
            v = _eval_len_test(test, argname, k)
            if v is not None and v != truth:
                return None
            return state
        flow = pyflow.Flow(transfer, refine=refine, correlate=False)
        try:
            for k in LEN_UNIVERSE:
                if k < min_len:
                    continue
                flow.block(fn.body, {frozenset([('len', k)])})
        except pyflow.TooManyStates:
            return None
        return sorted(set(problems))

    for c, name, fn, (ctype, kind, rest) in all_handlers(ctx):
        if fn is None:
            continue
        params = [a.arg for a in fn.args.args]
        # (self, node, function, args, [is_unbound_method], [kwargs])
        if len(params) < 4:
            continue
        argname = params[3]
        # method handlers always receive the self argument first unless dispatched as unbound function without args
        key = '%s.%s' % (c.qual, name)
        res = analyse(fn, argname, 0)
        if res is None:
            r.info('%s: state explosion' % key)
            continue
        nreads = sum(1 for x in walk_no_nested(fn) if isinstance(x, ast.Subscript) and isinstance(x.value, ast.Name) and x.value.id == argname)
        r.inst(key, sample='%s: %d reads of %s[...]' % (key, nreads, argname), nontrivial=nreads > 0)
        for line, idx, k in res:
            r.violate('%s:%s[%s]@len%s' % (key, argname, idx, k), c.module.rel, line,
                      '%s reads %s[%s] on a path where len(%s) can be %d: IndexError inside the compiler (internal crash) for a call with that many arguments' % (name, argname, idx, argname, k))
    return r


def _walk_expr(n):
    """Walk a statement/expression, not into nested functions; for short-circuit operators the caller handles guards."""
    todo = [n]
    while todo:
        x = todo.pop()
        yield x
        for ch in ast.iter_child_nodes(x):
            if isinstance(ch, (ast.FunctionDef, ast.AsyncFunctionDef, ast.Lambda, ast.ClassDef)):
                continue
            if isinstance(ch, (ast.BoolOp, ast.IfExp)) :
                # guarded sub-expressions are checked with their guard by _check_shortcircuit through transfer()
                # when they are the test itself; nested ones are approximated as guarded (never alarm)
                continue
            todo.append(ch)


def _check_shortcircuit(n, k, argname, problems, check_reads):
    """`len(args) > 1 and args[1]...`: operands after a length test are only evaluated if the test holds."""
    if isinstance(n, ast.BoolOp):
        for v in n.values:
            if isinstance(v, (ast.BoolOp, ast.IfExp)):
                _check_shortcircuit(v, k, argname, problems, check_reads)
            else:
                check_reads(v, k)
            t = _eval_len_test(v, argname, k) if k != '?' else None
            if isinstance(n.op, ast.And) and t is False:
                return
            if isinstance(n.op, ast.Or) and t is True:
                return
    elif isinstance(n, ast.IfExp):
        check_reads(n.test, k)
        t = _eval_len_test(n.test, argname, k) if k != '?' else None
        if t is not False:
            check_reads(n.body, k)
        if t is not True:
            check_reads(n.orelse, k)
