"""C18 rule helpers: symbolic execution of small pure string-manipulating functions over *shapes* of format specs.

A shape is a string whose structural characters (flags, alignment, sign, type character ...) are concrete and whose
digit runs (width, precision) and fill character are opaque tokens.  The set of shapes used by a rule is the complete
finite product of the alternatives of each field of the grammar concerned (see the callers), so the functions are
evaluated over their complete domain *up to the value of the digits*; no repository code is imported or executed,
the interpreter below works on the AST and gives up (AnalysisError) on anything it cannot model.
"""
import ast, re

from ..core import AnalysisError, node_src


# ------------------------------------------------------------------------------------------------ token strings
class Tok:
    """An opaque piece of text: rx = the language it stands for, single = exactly one character."""
    __slots__ = ('name', 'rx', 'single', 'digits')

    def __init__(self, name, rx, single, digits):
        self.name, self.rx, self.single, self.digits = name, rx, single, digits

    def __repr__(self):
        return '<%s>' % self.name


W = Tok('width', '[1-9][0-9]*', False, True)      # a width: decimal digits, no leading zero
PD = Tok('precision', '[0-9]+', False, True)      # the digits of a precision
DIG = Tok('digit', '[0-9]', True, True)           # one unknown digit
D1 = Tok('nonzero-digit', '[1-9]', True, True)
FILL = Tok('fill', '\x00', True, False)           # one character different from every character spelled in the code


class TS:
    """Token string: tuple of one-character strings and Tok instances."""
    __slots__ = ('t',)

    def __init__(self, t=()):
        if isinstance(t, str):
            t = tuple(t)
        self.t = tuple(t)

    def __eq__(self, o):
        return isinstance(o, TS) and self.t == o.t

    def __hash__(self):
        return hash(self.t)

    def __repr__(self):
        return 'TS(%s)' % self.show()

    def show(self):
        return ''.join(x if isinstance(x, str) else '<%s>' % x.name for x in self.t)

    @property
    def literal(self):
        return all(isinstance(x, str) for x in self.t)

    def text(self):
        return ''.join(self.t)

    def rx(self):
        return ''.join(re.escape(x) if isinstance(x, str) else x.rx for x in self.t)

    def all_single(self, upto=None):
        return all(isinstance(x, str) or x.single for x in (self.t if upto is None else self.t[:upto]))


class Unknown:
    """A value the interpreter does not model."""
    def __repr__(self):
        return 'UNKNOWN'


UNKNOWN = Unknown()


class SymInt:
    """len() of a token string: literal count + multiset of opaque multi-character tokens; or int() of a digit string."""
    def __init__(self, kind, n=0, toks=(), ts=None):
        self.kind, self.n, self.toks, self.ts = kind, n, tuple(sorted(toks, key=id)), ts

    def __repr__(self):
        return 'int(%s)' % self.ts.show() if self.kind == 'int' else 'len(%d+%s)' % (self.n, list(self.toks))

    def __eq__(self, o):
        return isinstance(o, SymInt) and (self.kind, self.n, self.toks, self.ts) == (o.kind, o.n, o.toks, o.ts)

    def __hash__(self):
        return hash((self.kind, self.n, self.toks, self.ts))


class Node:
    """A constructed tree node of which only the text payload is modelled: cls(..., value=<payload>)."""
    def __init__(self, cls, payload, kw):
        self.cls, self.payload, self.kw = cls, payload, kw

    def __repr__(self):
        return '%s(%r)' % (self.cls, self.payload)


def truth(v):
    """Three-valued truth of a modelled value."""
    if isinstance(v, Unknown):
        return None
    if isinstance(v, TS):
        return len(v.t) > 0
    if isinstance(v, SymInt):
        if v.kind == 'len':
            return True if (v.n > 0 or v.toks) else False
        return None
    if isinstance(v, Node):
        return True
    if isinstance(v, (bool, int, type(None), str, tuple)):
        return bool(v)
    return None


def ts_eq(a, b):
    """Three-valued a == b for token strings."""
    if a.literal and b.literal:
        return a.t == b.t
    if a.literal or b.literal:
        lit, sym = (a, b) if a.literal else (b, a)
        if FILL in sym.t:
            return False
        return None if re.fullmatch(sym.rx(), lit.text()) else False
    return True if a.t == b.t else None


class TSMatch:
    """Result of re.match on a token string: groups = tuple of TS (None for a group that did not take part)."""
    def __init__(self, groups):
        self.groups = groups

    def __repr__(self):
        return 'Match%r' % (self.groups,)


_REPS = {'width': ('7', '73'), 'precision': ('4', '40'), 'digit': ('5', '6'), 'nonzero-digit': ('7', '8'), 'fill': ('\x00', '\x01')}


def ts_re_match(pattern, ts, full=False):
    """re.match(pattern, ts) for a literal pattern: decided on two representative texts of the token string (opaque tokens spelled
    with one and with two characters / two different characters); both must match with group boundaries on the same token
    boundaries, otherwise the result depends on the digits and the interpreter gives up."""
    outcomes = []
    for variant in (0, 1):
        text, bounds = '', [0]
        for x in ts.t:
            if isinstance(x, str):
                rep = x
            else:
                if x.name not in _REPS:
                    raise GiveUp('re.match on a token string with the opaque token %s' % x.name)
                rep = _REPS[x.name][variant]
            text += rep
            bounds.append(len(text))
        m = (re.fullmatch if full else re.match)(pattern, text)
        if m is None:
            outcomes.append(None)
            continue
        gs = []
        for gi in range(1, m.re.groups + 1):
            a, b = m.span(gi)
            if a == -1:
                gs.append(None)
            elif a in bounds and b in bounds:
                ia = bounds.index(a)
                ib = len(bounds) - 1 - bounds[::-1].index(b)
                if a == b:
                    ib = ia
                gs.append((ia, ib))
            else:
                raise GiveUp('re.match(%r): a group boundary falls inside an opaque token of %s' % (pattern, ts.show()))
        outcomes.append(tuple(gs))
    if outcomes[0] != outcomes[1]:
        raise GiveUp('re.match(%r) on %s depends on the value of the digits' % (pattern, ts.show()))
    if outcomes[0] is None:
        return None
    return TSMatch(tuple(None if g is None else TS(ts.t[g[0]:g[1]]) for g in outcomes[0]))


def ts_contains(hay, needle):
    """Three-valued `needle in hay` (substring test of Python) for token strings."""
    if len(needle.t) == 0:
        return True
    if hay.literal and needle.literal:
        return needle.text() in hay.text()
    if len(needle.t) == 1:
        c = needle.t[0]
        if isinstance(c, str):
            if c in hay.t:
                return True
            if c.isdigit() and any(isinstance(x, Tok) and x.digits for x in hay.t):
                if c == '0' and all((not isinstance(x, Tok)) or x in (D1,) for x in hay.t):
                    return False
                return None
            return False
        if c is FILL:
            return True if FILL in hay.t else False
        # an unknown digit
        if any((isinstance(x, str) and x.isdigit()) or (isinstance(x, Tok) and x.digits) for x in hay.t):
            return None
        return False
    return None


class GiveUp(Exception):
    """The interpreted code does something that is not modelled *and* the result is needed."""


class _Raise(Exception):
    pass


class State:
    def __init__(self, env=None, events=None, assume=None):
        self.env = dict(env or {})
        self.events = list(events or [])
        self.assume = dict(assume or {})

    def copy(self):
        return State(self.env, self.events, self.assume)


STRING_WRAPPERS = ('EncodedString', 'str')


class Interp:
    """Interpreter for straight-line/branching code over modelled values.  `node_classes`: names of constructors whose
    calls are recorded as events (cls, payload of keyword `value`, keywords)."""
    MAX_PATHS = 200

    def __init__(self, node_suffix='Node', raising_calls=('next',)):
        self.node_suffix = node_suffix
        self.raising_calls = raising_calls

    # ---------------------------------------------------------------- expressions
    def ev(self, n, st):
        m = getattr(self, 'ev_' + type(n).__name__, None)
        if m is None:
            return UNKNOWN
        return m(n, st)

    def ev_Constant(self, n, st):
        v = n.value
        if isinstance(v, str):
            return TS(v)
        if isinstance(v, (bool, int, type(None))):
            return v
        return UNKNOWN

    def ev_Name(self, n, st):
        return st.env.get(n.id, UNKNOWN)

    def ev_Attribute(self, n, st):
        self.ev(n.value, st)
        return UNKNOWN

    def ev_Tuple(self, n, st):
        return tuple(self.ev(e, st) for e in n.elts)

    ev_List = ev_Tuple

    def ev_JoinedStr(self, n, st):
        out = ()
        for v in n.values:
            if isinstance(v, ast.Constant):
                out += tuple(v.value)
            elif isinstance(v, ast.FormattedValue) and v.format_spec is None and v.conversion == -1:
                x = self.ev(v.value, st)
                if not isinstance(x, TS):
                    return UNKNOWN
                out += x.t
            else:
                return UNKNOWN
        return TS(out)

    def ev_IfExp(self, n, st):
        t = self.test(n.test, st)
        if t is None:
            a, b = self.ev(n.body, st), self.ev(n.orelse, st)
            return a if _same(a, b) else UNKNOWN
        return self.ev(n.body if t else n.orelse, st)

    def ev_UnaryOp(self, n, st):
        v = self.ev(n.operand, st)
        if isinstance(n.op, ast.Not):
            t = truth(v)
            return UNKNOWN if t is None else (not t)
        if isinstance(n.op, ast.USub) and isinstance(v, int) and not isinstance(v, bool):
            return -v
        return UNKNOWN

    def ev_BoolOp(self, n, st):
        is_and = isinstance(n.op, ast.And)
        unknown = False
        last = UNKNOWN
        for e in n.values:
            v = self.ev(e, st)
            t = truth(v)
            last = v
            if t is None:
                unknown = True
                continue
            if t != is_and:           # decisive: falsy in `and`, truthy in `or`
                if not unknown:
                    return v
                return (not is_and)   # truth is decided although the value is not
        return UNKNOWN if unknown else last

    def ev_Compare(self, n, st):
        left = self.ev(n.left, st)
        res = True
        for op, c in zip(n.ops, n.comparators):
            right = self.ev(c, st)
            r = self.cmp(op, left, right)
            if r is False:
                return False
            if r is None:
                res = None
            left = right
        return UNKNOWN if res is None else res

    def cmp(self, op, a, b):
        if isinstance(op, (ast.Is, ast.IsNot)):
            neg = isinstance(op, ast.IsNot)
            if a is None or b is None:
                other = b if a is None else a
                if isinstance(other, Unknown):
                    return None
                r = other is None
                return (not r) if neg else r
            return None
        if isinstance(op, (ast.Eq, ast.NotEq)):
            neg = isinstance(op, ast.NotEq)
            r = self.equal(a, b)
            return None if r is None else ((not r) if neg else r)
        if isinstance(op, (ast.In, ast.NotIn)):
            neg = isinstance(op, ast.NotIn)
            r = None
            if isinstance(a, TS) and isinstance(b, TS):
                r = ts_contains(b, a)
            elif isinstance(b, tuple) and not isinstance(a, Unknown):
                rs = [self.equal(a, x) for x in b]
                r = True if any(x is True for x in rs) else (None if any(x is None for x in rs) else False)
            return None if r is None else ((not r) if neg else r)
        if isinstance(a, int) and isinstance(b, int) and not isinstance(a, bool) and not isinstance(b, bool):
            return {ast.Lt: a < b, ast.LtE: a <= b, ast.Gt: a > b, ast.GtE: a >= b}.get(type(op))
        return None

    def equal(self, a, b):
        if isinstance(a, Unknown) or isinstance(b, Unknown):
            return None
        if isinstance(a, TS) and isinstance(b, TS):
            return ts_eq(a, b)
        if isinstance(a, SymInt) or isinstance(b, SymInt):
            return True if _same(a, b) else None
        if isinstance(a, TS) or isinstance(b, TS):
            return False
        try:
            return a == b
        except Exception:
            return None

    def ev_BinOp(self, n, st):
        a, b = self.ev(n.left, st), self.ev(n.right, st)
        if isinstance(n.op, ast.Add):
            if isinstance(a, TS) and isinstance(b, TS):
                return TS(a.t + b.t)
            if _plain_int(a) and _plain_int(b):
                return a + b
            return UNKNOWN
        if isinstance(n.op, ast.Sub):
            if _plain_int(a) and _plain_int(b):
                return a - b
            if isinstance(a, SymInt) and isinstance(b, SymInt) and a.kind == b.kind == 'len' and a.toks == b.toks:
                return a.n - b.n
            if isinstance(a, SymInt) and a.kind == 'len' and _plain_int(b):
                return SymInt('len', a.n - b, a.toks) if a.n - b >= 0 else UNKNOWN
            return UNKNOWN
        if isinstance(n.op, ast.Mult) and isinstance(a, TS) and _plain_int(b) and 0 <= b < 50:
            return TS(a.t * b)
        if isinstance(n.op, ast.Pow) and _plain_int(a) and _plain_int(b) and 0 <= b < 200:
            return a ** b
        return UNKNOWN

    def ev_Subscript(self, n, st):
        v = self.ev(n.value, st)
        if isinstance(v, tuple):
            i = self.ev(n.slice, st) if not isinstance(n.slice, ast.Slice) else None
            if _plain_int(i) and -len(v) <= i < len(v):
                return v[i]
            return UNKNOWN
        if not isinstance(v, TS):
            if isinstance(n.slice, ast.Slice):
                for p in (n.slice.lower, n.slice.upper, n.slice.step):
                    if p is not None:
                        self.ev(p, st)
            else:
                self.ev(n.slice, st)
            return UNKNOWN
        if isinstance(n.slice, ast.Slice):
            if n.slice.step is not None:
                return UNKNOWN
            lo = self.ev(n.slice.lower, st) if n.slice.lower is not None else None
            hi = self.ev(n.slice.upper, st) if n.slice.upper is not None else None
            return self.slice(v, lo, hi)
        i = self.ev(n.slice, st)
        if not _plain_int(i):
            return UNKNOWN
        return self.index(v, i)

    def index(self, v, i):
        t = v.t
        if i >= 0:
            if not v.all_single(i + 1) and not (i == 0 and t):
                return UNKNOWN
            if i >= len(t):
                if v.all_single():
                    raise _Raise('IndexError')
                return UNKNOWN
            x = t[i]
            if isinstance(x, str) or x.single:
                return TS((x,))
            if i == 0:
                return TS((D1,)) if x is W else TS((DIG,))
            return UNKNOWN
        k = -i
        tail = t[len(t) - k + 1:] if k > 1 else ()
        if not all(isinstance(x, str) or x.single for x in tail):
            return UNKNOWN
        if k > len(t):
            if v.all_single():
                raise _Raise('IndexError')
            return UNKNOWN
        x = t[len(t) - k]
        if isinstance(x, str) or x.single:
            return TS((x,))
        if k == 1 and x.digits:
            return TS((DIG,))
        return UNKNOWN

    def slice(self, v, lo, hi):
        t = v.t
        # one-character prefix / suffix: defined even when it cuts into an opaque digit run
        if lo in (None, 0) and _plain_int(hi) and hi == 1:
            return self.index(v, 0) if t else TS()
        if hi is None and _plain_int(lo) and lo == -1:
            return self.index(v, -1) if t else TS()

        def pos(p, default):
            """-> index into the token tuple, or None when the position falls inside an opaque token."""
            if p is None:
                return default
            if isinstance(p, SymInt) and p.kind == 'len':
                # a length: walk tokens from the left consuming literal count and the opaque tokens
                need_n, need_t = p.n, list(p.toks)
                for k in range(len(t) + 1):
                    if need_n == 0 and not need_t:
                        return k
                    if k == len(t):
                        break
                    x = t[k]
                    if isinstance(x, str) or x.single:
                        if need_n == 0:
                            return None
                        need_n -= 1
                    else:
                        if x in need_t:
                            need_t.remove(x)
                        else:
                            return None
                return None
            if not _plain_int(p):
                return None
            if p >= 0:
                if p >= len(t):
                    return len(t) if v.all_single() else None
                return p if v.all_single(p) else None
            k = -p
            if k > len(t):
                return 0 if v.all_single() else None
            return len(t) - k if all(isinstance(x, str) or x.single for x in t[len(t) - k:]) else None
        a, b = pos(lo, 0), pos(hi, len(t))
        if a is None or b is None:
            return UNKNOWN
        return TS(t[a:b])

    def ev_Call(self, n, st):
        f = n.func
        name = f.attr if isinstance(f, ast.Attribute) else f.id if isinstance(f, ast.Name) else None
        # ----- methods of token strings
        if isinstance(f, ast.Attribute):
            # ----- re.match / re.fullmatch on a token string, and the methods of the match
            if isinstance(f.value, ast.Name) and f.value.id == 're' and name in ('match', 'fullmatch') and len(n.args) == 2 and not n.keywords:
                pat, subj = self.ev(n.args[0], st), self.ev(n.args[1], st)
                if isinstance(pat, TS) and pat.literal and isinstance(subj, TS):
                    return ts_re_match(pat.text(), subj, full=(name == 'fullmatch'))
                return UNKNOWN
            recv = self.ev(f.value, st)
            args = [self.ev(a, st) for a in n.args]
            kw = {k.arg: self.ev(k.value, st) for k in n.keywords if k.arg}
            if isinstance(recv, TSMatch):
                if name == 'groups' and not args:
                    return recv.groups
                if name == 'group' and len(args) == 1 and isinstance(args[0], int) and 1 <= args[0] <= len(recv.groups):
                    return recv.groups[args[0] - 1]
                return UNKNOWN
            if recv is None and name in ('groups', 'group'):
                raise _Raise('AttributeError')
            if isinstance(recv, TS):
                return self.str_method(recv, name, args)
            if name is not None and name.endswith(self.node_suffix):
                return self.construct(name, args, kw, st)
            return UNKNOWN
        args = [self.ev(a, st) for a in n.args]
        kw = {k.arg: self.ev(k.value, st) for k in n.keywords if k.arg}
        if name in STRING_WRAPPERS and len(args) == 1 and isinstance(args[0], TS):
            return args[0]
        if name == 'len' and len(args) == 1 and isinstance(args[0], TS):
            t = args[0].t
            n_single = sum(1 for x in t if isinstance(x, str) or x.single)
            multi = [x for x in t if not (isinstance(x, str) or x.single)]
            return SymInt('len', n_single, multi) if multi else n_single
        if name == 'int' and len(args) == 1 and isinstance(args[0], TS):
            v = args[0]
            d = self.str_method(v, 'isdecimal', [])
            if d is True:
                if v.literal:
                    return int(v.text())
                return SymInt('int', ts=v)
            if d is False:
                raise _Raise('ValueError')
            return UNKNOWN
        if name == 'bool' and len(args) == 1:
            t = truth(args[0])
            return UNKNOWN if t is None else t
        if name is not None and name.endswith(self.node_suffix):
            return self.construct(name, args, kw, st)
        return UNKNOWN

    def construct(self, name, args, kw, st):
        node = Node(name, kw.get('value', UNKNOWN), kw)
        st.events.append(node)
        return node

    def str_method(self, v, name, args):
        t = v.t
        if name in ('startswith', 'endswith') and len(args) == 1:
            a = args[0]
            cands = a if isinstance(a, tuple) else (a,)
            res = False
            for c in cands:
                if not isinstance(c, TS):
                    return UNKNOWN
                r = self._starts(v, c, name == 'endswith')
                if r is True:
                    return True
                if r is None:
                    res = None
            return UNKNOWN if res is None else res
        if name in ('lstrip', 'rstrip') and len(args) == 1 and isinstance(args[0], TS) and args[0].literal:
            chars = set(args[0].t)
            seq = list(t) if name == 'lstrip' else list(reversed(t))
            while seq:
                x = seq[0]
                if isinstance(x, str):
                    if x in chars:
                        seq.pop(0)
                        continue
                    break
                if x is FILL:
                    break
                # an opaque digit token
                possible = [c for c in chars if re.fullmatch('[0-9]', c) and (re.match(x.rx, c) if name == 'lstrip' or x.single else True)]
                if x is W and name == 'lstrip':
                    possible = [c for c in chars if c in '123456789']
                if possible:
                    return UNKNOWN
                break
            if name == 'rstrip':
                seq.reverse()
            return TS(seq)
        if name in ('isdigit', 'isdecimal', 'isnumeric') and not args:
            if not t:
                return False
            if all((isinstance(x, str) and x in '0123456789') or (isinstance(x, Tok) and x.digits) for x in t):
                return True
            if any((isinstance(x, str) and not x.isdigit()) or x is FILL for x in t):
                return False
            return UNKNOWN
        if name == 'replace' and len(args) == 2 and all(isinstance(a, TS) and a.literal for a in args) and len(args[0].t) == 1:
            c = args[0].t[0]
            if c.isdigit() and any(isinstance(x, Tok) and x.digits for x in t):
                return UNKNOWN
            out = []
            for x in t:
                if x == c:
                    out.extend(args[1].t)
                else:
                    out.append(x)
            return TS(out)
        if name in ('lower', 'upper') and not args and v.literal:
            return TS(getattr(v.text(), name)())
        if name in ('isalpha',) and not args and len(t) == 1:
            x = t[0]
            if isinstance(x, str):
                return x.isalpha()
            return False
        if name == 'count' and len(args) == 1 and isinstance(args[0], TS) and len(args[0].t) == 1 and isinstance(args[0].t[0], str):
            c = args[0].t[0]
            if c.isdigit() and any(isinstance(x, Tok) and x.digits for x in t):
                return UNKNOWN
            return sum(1 for x in t if x == c)
        return UNKNOWN

    def _starts(self, v, c, at_end):
        if not c.t:
            return True
        seq = v.t[::-1] if at_end else v.t
        pat = c.t[::-1] if at_end else c.t
        for i, pc in enumerate(pat):
            if i >= len(seq):
                return False
            x = seq[i]
            if isinstance(x, str) and isinstance(pc, str):
                if x != pc:
                    return False
                continue
            if isinstance(pc, Tok):
                return None
            # x opaque, pc literal
            if x is FILL:
                return False
            if not pc.isdigit():
                return False
            if x is W and not at_end and pc == '0':
                return False
            if x is D1 and pc == '0':
                return False
            return None
        return True

    def test(self, expr, st):
        t = truth(self.ev(expr, st))
        if t is None:
            key = ast.unparse(expr)
            if key in st.assume:
                return st.assume[key]
        return t

    # ---------------------------------------------------------------- statements
    def block(self, stmts, st):
        """-> list of (status, state, value); status in next/break/continue/return/raise."""
        cur = [st]
        done = []
        for s in stmts:
            nxt = []
            for c in cur:
                for status, s2, val in self.stmt(s, c):
                    if status == 'next':
                        nxt.append(s2)
                    else:
                        done.append((status, s2, val))
            cur = nxt
            if len(cur) + len(done) > self.MAX_PATHS:
                raise AnalysisError('symbolic execution: more than %d paths' % self.MAX_PATHS)
            if not cur:
                break
        return done + [('next', c, None) for c in cur]

    def _has_raising_call(self, s):
        for x in ast.walk(s):
            if isinstance(x, ast.Call) and isinstance(x.func, ast.Name) and x.func.id in self.raising_calls:
                return True
        return False

    def assign(self, target, value, st):
        if isinstance(target, ast.Name):
            st.env[target.id] = value
            for k in [k for k in st.assume if re.search(r'\b%s\b' % re.escape(target.id), k)]:
                del st.assume[k]
        elif isinstance(target, (ast.Tuple, ast.List)):
            if isinstance(value, tuple) and len(value) == len(target.elts) and not any(isinstance(e, ast.Starred) for e in target.elts):
                for e, v in zip(target.elts, value):
                    self.assign(e, v, st)
            else:
                for e in target.elts:
                    self.assign(e.value if isinstance(e, ast.Starred) else e, UNKNOWN, st)
        # attribute / subscript stores are not modelled

    def stmt(self, s, st):
        try:
            return self._stmt(s, st)
        except _Raise as e:
            return [('raise', st, str(e))]

    def _stmt(self, s, st):
        if isinstance(s, ast.If):
            t = self.test(s.test, st)
            out = []
            if t is None:
                key = ast.unparse(s.test)
                for truthv, body in ((True, s.body), (False, s.orelse)):
                    c = st.copy()
                    c.assume[key] = truthv
                    out += self.block(body, c) if body else [('next', c, None)]
                return out
            body = s.body if t else s.orelse
            return self.block(body, st) if body else [('next', st, None)]
        if isinstance(s, (ast.Assign, ast.AnnAssign, ast.AugAssign, ast.Expr)) and self._has_raising_call(s):
            # a call that may raise (next() on an exhausted iterator): fork
            c = st.copy()
            return [('raise', c, 'StopIteration')] + self._simple(s, st)
        if isinstance(s, (ast.Assign, ast.AnnAssign, ast.AugAssign, ast.Expr, ast.Pass, ast.Assert, ast.Import, ast.ImportFrom, ast.Global, ast.Nonlocal, ast.Delete)):
            return self._simple(s, st)
        if isinstance(s, ast.Return):
            v = self.ev(s.value, st) if s.value is not None else None
            return [('return', st, v)]
        if isinstance(s, ast.Break):
            return [('break', st, None)]
        if isinstance(s, ast.Continue):
            return [('continue', st, None)]
        if isinstance(s, ast.Raise):
            return [('raise', st, 'raise')]
        if isinstance(s, ast.Try):
            out = []
            for status, s2, val in self.block(s.body, st):
                if status == 'raise' and s.handlers:
                    for h in s.handlers:
                        c = s2.copy()
                        if h.name:
                            c.env[h.name] = UNKNOWN
                        out += self.block(h.body, c)
                elif status == 'next' and s.orelse:
                    out += self.block(s.orelse, s2)
                else:
                    out.append((status, s2, val))
            if s.finalbody:
                fin = []
                for status, s2, val in out:
                    for st3, s3, v3 in self.block(s.finalbody, s2):
                        fin.append((status, s3, val) if st3 == 'next' else (st3, s3, v3))
                out = fin
            return out
        if isinstance(s, (ast.FunctionDef, ast.AsyncFunctionDef, ast.ClassDef)):
            st.env[s.name] = UNKNOWN
            return [('next', st, None)]
        # loops / with / match: not modelled.  Harmless when they neither construct nodes nor leave the block.
        for x in ast.walk(s):
            if isinstance(x, (ast.Break, ast.Continue, ast.Return)) and not isinstance(s, (ast.For, ast.While)):
                raise AnalysisError('symbolic execution: unmodelled statement %s with a jump (line %d)' % (type(s).__name__, s.lineno))
            if isinstance(x, ast.Return):
                raise AnalysisError('symbolic execution: return inside an unmodelled %s (line %d)' % (type(s).__name__, s.lineno))
            if isinstance(x, ast.Call):
                nm = x.func.attr if isinstance(x.func, ast.Attribute) else getattr(x.func, 'id', '')
                if nm.endswith(self.node_suffix) and nm != self.node_suffix:
                    raise AnalysisError('symbolic execution: node construction inside an unmodelled %s (line %d)' % (type(s).__name__, s.lineno))
            if isinstance(x, (ast.Name,)) and isinstance(x.ctx, ast.Store):
                self.assign(x, UNKNOWN, st)
        return [('next', st, None)]

    def _simple(self, s, st):
        if isinstance(s, ast.Assign):
            v = self.ev(s.value, st)
            for t in s.targets:
                self.assign(t, v, st)
        elif isinstance(s, ast.AnnAssign):
            if s.value is not None:
                self.assign(s.target, self.ev(s.value, st), st)
        elif isinstance(s, ast.AugAssign):
            cur = self.ev(ast.copy_location(ast.Name(id=s.target.id, ctx=ast.Load()), s), st) if isinstance(s.target, ast.Name) else UNKNOWN
            rhs = self.ev(s.value, st)
            v = UNKNOWN
            if isinstance(s.op, ast.Add) and isinstance(cur, TS) and isinstance(rhs, TS):
                v = TS(cur.t + rhs.t)
            elif isinstance(s.op, ast.Add) and _plain_int(cur) and _plain_int(rhs):
                v = cur + rhs
            self.assign(s.target, v, st)
        elif isinstance(s, ast.Expr):
            self.ev(s.value, st)
        elif isinstance(s, ast.Assert):
            t = self.test(s.test, st)
            if t is False:
                return [('raise', st, 'AssertionError')]
        return [('next', st, None)]


def _plain_int(v):
    return isinstance(v, int) and not isinstance(v, bool)


def _same(a, b):
    if isinstance(a, Unknown) or isinstance(b, Unknown):
        return False
    try:
        return type(a) is type(b) and a == b
    except Exception:
        return False


# ------------------------------------------------------------------------------------------------ the format-spec reference
# Source: Python library reference, "Format Specification Mini-Language"
#   format_spec ::= [[fill]align][sign]["z"]["#"]["0"][width][grouping]["." precision][type]
#   * default alignment: '<' for strings, '>' for numbers
#   * "When no explicit alignment is given, preceding the width field by a zero ('0') character enables sign-aware
#      zero-padding for numeric types. This is equivalent to a fill character of '0' with an alignment type of '='."
#     With an explicit alignment the '0' only sets the fill character.  (3.10: '0' no longer changes the default
#     alignment of strings.)
#   * strings: sign, space, '=', '#', 'z', grouping are errors; type is 's' or absent; precision truncates
#   * integers (types b c d o x X n, absent): precision is an error; 'c': sign and '#' are errors; ',' only with d/absent,
#     '_' with d b o x X/absent; types e E f F g G % format the integer as a float
#   * floats: types e E f F g G n % or absent; default precision 6 for e f g (and E F G %)
ALIGNS = '<>=^'
INT_TYPES = set('bcdoxXn')
FLOAT_TYPES = set('eEfFgGn%')


class Spec:
    """Fields of a format() spec; width/precision are booleans (present or not)."""
    __slots__ = ('fill', 'align', 'sign', 'z', 'alt', 'zero', 'width', 'grouping', 'precision', 'type')

    def __init__(self, fill=None, align=None, sign=None, z=False, alt=False, zero=False, width=False, grouping=None, precision=False, type=None):
        self.fill, self.align, self.sign, self.z, self.alt, self.zero = fill, align, sign, z, alt, zero
        self.width, self.grouping, self.precision, self.type = width, grouping, precision, type

    def tokens(self):
        t = []
        if self.align:
            if self.fill is not None:
                t.append(self.fill)
            t.append(self.align)
        if self.sign:
            t.append(self.sign)
        if self.z:
            t.append('z')
        if self.alt:
            t.append('#')
        if self.zero:
            t.append('0')
        if self.width:
            t.append(W)
        if self.grouping:
            t.append(self.grouping)
        if self.precision:
            t += ['.', PD]
        if self.type:
            t.append(self.type)
        return TS(t)

    def show(self):
        return self.tokens().show()

    # effective padding behaviour
    def fill_eff(self):
        if self.align and self.fill is not None:
            return self.fill
        return '0' if self.zero else ' '

    def align_eff(self, kind):
        if self.align:
            return self.align
        if self.zero and kind != 'str':
            return '='
        return '<' if kind == 'str' else '>'

    def invalid_for(self, kind):
        """Reason why format(value of kind, spec) raises ValueError, or None."""
        t = self.type
        if kind == 'str':
            if self.sign:
                return 'sign not allowed for strings'
            if self.align == '=':
                return "'=' alignment not allowed for strings"
            if self.alt or self.z or self.grouping:
                return "'#', 'z' and grouping are not allowed for strings"
            if t not in (None, 's'):
                return 'unknown format code %r for str' % t
            return None
        if kind == 'int':
            if t is None or t in INT_TYPES:
                if self.precision:
                    return 'precision not allowed in integer format specifier'
                if self.z:
                    return "'z' not allowed in integer format specifier"
                if t == 'c' and self.sign:
                    return "sign not allowed with integer format specifier 'c'"
                if t == 'c' and self.alt:
                    return "'#' not allowed with integer format specifier 'c'"
                if self.grouping == ',' and t not in (None, 'd'):
                    return "cannot specify ',' with %r" % t
                if self.grouping == '_' and t not in (None, 'd', 'b', 'o', 'x', 'X'):
                    return "cannot specify '_' with %r" % t
                return None
            if t in FLOAT_TYPES:
                return None
            return 'unknown format code %r for int' % t
        if kind == 'float':
            if t is None or t in FLOAT_TYPES:
                if self.grouping and t == 'n':
                    return 'cannot specify grouping with n'
                return None
            return 'unknown format code %r for float' % t
        raise ValueError(kind)


def parse_spec(ts):
    """Parse a token string by the format-spec grammar -> Spec, or a str (reason why it is not a valid spec)."""
    t = list(ts.t)
    sp = Spec()
    i = 0

    def lit(k):
        return t[k] if k < len(t) and isinstance(t[k], str) else None
    if len(t) >= 2 and lit(1) is not None and lit(1) in ALIGNS and (isinstance(t[0], str) or t[0].single):
        sp.fill, sp.align = t[0], t[1]
        i = 2
    elif lit(0) is not None and lit(0) in ALIGNS:
        sp.align = t[0]
        i = 1
    if lit(i) is not None and lit(i) in '+- ':
        sp.sign = t[i]
        i += 1
    if lit(i) == 'z':
        sp.z = True
        i += 1
    if lit(i) == '#':
        sp.alt = True
        i += 1
    if lit(i) == '0':
        sp.zero = True
        i += 1
        while lit(i) == '0':       # further zeros are leading zeros of the width
            i += 1
    if i < len(t) and t[i] is W:
        sp.width = True
        i += 1
    if lit(i) is not None and lit(i) in ',_':
        sp.grouping = t[i]
        i += 1
    if lit(i) == '.':
        if i + 1 < len(t) and t[i + 1] is PD:
            sp.precision = True
            i += 2
        else:
            return 'format specifier missing precision'
    if i < len(t) and isinstance(t[i], str) and i == len(t) - 1:
        sp.type = t[i]
        i += 1
    if i != len(t):
        return 'invalid format specifier %r (unparsed from %r)' % (ts.show(), TS(t[i:]).show())
    return sp


# ------------------------------------------------------------------------------------------------ helpers for callers
def run_function(fn, args, interp=None):
    """Symbolically run a function body with the given parameter values -> list of (status, state, value)."""
    it = interp or Interp()
    st = State(env=dict(args))
    return it.block(fn.body, st)


def describe(v):
    if isinstance(v, TS):
        return repr(v.show())
    if isinstance(v, tuple):
        return '(%s)' % ', '.join(describe(x) for x in v)
    return repr(v)


# =============================================================================================== rules
from ..core import Rule
from ..engine import tables, pyflow
from ..engine.cutil import split_args, match_paren, strip_c_comments
from ..engine.pyindex import walk_no_nested, is_self_attr
from . import iface

PYREX = 'Cython/Compiler/PyrexTypes.py'
OPTIMIZE = 'Cython/Compiler/Optimize.py'
EXPRNODES = 'Cython/Compiler/ExprNodes.py'


def _cls_node(tree, name, rel):
    for n in tree.body:
        if isinstance(n, ast.ClassDef) and n.name == name:
            return n
    raise AnalysisError('class %s not found in %s' % (name, rel))


def _method(cls, name, rel):
    for n in cls.body:
        if isinstance(n, (ast.FunctionDef, ast.AsyncFunctionDef)) and n.name == name:
            return n
    raise AnalysisError('%s.%s not found in %s' % (cls.name, name, rel))


# ------------------------------------------------------------------------------------------------ C side of the int helper
class IntHelper:
    """Interface of the `{{TO_PY_FUNCTION}}(value, width, padding_char, format_char)` helper, read from TypeConversion.c."""

    def __init__(self, ctx, section='CIntToPyUnicode', file='TypeConversion.c'):
        cat = ctx.cat
        proto = cat.section(file, section, 'proto')
        impl = cat.section(file, section, 'impl')
        if proto is None or impl is None:
            raise AnalysisError('utility section %s::%s (proto/impl) not found' % (file, section))
        self.file, self.section, self.line = 'Cython/Utility/' + file, section, proto.line
        text = strip_c_comments(proto.raw).replace('\\\n', ' ')
        m = re.search(r'#\s*define\s+(\{\{\s*(\w+)\s*\}\})\s*\(([^)]*)\)', text)
        if not m:
            raise AnalysisError('%s.proto: no function-like macro named by a template variable' % section)
        self.name_var = m.group(2)
        self.params = [p.strip() for p in m.group(3).split(',')]
        body = text[m.end():].split('\n', 1)[0]
        # calls inside the macro body: callee(args)
        self.routes = []      # (condition text or None, callee, [arg texts])
        for cm in re.finditer(r'(__Pyx\w*\{\{\s*%s\s*\}\})\s*\(' % re.escape(self.name_var), body):
            lp = cm.end() - 1
            rp = match_paren(body, lp)
            if rp < 0:
                raise AnalysisError('%s.proto: unbalanced macro body' % section)
            self.routes.append((cm.group(1), [a.strip() for a in split_args(body[lp + 1:rp])]))
        if not self.routes:
            raise AnalysisError('%s.proto: the helper macro forwards to no function' % section)
        # routing on a character of one macro parameter:  ((p) == ('c')) ? A : B
        self.route_char = None
        rm = re.search(r"\(?\s*\(?\s*(\w+)\s*\)?\s*==\s*\(?\s*'(.)'\s*\)?\s*\)?\s*\?", body)
        if rm and rm.group(1) in self.params:
            self.route_char = (rm.group(1), rm.group(2))
        # the C functions
        self.funcs = {}
        for callee, args in self.routes:
            ds = [d for d in cat.decls.get(callee, []) if d.kind == 'func']
            if not ds:
                raise AnalysisError('C function %s (called by the %s macro) not found' % (callee, section))
            self.funcs[callee] = ds[0]

    def param_kind(self, i):
        """C type category of macro parameter i: 'char' / 'int' / 'value' (the templated type), through the forwarded calls."""
        kinds = set()
        p = self.params[i]
        for callee, args in self.routes:
            d = self.funcs[callee]
            for a, t in zip(args, d.param_types()):
                if re.sub(r'[()\s]', '', a) == p:
                    t = t.replace('const', '').strip()
                    kinds.add('char' if t == 'char' else 'value' if '{{' in t else 'int' if re.fullmatch(r'(?:unsigned |signed )?(?:int|long|short|Py_ssize_t|size_t)', t) else t)
        return kinds

    def selector(self):
        """(macro parameter index of the format selector, set of characters handled, C line) from the routing test and the
        switch statement / remapping tests of the general function."""
        handled = set()
        sel_param = None
        line = self.line
        for callee, args in self.routes:
            d = self.funcs[callee]
            body = strip_c_comments(d.body)
            names = d.param_names()
            for sm in re.finditer(r'\bswitch\s*\(\s*(\w+)\s*\)\s*\{', body):
                if sm.group(1) not in names:
                    continue
                b0 = sm.end() - 1
                blk = ctx_brace(body, b0)
                cases = re.findall(r"\bcase\s+'(\\?.)'\s*:", blk)
                if not cases:
                    continue
                arg = args[names.index(sm.group(1))]
                arg = re.sub(r'[()\s]', '', arg)
                if arg in self.params:
                    sel_param = self.params.index(arg)
                    handled |= set(cases)
                    line = d.line
                    # remapping before the switch:  if (p == 'X') { ... p = 'x'; }
                    for rm in re.finditer(r"\bif\s*\(\s*%s\s*==\s*'(.)'\s*\)\s*\{" % re.escape(sm.group(1)), body[:sm.start()]):
                        blk2 = ctx_brace(body, rm.end() - 1)
                        am = re.search(r"\b%s\s*=\s*'(.)'\s*;" % re.escape(sm.group(1)), blk2)
                        if am and am.group(1) in cases:
                            handled.add(rm.group(1))
        if sel_param is None:
            raise AnalysisError('%s: no switch over a helper parameter found in the C implementation' % self.section)
        if self.route_char and self.params.index(self.route_char[0]) == sel_param:
            handled.add(self.route_char[1])
        return sel_param, handled, line


def ctx_brace(text, b0):
    from ..engine.cutil import Catalogue
    return Catalogue._brace_body(text, b0)


class PyCallSite:
    """`convert_to_pystring` of a numeric type: the tuple unpacked from self._parse_format(...) and the emitted call."""

    def __init__(self, ctx, clsname):
        tree = ctx.parse(PYREX)
        self.cls = _cls_node(tree, clsname, PYREX)
        self.fn = _method(self.cls, 'convert_to_pystring', PYREX)
        self.parse_fn = _method(self.cls, '_parse_format', PYREX)
        self.key = 'PyrexTypes.%s.convert_to_pystring' % clsname
        self.unpack = None
        for n in walk_no_nested(self.fn):
            if isinstance(n, ast.Assign) and isinstance(n.value, ast.Call) and isinstance(n.value.func, ast.Attribute) \
                    and n.value.func.attr == '_parse_format' and isinstance(n.targets[0], ast.Tuple):
                self.unpack = [e.id if isinstance(e, ast.Name) else None for e in n.targets[0].elts]
        if self.unpack is None:
            raise AnalysisError('%s does not unpack self._parse_format(...)' % self.key)
        self.template = None
        for n in walk_no_nested(self.fn):
            if isinstance(n, ast.Return) and n.value is not None:
                t = iface.str_template(n.value)
                if t is not None and '(' in t[0]:
                    self.template = (n, t[0], t[1])
        if self.template is None:
            raise AnalysisError('%s does not return an emitted call template' % self.key)
        node, text, ph = self.template
        lp = text.index('(')
        rp = match_paren(text, lp)
        if rp != len(text.rstrip()) - 1:
            raise AnalysisError('%s: emitted template is not a single call: %r' % (self.key, text))
        self.callee_text = text[:lp].strip()
        k = text[:lp].count(iface.PLACEHOLDER)
        self.callee_ph = ph[:k]
        self.args = []     # (text, quoted?, placeholder node or None, tuple index or None)
        for a in split_args(text[lp + 1:rp]):
            cnt = a.count(iface.PLACEHOLDER)
            p = ph[k] if cnt == 1 else None
            k += cnt
            quoted = bool(re.fullmatch(r"\s*'%s'\s*" % iface.PLACEHOLDER, a))
            idx = self.unpack.index(p.id) if isinstance(p, ast.Name) and p.id in self.unpack else None
            self.args.append((a.strip(), quoted, p, idx))
        self.line = node.lineno

    def can_coerce_guard(self):
        """In can_coerce_to_pystring: does the result imply that tuple element 0 (the format character) is not None?"""
        fn = _method(self.cls, 'can_coerce_to_pystring', PYREX)
        names = None
        for n in walk_no_nested(fn):
            if isinstance(n, ast.Assign) and isinstance(n.value, ast.Call) and isinstance(n.value.func, ast.Attribute) \
                    and n.value.func.attr == '_parse_format' and isinstance(n.targets[0], ast.Tuple):
                names = [e.id if isinstance(e, ast.Name) else None for e in n.targets[0].elts]
        if not names:
            return fn, None
        ok = True
        found = False
        for n in walk_no_nested(fn):
            if isinstance(n, ast.Return):
                found = True
                conj = n.value.values if isinstance(n.value, ast.BoolOp) and isinstance(n.value.op, ast.And) else [n.value]
                good = False
                for c in conj:
                    if isinstance(c, ast.Compare) and isinstance(c.left, ast.Name) and c.left.id == names[0] and len(c.ops) == 1 and \
                            isinstance(c.ops[0], ast.IsNot) and isinstance(c.comparators[0], ast.Constant) and c.comparators[0].value is None:
                        good = True
                    if isinstance(c, ast.Name) and c.id == names[0]:
                        good = True
                if isinstance(n.value, ast.Constant) and not n.value.value:
                    good = True
                ok = ok and good
        return fn, (ok and found)


# ------------------------------------------------------------------------------------------------ C18-INT / C18-DBL
def _int_shapes():
    """Complete product of the interacting fields (alignment, sign, zero flag, width, type) of the format-spec grammar;
    the fields the helper cannot express at all (fill, '#', grouping, precision, 'z') are added one at a time."""
    types = [None] + list('bcdoxXnes')
    base = []
    for align in (None, '<', '>', '=', '^'):
        for sign in (None, '-', '+', ' '):
            for zero in (False, True):
                for width in (False, True):
                    for t in types:
                        base.append(dict(align=align, sign=sign, zero=zero, width=width, type=t))
    return base


def _extras(d):
    out = [dict(d, alt=True), dict(d, grouping=','), dict(d, grouping='_'), dict(d, precision=True), dict(d, z=True)]
    if d.get('align'):
        out.append(dict(d, fill=FILL))
        out.append(dict(d, fill='0'))
    else:
        for a in '<>':
            out.append(dict(d, fill=FILL, align=a))
    return out


def _returns(fn, spec_ts, what):
    """Symbolic results of a one-argument pure function -> list of returned tuples; raises are reported as strings."""
    res = run_function(fn, {fn.args.args[-1].arg: spec_ts})
    out = []
    for status, st, val in res:
        if status == 'return':
            out.append(val)
        elif status == 'raise':
            out.append('raises %s' % val)
        else:
            out.append(None)     # falls off the end: returns None
    return out


def rule_int(ctx, site=None, helper=None, parse_fn=None):
    """Translation validation of CIntLike._parse_format against the format-spec reference, for the semantics of the C helper."""
    r = Rule('C18-INT', 'CIntLike._parse_format: every format spec it accepts for C-level integer formatting means, by the format-spec '
             'mini-language, exactly what the C helper does with the returned (format char, width, padding) - right-aligned, space padded or '
             'sign-aware zero padded - and specs CPython rejects are not accepted', floor=400)
    site = site or PyCallSite(ctx, 'CIntLike')
    helper = helper or IntHelper(ctx)
    fn = parse_fn or site.parse_fn
    roles = _roles(site, helper)
    sel, handled, cline = helper.selector()
    key0 = 'PyrexTypes.CIntLike._parse_format'
    problems = {}
    if roles is None:
        r.floor = 0
        r.inst(key0 + ':interface')
        r.violate(key0 + ':interface', PYREX, site.line, 'the (format char, width, padding) result of %s cannot be related to the parameters (%s) of the C helper through the '
                  'call emitted by convert_to_pystring (%s): the helper would be called with arguments in the wrong roles' % (key0, ', '.join(helper.params), ', '.join(a[0] for a in site.args)))
        return r, []

    def check(d):
        sp = Spec(**d)
        ts = sp.tokens()
        accepted = False
        for val in _returns(fn, ts, key0):
            if isinstance(val, str):
                problems.setdefault(('raises', val), []).append(sp.show())
                continue
            if not isinstance(val, tuple) or len(val) != len(site.unpack):
                raise AnalysisError('%s returns %s for %r: not a %d-tuple' % (key0, describe(val), sp.show(), len(site.unpack)))
            fchar, width, pad = val[roles['format']], val[roles['width']], val[roles['padding']]
            if fchar is None:
                continue
            accepted = True
            if isinstance(fchar, Unknown) or not isinstance(fchar, TS) or not fchar.literal or len(fchar.t) != 1:
                problems.setdefault(('unvalidated-format-char', ''), []).append(sp.show())
                continue
            fc = fchar.text()
            why = sp.invalid_for('int')
            if why is not None:
                oid = 'sign-with-c' if (sp.type == 'c' and sp.sign) else 'accepts-invalid-spec'
                problems.setdefault((oid, why), []).append(sp.show())
                continue
            if fc != (sp.type or 'd'):
                problems.setdefault(('format-char', 'returns format char %r' % fc), []).append(sp.show())
                continue
            if sp.alt or sp.grouping or sp.z or sp.sign in ('+', ' '):
                problems.setdefault(('drops-field', "a sign option, '#', 'z' or grouping is accepted but the helper cannot express it"), []).append(sp.show())
                continue
            if not (isinstance(pad, TS) and pad.literal and len(pad.t) == 1):
                raise AnalysisError('%s: padding %s for %r is not a constant character' % (key0, describe(pad), sp.show()))
            pc = pad.text()
            if sp.width:
                if not (isinstance(width, SymInt) and width.kind == 'int' and width.ts.t == (W,)):
                    problems.setdefault(('width', 'returns width %s' % describe(width)), []).append(sp.show())
                    continue
                a, f = sp.align_eff('int'), sp.fill_eff()
                if fc == 'c' and a == '=':
                    a = '>'          # no sign: '=' pads like '>'
                if fc == 'c' and (a, f) == ('>', '0'):
                    a = '='          # and zero fill on the left is the same thing
                want = {('>', ' '): ' ', ('=', '0'): '0'}.get((a, f))
                if want is None:
                    oid = 'align-with-zero' if (sp.align and sp.zero) else 'alignment'
                    problems.setdefault((oid, "spec means alignment %r with fill %r; the helper can only right-align with spaces or do sign-aware zero padding" % (a, f)), []).append(sp.show())
                elif want != pc:
                    oid = 'align-with-zero' if (sp.align and sp.zero) else 'padding'
                    problems.setdefault((oid, 'spec means alignment %r with fill %r but padding character %r is returned' % (a, f, pc)), []).append(sp.show())
            else:
                if width != 0:
                    problems.setdefault(('width', 'no width in the spec but %s is returned' % describe(width)), []).append(sp.show())
        return accepted

    n = 0
    acc = []
    for d in _int_shapes():
        n += 1
        if check(d):
            acc.append(d)
    for d in [dict(align=None, sign=None, zero=False, width=False, type=None)] + acc:
        for e in _extras(d):
            n += 1
            check(e)
    for i in range(n):
        r.inst('shape#%d' % i, sample=None)
    r.samples.append('%d format-spec shapes, %d accepted by _parse_format' % (n, len(acc)))
    for (oid, why), shapes in sorted(problems.items()):
        r.violate('%s:%s' % (key0, oid), PYREX, fn.lineno,
                  "%s accepts format specs that the C helper formats differently from CPython's format(): %s.  Specs (opaque parts in <>): %s"
                  % (key0, why, ', '.join(repr(s) for s in sorted(set(shapes))[:12])))
    return r, acc


def _roles(site, helper):
    """tuple index of the _parse_format result -> role, through unpack names, template positions and C parameters.
    When the emitted template does not line up with the C parameters (C18-CALL reports that), fall back to pairing the
    quoted arguments with the char parameters in order; None if even that is impossible."""
    sel, handled, _ = helper.selector()
    roles = {}
    consistent = len(site.args) == len(helper.params)
    for pos, (text, quoted, p, idx) in enumerate(site.args):
        if idx is None or pos >= len(helper.params):
            continue
        kinds = helper.param_kind(pos)
        if quoted != (kinds == {'char'}):
            consistent = False
        if pos == sel:
            roles['format'] = idx
        elif kinds == {'char'}:
            roles['padding'] = idx
        elif kinds == {'int'}:
            roles['width'] = idx
    if consistent and set(roles) == {'format', 'width', 'padding'} and len(set(roles.values())) == 3:
        return roles
    cparams = [('format' if i == sel else 'padding') for i in range(len(helper.params)) if helper.param_kind(i) == {'char'}]
    quoted_idx = [idx for text, quoted, p, idx in site.args if quoted and idx is not None]
    plain_idx = [idx for text, quoted, p, idx in site.args if not quoted and idx is not None]
    if len(cparams) == len(quoted_idx) == 2 and len(plain_idx) == 1:
        roles = dict(zip(cparams, quoted_idx))
        roles['width'] = plain_idx[0]
        if len(set(roles.values())) == 3:
            return roles
    return None


# C-API reference: PyOS_double_to_string(val, format_code, precision, flags, ptype): "format_code must be one of 'e', 'E',
# 'f', 'F', 'g', 'G' or 'r'.  For 'r', the supplied precision must be 0 and is ignored."  The format-spec reference: a float
# with presentation type e/E/f/F/g/G and no precision is formatted with precision 6; an empty spec gives str(x), which for a
# float is repr(x) ('r', with the trailing '.0' for integral values).
DOUBLE_CODES = set('eEfFgGr')
DEFAULT_FLOAT_PRECISION = 6


def rule_dbl(ctx, fn=None):
    r = Rule('C18-DBL', "CFloatType._parse_format: an accepted spec is [.precision]type with type in e E f F g G (default precision 6) or empty "
             "(-> repr, precision 0); everything else falls back to format(); the codes are valid PyOS_double_to_string() codes", floor=100)
    tree = ctx.parse(PYREX)
    cls = _cls_node(tree, 'CFloatType', PYREX)
    fn = fn or _method(cls, '_parse_format', PYREX)
    key0 = 'PyrexTypes.CFloatType._parse_format'
    problems = {}
    types = [None] + list('eEfFgGn%ds')

    def check(d):
        sp = Spec(**d)
        accepted = False
        for val in _returns(fn, sp.tokens(), key0):
            if isinstance(val, str):
                problems.setdefault(('raises', val), []).append(sp.show())
                continue
            if not isinstance(val, tuple) or len(val) != 2:
                raise AnalysisError('%s returns %s for %r: not a pair' % (key0, describe(val), sp.show()))
            fchar, prec = val
            if fchar is None:
                continue
            accepted = True
            if not (isinstance(fchar, TS) and fchar.literal and len(fchar.t) == 1):
                problems.setdefault(('unvalidated-format-char', ''), []).append(sp.show())
                continue
            fc = fchar.text()
            if fc not in DOUBLE_CODES:
                problems.setdefault(('invalid-code', '%r is not a PyOS_double_to_string() format code' % fc), []).append(sp.show())
                continue
            why = sp.invalid_for('float')
            if why:
                problems.setdefault(('accepts-invalid-spec', why), []).append(sp.show())
                continue
            if sp.width or sp.alt or sp.grouping or sp.z or sp.sign in ('+', ' '):
                problems.setdefault(('drops-field', 'a width, sign option, #, z or grouping is accepted but the helper cannot express it'), []).append(sp.show())
                continue
            if sp.type is None:
                if sp.precision or fc != 'r' or prec != 0:
                    problems.setdefault(('repr', "a spec without presentation type must give ('r', 0) only when it has no precision; got (%r, %s)" % (fc, describe(prec))), []).append(sp.show())
                continue
            if fc != sp.type:
                problems.setdefault(('format-char', 'returns code %r' % fc), []).append(sp.show())
                continue
            if sp.precision:
                if not (isinstance(prec, SymInt) and prec.kind == 'int' and prec.ts.t == (PD,)):
                    problems.setdefault(('precision', 'returns precision %s' % describe(prec)), []).append(sp.show())
            elif prec != DEFAULT_FLOAT_PRECISION:
                problems.setdefault(('default-precision', 'returns precision %s where format() uses %d' % (describe(prec), DEFAULT_FLOAT_PRECISION)), []).append(sp.show())
        return accepted

    n = 0
    acc = []
    for prec in (False, True):
        for t in types:
            d = dict(precision=prec, type=t)
            n += 1
            if check(d):
                acc.append(d)
    singles = [dict(width=True), dict(zero=True), dict(zero=True, width=True), dict(alt=True), dict(grouping=','), dict(grouping='_'), dict(z=True)]
    singles += [dict(sign=s) for s in '+- '] + [dict(align=a) for a in ALIGNS] + [dict(align=a, width=True) for a in ALIGNS] + [dict(align='>', fill=FILL, width=True)]
    for d in [dict(precision=False, type=None)] + acc:
        for e in singles:
            n += 1
            check(dict(d, **e))
    for i in range(n):
        r.inst('shape#%d' % i)
    r.samples.append('%d format-spec shapes, %d accepted' % (n, len(acc)))
    for (oid, why), shapes in sorted(problems.items()):
        r.violate('%s:%s' % (key0, oid), PYREX, fn.lineno,
                  "%s accepts format specs that PyOS_double_to_string() formats differently from CPython's format(): %s.  Specs: %s"
                  % (key0, why, ', '.join(repr(s) for s in sorted(set(shapes))[:12])))
    return r


# ------------------------------------------------------------------------------------------------ C18-CALL
def rule_call(ctx):
    """The emitted helper calls of convert_to_pystring agree with the C helpers: arity, literal kind, name-aligned order,
    utility section, and None (unsupported) never reaches the emitted call."""
    r = Rule('C18-CALL', 'convert_to_pystring of C integers/floats: the emitted call has the arity of the C helper, character literals fill '
             'char parameters, no two name-carrying arguments are mutually swapped, the helper name is the one the loaded utility section defines, '
             'and can_coerce_to_pystring rejects specs for which _parse_format returns None', floor=8)
    cat = ctx.cat
    # ---- integers
    site = PyCallSite(ctx, 'CIntLike')
    helper = IntHelper(ctx)
    key = site.key
    r.inst(key + ':arity', sample='%s emits %s(%s); C macro {{%s}}(%s)' % (key, site.callee_text, ', '.join(a[0] for a in site.args), helper.name_var, ', '.join(helper.params)))
    if len(site.args) != len(helper.params):
        r.violate(key + ':arity', PYREX, site.line, 'emitted call passes %d argument(s) but the C macro {{%s}} of section %s takes %d (%s): the generated C does not compile'
                  % (len(site.args), helper.name_var, helper.section, len(helper.params), ', '.join(helper.params)))
    else:
        _kinds_and_swaps(r, key, site, helper.params, [helper.param_kind(i) for i in range(len(helper.params))], PYREX)
    # the callee is the name handed to the utility section as its template variable
    r.inst(key + ':callee')
    ok = False
    callee = site.callee_ph[0] if len(site.callee_ph) == 1 and site.callee_text == iface.PLACEHOLDER else None
    for n in walk_no_nested(site.fn):
        if isinstance(n, ast.Call) and isinstance(n.func, ast.Attribute) and n.func.attr in iface.LOADERS and n.args \
                and isinstance(n.args[0], ast.Constant) and n.args[0].value == helper.section:
            for k in n.keywords:
                if k.arg == 'context' and isinstance(k.value, ast.Dict):
                    for dk, dv in zip(k.value.keys, k.value.values):
                        if isinstance(dk, ast.Constant) and dk.value == helper.name_var and isinstance(dv, ast.Name) and \
                                isinstance(callee, ast.Name) and dv.id == callee.id:
                            ok = True
    if not ok:
        r.violate(key + ':callee', PYREX, site.line, 'the function name of the emitted call (%s) is not the value passed as template variable %s to utility '
                  'section %s: the call names a helper that is not defined' % (node_src(callee) if callee is not None else site.callee_text, helper.name_var, helper.section))
    # ---- floats
    fsite = PyCallSite(ctx, 'CFloatType')
    fkey = fsite.key
    cname = fsite.callee_text
    decls = [d for d in cat.lookup(cname) if d.kind == 'func']
    r.inst(fkey + ':arity', sample='%s emits %s(%s)' % (fkey, cname, ', '.join(a[0] for a in fsite.args)))
    if not decls:
        r.violate(fkey + ':callee', PYREX, fsite.line, 'emitted helper %s has no C definition' % cname)
    else:
        d = decls[0]
        if len(fsite.args) != d.nparams:
            r.violate(fkey + ':arity', PYREX, fsite.line, 'emitted call %s passes %d argument(s), the C function takes %d' % (cname, len(fsite.args), d.nparams))
        else:
            kinds = []
            for t in d.param_types():
                t = t.replace('const', '').strip()
                kinds.append({'char' if t == 'char' else 'int' if re.fullmatch(r'(?:unsigned |signed )?(?:int|long|short|Py_ssize_t|size_t)', t) else t})
            _kinds_and_swaps(r, fkey, fsite, d.param_names(), kinds, PYREX)
        # section loaded
        r.inst(fkey + ':section')
        loaded = set()
        for n in walk_no_nested(fsite.fn):
            if isinstance(n, ast.Call) and isinstance(n.func, ast.Attribute) and n.func.attr in iface.LOADERS and n.args and isinstance(n.args[0], ast.Constant):
                loaded.add(n.args[0].value)
        if d.section.name not in loaded:
            r.violate(fkey + ':section', PYREX, fsite.line, '%s emits a call to %s but does not load utility section %s that defines it' % (fkey, cname, d.section.name))
        # the format character goes to PyOS_double_to_string's format_code
        r.inst(fkey + ':code-position')
        body = strip_c_comments(d.body or '')
        m = re.search(r'\bPyOS_double_to_string\s*\(', body)
        if not m:
            raise AnalysisError('%s does not call PyOS_double_to_string' % cname)
        cargs = [a.strip() for a in split_args(body[m.end():match_paren(body, m.end() - 1)])]
        names = d.param_names()
        want = {}
        for pos, (text, quoted, p, idx) in enumerate(fsite.args):
            if idx is not None:
                want[idx] = names[pos]
        # _parse_format returns (code, precision): element 0 must arrive in argument 2, element 1 in argument 3 of PyOS_double_to_string
        if len(cargs) < 3 or want.get(0) != cargs[1] or want.get(1) != cargs[2]:
            r.violate(fkey + ':code-position', PYREX, fsite.line, 'the (format code, precision) pair of _parse_format does not arrive in the format_code/precision '
                      'arguments of PyOS_double_to_string (C call passes %s; python passes element 0 as %r and element 1 as %r)' % (cargs[:3], want.get(0), want.get(1)))
    # ---- the tuple is unpacked in the order in which _parse_format builds it (mutual swap of name-carrying elements)
    for s in (site, fsite):
        for fn_name in ('convert_to_pystring', 'can_coerce_to_pystring'):
            fn = _method(s.cls, fn_name, PYREX)
            k = s.key.replace('convert_to_pystring', fn_name) + ':unpack'
            r.inst(k)
            for i, j, a, b in _unpack_swaps(s.parse_fn, fn):
                r.violate(k, PYREX, fn.lineno, "%s unpacks element %d of the _parse_format result into %r and element %d into %r, but _parse_format builds them as %r and %r: "
                          "the two values are swapped" % (fn_name, i, a[0], j, b[0], a[1], b[1]))
    # ---- None never reaches the emitted call
    for s in (site, fsite):
        fn, ok = s.can_coerce_guard()
        k = s.key.replace('convert_to_pystring', 'can_coerce_to_pystring') + ':none'
        r.inst(k)
        if ok is None:
            raise AnalysisError('%s does not unpack self._parse_format(...)' % k)
        if not ok:
            r.violate(k, PYREX, fn.lineno, "can_coerce_to_pystring may return a true value although _parse_format returned None as format character (unsupported spec): "
                      "convert_to_pystring then emits 'None' into the C call and C-level formatting is used for a spec it cannot express")
    # positive control: a swapped template
    class _S:
        args = [('§', False, ast.Name(id='cvalue'), None), ("'§'", True, ast.Name(id='padding_char'), 2), ('§', False, ast.Name(id='width'), 1), ("'§'", True, ast.Name(id='format_type'), 0)]
        line = 0
    pr = Rule('x', 'x')
    _kinds_and_swaps(pr, 'pc', _S, ['value', 'width', 'padding_char', 'format_char'], [{'value'}, {'int'}, {'char'}, {'char'}], PYREX)
    r.positive_control(len(pr.findings) >= 2, 'width / padding_char swapped in the emitted template')
    return r


def _name_like(a, b):
    a, b = a.lower().strip('_'), b.lower().strip('_')
    return a == b or a.startswith(b + '_') or b.startswith(a + '_')


def _unpack_swaps(parse_fn, user_fn):
    """Names of the returned tuple elements (where they are plain names / int(name)) vs. the unpack target names."""
    rets = []
    for n in walk_no_nested(parse_fn):
        if isinstance(n, ast.Return) and isinstance(n.value, ast.Tuple):
            names = []
            for e in n.value.elts:
                while isinstance(e, ast.Call) and len(e.args) == 1 and isinstance(e.func, ast.Name):
                    e = e.args[0]
                names.append(e.id if isinstance(e, ast.Name) else None)
            rets.append(names)
    unpack = None
    for n in walk_no_nested(user_fn):
        if isinstance(n, ast.Assign) and isinstance(n.value, ast.Call) and isinstance(n.value.func, ast.Attribute) \
                and n.value.func.attr == '_parse_format' and isinstance(n.targets[0], ast.Tuple):
            unpack = [e.id if isinstance(e, ast.Name) else None for e in n.targets[0].elts]
    out = []
    if not unpack:
        return out
    for names in rets:
        if len(names) != len(unpack):
            continue
        for i in range(len(unpack)):
            for j in range(i + 1, len(unpack)):
                if unpack[i] and unpack[j] and names[i] and names[j] and _name_like(unpack[i], names[j]) and _name_like(unpack[j], names[i]) \
                        and not _name_like(unpack[i], names[i]):
                    out.append((i, j, (unpack[i], names[i]), (unpack[j], names[j])))
        if out:
            break
    return out


def _kinds_and_swaps(r, key, site, pnames, pkinds, rel):
    names = []
    for pos, (text, quoted, p, idx) in enumerate(site.args):
        kinds = pkinds[pos]
        nm = p.id if isinstance(p, ast.Name) else p.attr if isinstance(p, ast.Attribute) else None
        names.append(nm)
        r.inst('%s:arg%d' % (key, pos), sample="%s argument %d: %s (%s) -> C parameter %s %s" % (key, pos, text, nm, sorted(kinds), pnames[pos]))
        if quoted and kinds and kinds != {'char'}:
            r.violate('%s:arg%d:kind' % (key, pos), rel, site.line, "argument %d is emitted as a character literal ('%s') but C parameter %r is %s" % (pos, nm, pnames[pos], sorted(kinds)))
        if not quoted and kinds == {'char'}:
            r.violate('%s:arg%d:kind' % (key, pos), rel, site.line, "argument %d (%s) is emitted unquoted but C parameter %r is a char: the character would be emitted as an identifier/number" % (pos, nm, pnames[pos]))
    for i in range(len(names)):
        for j in range(i + 1, len(names)):
            if names[i] and names[j] and pnames[i] and pnames[j] and names[i] != names[j] and \
                    iface._same(names[i], pnames[j]) and iface._same(names[j], pnames[i]) and not iface._same(names[i], pnames[i]):
                r.violate('%s:%d<->%d' % (key, i, j), rel, site.line, 'emitted call passes %r in the position of C parameter %r and %r in the position of %r: the two arguments are swapped'
                          % (names[i], pnames[i], names[j], pnames[j]))


# ------------------------------------------------------------------------------------------------ C18-TRN
# Source: Python library reference, "printf-style String Formatting":
#   conversion specifier = '%' [mapping key] [flags] [width] ['.' precision] [length modifier] type
#   flags: '#' alternate form; '0' zero padded for numeric values; '-' left adjusted (overrides '0' if both are given);
#          ' ' a blank before a positive number; '+' sign (overrides ' ')
#   types: d i u (signed decimal; a float operand is truncated to int), o x X, e E f F g G, c (int or 1-char str),
#          r s a (repr()/str()/ascii() of any object; the precision truncates), %
#   Everything - strings included - is right-aligned in the width unless '-' is given; '0' and ' ' do not apply to r/s/a.
# Differences to the format-spec mini-language (see above) and the obligation each puts on a translation %spec -> {!conv:spec}:
TRN_TABLE = {
    'str-right-align': "r/s/a with a width and no '-': format() left-aligns strings, so the spec needs an explicit '>'",
    'minus-overrides-zero': "'-' together with '0' ('%-05d'): left-aligned, space padded; a '0' left in the spec becomes the fill character ('<05d' -> '30000')",
    'flag-order': "flags come in any order ('%0-5d' == '%-05d'); format() has a fixed field order, '0-5d' is an invalid spec",
    'repeated-flag': "a flag may be repeated ('%--5s', '%005d') without changing its meaning",
    'space-flag-str': "the ' ' flag is ignored for r/s/a by %, format() rejects it for strings",
    'd-int-conversion': "%d/%i/%u truncate a float operand; format(2.5, 'd') raises, so the value is converted to int first (and i/u are spelled d)",
    'int-precision': "an integer precision ('%.3d') means minimum digits; format() has no such field for integers",
    'str-conversion': "%s/%r/%a apply str()/repr()/ascii(); format() alone would call __format__",
    'no-conversion-for-numbers': "o x X e E f F g G: the operand is formatted as it is (a conversion to int or str would change the text or hide the TypeError)",
    'untranslatable-type': "%c accepts an int or a 1-character string; format() has no single spec for both",
    'percent-literal': "'%%' is a literal '%'",
    'give-up-is-complete': "when a placeholder cannot be translated the whole %-expression is left alone (no truncated f-string)",
    'equivalent-spec': "width, precision and type character are carried over unchanged",
}
PCT_TYPES = 'diouxXeEfFgGcrsa'
PCT_KIND = dict(d='int', i='int', u='int', o='int', x='int', X='int', e='float', E='float', f='float', F='float', g='float', G='float', r='str', s='str', a='str', c=None)


class FStringBuilder:
    """The %-format -> f-string rewrite: function, its chunk loop, the regular expression that cuts the template."""

    def __init__(self, fn, regex, key):
        self.fn, self.regex, self.key = fn, regex, key
        self.loop_i = None
        for i, s in enumerate(fn.body):
            if isinstance(s, ast.For) and isinstance(s.iter, ast.Call) and isinstance(s.iter.func, ast.Attribute) and s.iter.func.attr == 'split' \
                    and isinstance(s.target, ast.Name):
                self.loop_i = i
        if self.loop_i is None:
            raise AnalysisError('%s: the loop over re.split(...) chunks was not found' % key)
        self.loop = fn.body[self.loop_i]
        try:
            self.rx = re.compile(regex)
        except re.error as e:
            raise AnalysisError('%s: cannot compile the placeholder regex: %s' % (key, e))
        if self.rx.groups != 1:
            raise AnalysisError('%s: the placeholder regex must have exactly one group for re.split (has %d)' % (key, self.rx.groups))

    @classmethod
    def from_repo(cls, ctx):
        tree = ctx.parse(OPTIMIZE)
        c = _cls_node(tree, 'ConstantFolding', OPTIMIZE)
        fn = _method(c, '_build_fstring', OPTIMIZE)
        key = 'Optimize.ConstantFolding._build_fstring'
        loop = None
        for s in fn.body:
            if isinstance(s, ast.For) and isinstance(s.iter, ast.Call) and isinstance(s.iter.func, ast.Attribute) and s.iter.func.attr == 'split':
                loop = s
        if loop is None or not loop.iter.args:
            raise AnalysisError('%s: the loop over re.split(...) chunks was not found' % key)
        a0 = loop.iter.args[0]
        regex = None
        if is_self_attr(a0):
            for n in c.body:
                if isinstance(n, ast.Assign) and any(isinstance(t, ast.Name) and t.id == a0.attr for t in n.targets):
                    regex = tables.literal(n.value)
        elif isinstance(a0, ast.Constant):
            regex = a0.value
        if not isinstance(regex, str):
            raise AnalysisError('%s: the placeholder regex %s is not a constant' % (key, node_src(a0)))
        return cls(fn, regex, key)

    def admitted(self, run, width, prec, t):
        text = '%' + run + ('7' if width else '') + ('.3' if prec else '') + t
        return self.rx.fullmatch(text) is not None

    def check_alphabet(self):
        """Flag characters the regex admits must be modelled by the reference table."""
        for c in '+#*lhL':
            for probe in ('%' + c + 'd', '%' + c + '7d', '%7' + c + 'd', '%' + c + c + '7d'):
                if self.rx.fullmatch(probe):
                    raise AnalysisError("%s: the placeholder regex admits %r; flag %r is not in the checker's reference table" % (self.key, probe, c))

    def simulate(self, chunk):
        """Run: statements before the loop, one loop iteration with the chunk, statements after the loop.
        -> list of (optimised?, events, note)"""
        it = Interp()
        st = State(env={a.arg: UNKNOWN for a in self.fn.args.args})
        pre = it.block(self.fn.body[:self.loop_i], st)
        results = []
        for status, s1, val in pre:
            if status != 'next':
                raise AnalysisError('%s: the code before the chunk loop does not fall through (%s)' % (self.key, status))
            it.assign(self.loop.target, chunk, s1)
            for status2, s2, val2 in it.block(self.loop.body, s1):
                if status2 == 'return':
                    results.append((val2 is not None, s2.events, 'returns from inside the loop'))
                    continue
                if status2 == 'raise':
                    results.append((None, s2.events, 'raises %s' % val2))
                    continue
                for status3, s3, val3 in it.block(self.fn.body[self.loop_i + 1:], s2):
                    if status3 == 'return':
                        results.append((val3 is not None, s3.events, status2))
                    elif status3 == 'raise':
                        # an exception after the loop that is not caught: only the StopIteration of next() is expected to be handled
                        results.append((None, s3.events, 'raises %s' % val3))
                    else:
                        results.append((False, s3.events, status2))
        return results


def _expected_pad(kind, run):
    left = '-' in run
    if kind == 'str':
        return ('<' if left else '>', ' ')
    if left:
        return ('<', ' ')
    if '0' in run:
        return ('=', '0')
    return ('>', ' ')


def _trn_check(b, run, width, prec, t):
    """-> list of (obligation id, message) for one placeholder shape."""
    chunk = TS(['%'] + list(run) + ([W] if width else []) + (['.', PD] if prec else []) + [t])
    shape = chunk.show()
    out = []
    kind = PCT_KIND.get(t)
    for optimised, events, note in b.simulate(chunk):
        if optimised is None:
            out.append(('crash', '%r: the rewrite %s' % (shape, note)))
            continue
        if not optimised:
            continue
        fvn = [e for e in events if e.cls == 'FormattedValueNode']
        if note == 'break':
            out.append(('give-up-is-complete', '%r: the chunk loop is left with break but the function still builds an f-string from the chunks seen so far' % shape))
            continue
        if len(fvn) != 1:
            out.append(('equivalent-spec', '%r: %d formatted values are built for one placeholder' % (shape, len(fvn))))
            continue
        e = fvn[0]
        conv = e.kw.get('conversion_char')
        spec = e.kw.get('format_spec')
        if isinstance(spec, Node):
            spec = spec.payload
        if spec is None:
            spec = TS()
        if isinstance(conv, Unknown) or isinstance(spec, Unknown) or not isinstance(spec, TS) or not (conv is None or (isinstance(conv, TS) and conv.literal)):
            raise AnalysisError('%s: cannot model the FormattedValueNode built for %r (conversion_char=%s, format_spec=%s)' % (b.key, shape, describe(conv), describe(spec)))
        conv = conv.text() if conv is not None else None
        got = '{!%s:%s}' % (conv, spec.show()) if conv else '{:%s}' % spec.show()
        if kind is None:
            out.append(('untranslatable-type', '%r is rewritten to %s' % (shape, got)))
            continue
        # conversion
        if kind == 'str' and conv != t:
            out.append(('str-conversion', '%r is rewritten to %s: conversion must be !%s' % (shape, got, t)))
            continue
        if t in 'diu' and conv != 'd':
            out.append(('d-int-conversion', '%r is rewritten to %s without the int conversion' % (shape, got)))
            continue
        if kind in ('int', 'float') and t not in 'diu' and conv is not None:
            out.append(('no-conversion-for-numbers', '%r is rewritten to %s: the conversion changes the operand' % (shape, got)))
            continue
        if kind == 'int' and prec:
            out.append(('int-precision', '%r is rewritten to %s' % (shape, got)))
            continue
        sp = parse_spec(spec)
        oid = None
        if ' ' in run and kind == 'str':
            oid = 'space-flag-str'
        elif len(set(run)) < len(run):
            oid = 'repeated-flag'
        elif '-' in run and '0' in run:
            oid = 'minus-overrides-zero' if run.index('-') < run.index('0') else 'flag-order'
        why = None
        if isinstance(sp, str):
            why = sp
        else:
            why = sp.invalid_for(kind)
            if why is None:
                if sp.width != width or sp.precision != prec:
                    why, oid = 'width or precision is lost', oid or 'equivalent-spec'
                elif sp.alt or sp.grouping or sp.z:
                    why, oid = "'#', 'z' or grouping appears in the spec", oid or 'equivalent-spec'
                elif kind == 'str' and sp.type not in (None, 's'):
                    why, oid = 'type character %r' % sp.type, oid or 'equivalent-spec'
                elif kind != 'str' and not (sp.type == t or (t in 'diu' and sp.type in (None, 'd'))):
                    why, oid = 'type character %r instead of %r' % (sp.type, 'd' if t in 'diu' else t), oid or ('d-int-conversion' if t in 'iu' else 'equivalent-spec')
                elif kind != 'str' and (' ' in run) != (sp.sign == ' '):
                    why, oid = "the ' ' flag is not carried over as sign option", oid or 'equivalent-spec'
                elif kind != 'str' and sp.sign == '+':
                    why, oid = "a '+' sign option appears", oid or 'equivalent-spec'
                elif width:
                    want = _expected_pad(kind, run)
                    have = (sp.align_eff(kind), sp.fill_eff())
                    if have != want:
                        why = '%% pads %s with %r, the spec pads %s with %r' % (_al(want[0]), want[1], _al(have[0]), have[1])
                        oid = oid or ('str-right-align' if kind == 'str' else 'equivalent-spec')
            else:
                oid = oid or ('str-right-align' if kind == 'str' and sp.zero else 'equivalent-spec')
        if isinstance(sp, str):
            oid = oid or 'equivalent-spec'
        if why is not None:
            out.append((oid, '%r is rewritten to %s: %s' % (shape, got, why)))
    return out


def _al(a):
    return {'<': 'on the right (left-aligned)', '>': 'on the left (right-aligned)', '=': 'after the sign', '^': 'on both sides'}[a]


def _flag_runs():
    alpha = '-0 '
    runs = ['']
    for a in alpha:
        runs.append(a)
    for a in alpha:
        for c in alpha:
            runs.append(a + c)
    return runs


def trn_problems(b):
    """All placeholder shapes admitted by the regex -> (number of shapes, {(obligation, kind): [messages]})"""
    b.check_alphabet()
    n = 0
    problems = {}
    for t in PCT_TYPES:
        for run in _flag_runs():
            for width in (False, True):
                for prec in (False, True):
                    if not b.admitted(run, width, prec, t):
                        continue
                    n += 1
                    for oid, msg in _trn_check(b, run, width, prec, t):
                        problems.setdefault((oid, PCT_KIND.get(t) or t), []).append(msg)
    # '%%'
    n += 1
    for optimised, events, note in b.simulate(TS('%%')):
        if optimised is None:
            problems.setdefault(('crash', '%'), []).append("'%%%%': the rewrite %s" % note)
        elif optimised:
            un = [e for e in events if e.cls != 'FormattedValueNode' and isinstance(e.payload, TS)]
            if [e for e in events if e.cls == 'FormattedValueNode'] or [e.payload.show() for e in un] != ['%']:
                problems.setdefault(('percent-literal', '%'), []).append("'%%%%' is rewritten to %s" % [repr(e) for e in events])
    return n, problems


TRN_POSITIVE = '''
def _build_fstring(self, pos, ustring, format_args):
    args = iter(format_args)
    substrings = []
    ok = True
    for s in re.split(self.rx, ustring):
        if not s:
            continue
        if s == '%%':
            substrings.append(UnicodeNode(pos, value=EncodedString('%')))
            continue
        if s[0] != '%':
            substrings.append(UnicodeNode(pos, value=EncodedString(s)))
            continue
        t = s[-1]
        try:
            arg = next(args)
        except StopIteration:
            ok = False
            break
        if t in 'sd':
            spec = s[1:]
            conv = None
            if t == 's':
                spec = spec[:-1]
                conv = t
            else:
                conv = 'd'
            if spec.startswith('-'):
                spec = '<' + spec[1:]
            substrings.append(FormattedValueNode(arg.pos, value=arg, conversion_char=conv, format_spec=UnicodeNode(pos, value=EncodedString(spec)) if spec else None))
        else:
            ok = False
            break
    if not ok:
        return None
    return JoinedStrNode(pos, values=substrings)
'''


def rule_trn(ctx, builder=None):
    r = Rule('C18-TRN', "the '%'-format -> f-string rewrite (ConstantFolding._build_fstring) maps every placeholder shape its regex admits "
             "(flag order x width x precision x type) to a conversion and format spec with the same meaning, or gives up as a whole", floor=150)
    b = builder or FStringBuilder.from_repo(ctx)
    n, problems = trn_problems(b)
    for i in range(n):
        r.inst('shape#%d' % i)
    r.samples.append('%d placeholder shapes admitted by %r' % (n, b.regex))
    for (oid, kind), msgs in sorted(problems.items()):
        r.violate('%s:%s:%s' % (b.key, oid, kind), OPTIMIZE, b.fn.lineno,
                  "%s breaks the translation obligation '%s' for %s operands (%s): %s" % (b.key, oid, kind, TRN_TABLE.get(oid, 'the rewrite must not crash'), '; '.join(sorted(set(msgs), key=lambda m: (len(m), m))[:4])
                                                                                  + (' ... (%d shapes)' % len(set(msgs)) if len(set(msgs)) > 4 else '')))
    if builder is None:
        pc = ast.parse(TRN_POSITIVE).body[0]
        n2, p2 = trn_problems(FStringBuilder(pc, '(%(?:(?:[-0-9]+|[ ])?(?:[.][0-9]+)?)?.)', 'positive-control'))
        r.positive_control(('str-right-align', 'str') in p2 and ('minus-overrides-zero', 'int') in p2 and ('int-precision', 'int') in p2,
                           "a rewrite that passes '%5s' as '{!s:5}', '%-05d' as '{!d:<05d}' and '%.3d' as '{!d:.3d}'")
    return r


# ------------------------------------------------------------------------------------------------ C18-CONV
CONV_POSITIVE = '''
class FormattedValueNode:
    def analyse_types(self, env):
        self.value = self.value.analyse_types(env)
        if not self.format_spec or self.format_spec.is_string_literal:
            c_format_spec = self.format_spec.value if self.format_spec else self.value.type.default_format_spec
            if self.value.type.can_coerce_to_pystring(env, format_spec=c_format_spec):
                self.c_format_spec = c_format_spec
        return self
    def generate_result_code(self, code):
        if self.c_format_spec is not None and not self.value.type.is_pyobject:
            call = self.value.type.convert_to_pystring(self.value.result(), code, self.c_format_spec)
            code.putln(call)
            return
'''


def _guards_of(fn, is_site):
    """Path-sensitive: for each statement matching is_site, the names read by tests that lie on EVERY path to it
    (either outcome: the decision to get there depends on them)."""
    seen = {}

    def tr(n, state):
        if isinstance(n, ast.stmt) and is_site(n):
            names = {f[1] for f in state if isinstance(f, tuple) and f and f[0] == 'READ'}
            k = id(n)
            seen[k] = (n, names if k not in seen else (seen[k][1] & names))
        return state

    def refine(test, truth, state):
        return frozenset(state) | {('READ', nm) for nm in pyflow._names_in(test)}
    pyflow.Flow(tr, refine=refine).run(fn)
    return list(seen.values())


def _conv_check(cls):
    """-> [(method name, statement, 'select'|'emit', guarded by a test of conversion_char?)] for one FormattedValueNode-like class."""
    meths = {n.name: n for n in cls.body if isinstance(n, ast.FunctionDef)}
    sites = []
    for name, fn in meths.items():
        aliases = {'self.conversion_char'}
        for n in walk_no_nested(fn):
            if isinstance(n, ast.Assign) and is_self_attr(n.value) and n.value.attr == 'conversion_char':
                aliases |= {t.id for t in n.targets if isinstance(t, ast.Name)}

        def kind(s):
            if isinstance(s, (ast.If, ast.For, ast.While, ast.Try, ast.With, ast.FunctionDef)):
                return None
            if isinstance(s, ast.Assign) and any(is_self_attr(t) and t.attr == 'c_format_spec' for t in s.targets) and \
                    not (isinstance(s.value, ast.Constant) and s.value.value is None):
                return 'select'
            if any(isinstance(x, ast.Call) and isinstance(x.func, ast.Attribute) and x.func.attr == 'convert_to_pystring' for x in ast.walk(s)):
                return 'emit'
            return None
        for stmt, names in _guards_of(fn, lambda s: kind(s) is not None):
            sites.append((name, stmt, kind(stmt), bool(names & aliases)))
    return sites


def rule_conv(ctx):
    r = Rule('C18-CONV', 'FormattedValueNode: C-level formatting of a C number (c_format_spec / convert_to_pystring) is chosen only after looking at '
             'conversion_char - with !s/!r/!a the format spec applies to the resulting *string* (left-aligned, no number codes), so the C number formatter '
             'must not be used for a non-empty spec', floor=2)
    tree = ctx.parse(EXPRNODES)
    cls = _cls_node(tree, 'FormattedValueNode', EXPRNODES)
    sites = _conv_check(cls)
    if not any(k == 'select' for _, _, k, _ in sites) or not any(k == 'emit' for _, _, k, _ in sites):
        raise AnalysisError('FormattedValueNode: the c_format_spec assignment or the convert_to_pystring call was not found')
    for name, stmt, k, ok in sites:
        r.inst('ExprNodes.FormattedValueNode.%s:%s' % (name, k), sample='FormattedValueNode.%s: %s' % (name, node_src(stmt, 80)))
    if not any(ok for _, _, _, ok in sites):
        name, stmt = [(s[0], s[1]) for s in sites if s[2] == 'select'][0]
        r.violate('ExprNodes.FormattedValueNode:conversion-ignored', EXPRNODES, stmt.lineno,
                  "FormattedValueNode selects C-level number formatting (%s) on paths that never test self.conversion_char: f'{c_int!s:5}' is formatted as the "
                  "number ('   65') where CPython formats the string str(65) ('65   '), and f'{c_int!r:x}' gives '41' where CPython raises ValueError" % node_src(stmt, 60))
    pc = ast.parse(CONV_POSITIVE).body[0]
    r.positive_control(not any(ok for _, _, _, ok in _conv_check(pc)), 'C-level formatting selected without reading conversion_char')
    return r


# ------------------------------------------------------------------------------------------------ C18-KEY
def rule_key(ctx):
    r = Rule('C18-KEY', 'f-string de-duplication (OptimizeBuiltinCalls-family visit_JoinedStrNode): the key under which two FormattedValueNodes are shared '
             'contains every attribute of the node that FormattedValueNode.generate_result_code reads to produce the text', floor=4)
    etree = ctx.parse(EXPRNODES)
    cls = _cls_node(etree, 'FormattedValueNode', EXPRNODES)
    gen = _method(cls, 'generate_result_code', EXPRNODES)
    called = {n.func.attr for n in walk_no_nested(gen) if isinstance(n, ast.Call) and is_self_attr(n.func)}
    class_level = {t.id for n in cls.body if isinstance(n, ast.Assign) for t in n.targets if isinstance(t, ast.Name)}
    subexprs = []
    for n in cls.body:
        if isinstance(n, ast.Assign) and any(isinstance(t, ast.Name) and t.id == 'subexprs' for t in n.targets):
            subexprs = tables.literal(n.value) or []
    reads = set()
    for n in walk_no_nested(gen):
        if is_self_attr(n) and isinstance(n.ctx, ast.Load) and n.attr not in called and n.attr != 'pos':
            if n.attr in subexprs or n.attr in class_level or n.attr.endswith('_char') or n.attr.endswith('_spec'):
                reads.add(n.attr)
    reads -= {'find_conversion_func', 'type', 'is_temp', 'gil_message', 'subexprs'}
    if len(reads) < 3:
        raise AnalysisError('FormattedValueNode.generate_result_code reads only %s' % sorted(reads))
    # the dedup key
    otree = ctx.parse(OPTIMIZE)
    site = None
    for c in otree.body:
        if not isinstance(c, ast.ClassDef):
            continue
        for fn in c.body:
            if isinstance(fn, ast.FunctionDef) and fn.name == 'visit_JoinedStrNode':
                for n in walk_no_nested(fn):
                    if isinstance(n, ast.Call) and isinstance(n.func, ast.Attribute) and n.func.attr == 'setdefault' and len(n.args) == 2:
                        site = (c, fn, n)
    if site is None:
        raise AnalysisError('Optimize: no visit_JoinedStrNode with a setdefault(key, node) de-duplication found')
    c, fn, call = site
    env = iface.local_env(fn)
    loopvar = call.args[1].id if isinstance(call.args[1], ast.Name) else None
    keyexpr = call.args[0]
    if isinstance(keyexpr, ast.Name) and keyexpr.id in env and len(env[keyexpr.id]) == 1:
        keyexpr = env[keyexpr.id][0]
    if not isinstance(keyexpr, ast.Tuple) or loopvar is None:
        raise AnalysisError('%s.visit_JoinedStrNode: de-duplication key is not a tuple' % c.name)

    def attrs_of(e, depth=0):
        out = set()
        for x in ast.walk(e):
            if isinstance(x, ast.Attribute) and isinstance(x.value, ast.Name) and x.value.id == loopvar:
                out.add(x.attr)
            elif isinstance(x, ast.Name) and x.id in env and depth < 3 and x.id != loopvar:
                for v in env[x.id]:
                    out |= attrs_of(v, depth + 1)
        return out
    covered = attrs_of(keyexpr)
    kk = 'Optimize.%s.visit_JoinedStrNode' % c.name
    for a in sorted(reads):
        r.inst('%s:key:%s' % (kk, a), sample='%s: key %s covers %s' % (kk, node_src(keyexpr, 80), a))
        if a not in covered:
            r.violate('%s:key:%s' % (kk, a), OPTIMIZE, call.lineno,
                      "the de-duplication key %s does not contain FormattedValueNode.%s, which generate_result_code reads: two placeholders of the same "
                      "variable that differ only in %s (e.g. f'{x!r}{x!s}') would share one formatted value" % (node_src(keyexpr, 100), a, a))
    r.positive_control('conversion_char' in reads and 'format_spec' in reads, 'conversion_char and format_spec are text-relevant attributes')
    return r


# ------------------------------------------------------------------------------------------------ C18-FMTFN
def rule_fmtfn(ctx):
    r = Rule('C18-FMTFN', 'FormattedValueNode.generate_result_code: every helper name the format_func variable can take is defined with the emitted arity by a '
             'utility section this method loads; conversion characters map to str()/repr()/ascii()', floor=6)
    cat = ctx.cat
    tree = ctx.parse(EXPRNODES)
    cls = _cls_node(tree, 'FormattedValueNode', EXPRNODES)
    gen = _method(cls, 'generate_result_code', EXPRNODES)
    key = 'ExprNodes.FormattedValueNode.generate_result_code'
    # the emitted template  "%s = %s(%s, %s); %s" : find the call whose callee is a placeholder Name
    found = None
    for n in walk_no_nested(gen):
        if not isinstance(n, (ast.BinOp, ast.JoinedStr)):
            continue
        t = iface.str_template(n)
        if t is None:
            continue
        text, ph = t
        m = re.search(r'%s\(' % iface.PLACEHOLDER, text)
        if not m:
            continue
        k = text[:m.start() + 1].count(iface.PLACEHOLDER) - 1
        rp = match_paren(text, m.end() - 1)
        if rp < 0 or not isinstance(ph[k], ast.Name):
            continue
        var = ph[k].id
        bases, suffixes, dynamic = set(), set(), False
        for a in walk_no_nested(gen):
            if isinstance(a, ast.Assign) and any(isinstance(x, ast.Name) and x.id == var for x in a.targets) and isinstance(a.value, ast.Constant):
                bases.add(a.value.value)
            elif isinstance(a, ast.AugAssign) and isinstance(a.target, ast.Name) and a.target.id == var and isinstance(a.op, ast.Add) and isinstance(a.value, ast.Constant):
                suffixes.add(a.value.value)
            elif isinstance(a, (ast.Assign, ast.AugAssign)) and any(isinstance(x, ast.Name) and x.id == var and isinstance(x.ctx, ast.Store) for x in ast.walk(a)):
                dynamic = True
        if bases and not dynamic:
            found = (n, var, len(split_args(text[m.end():rp])), bases, suffixes)
    if found is None:
        raise AnalysisError('%s: emitted call through a function-name variable with constant values not found' % key)
    node, var, nargs, bases, suffixes = found
    loaded = set()
    for n in walk_no_nested(gen):
        if isinstance(n, ast.Call) and isinstance(n.func, ast.Attribute) and n.func.attr in iface.LOADERS and len(n.args) >= 2 and \
                isinstance(n.args[0], ast.Constant) and isinstance(n.args[1], ast.Constant):
            loaded.add((n.args[1].value, n.args[0].value))
    names = set(bases) | {b + s for b in bases for s in suffixes}
    if len(names) < 2:
        raise AnalysisError('%s: helper names %s' % (key, sorted(names)))
    for nm in sorted(names):
        r.inst('%s:%s' % (key, nm), sample='%s may emit %s(<%d args>)' % (key, nm, nargs))
        decls = cat.lookup(nm)
        if not decls:
            r.violate('%s:%s' % (key, nm), EXPRNODES, node.lineno, 'helper %s can be emitted but has no C definition in Cython/Utility' % nm)
            continue
        ar = cat.arities(nm)
        if nargs not in ar and None not in ar:
            r.violate('%s:%s:arity' % (key, nm), EXPRNODES, node.lineno, 'helper %s is emitted with %d arguments, the C definition takes %s' % (nm, nargs, sorted(ar)))
        if not any((d.file, d.section.name) in loaded for d in decls):
            r.violate('%s:%s:section' % (key, nm), EXPRNODES, node.lineno, 'helper %s is defined in %s but generate_result_code loads only %s'
                      % (nm, sorted({'%s::%s' % (d.file, d.section.name) for d in decls}), sorted('%s::%s' % x for x in loaded)))
    # conversion table.  Reference (C-API): PyObject_Str == str(o), PyObject_Repr == repr(o), PyObject_ASCII == ascii(o)
    ref = {'s': 'PyObject_Str', 'r': 'PyObject_Repr', 'a': 'PyObject_ASCII'}
    tab = None
    for n in cls.body:
        if isinstance(n, ast.Assign) and any(isinstance(t, ast.Name) and t.id == 'find_conversion_func' for t in n.targets):
            d = n.value.value if isinstance(n.value, ast.Attribute) else n.value
            tab = tables.literal(d)
            tline = n.lineno
    if not isinstance(tab, dict):
        raise AnalysisError('FormattedValueNode.find_conversion_func table not found')
    for ch, fnname in sorted(ref.items()):
        r.inst('ExprNodes.FormattedValueNode.find_conversion_func:%s' % ch, sample='!%s -> %s' % (ch, tab.get(ch)))
        if tab.get(ch) != fnname:
            r.violate('ExprNodes.FormattedValueNode.find_conversion_func:%s' % ch, EXPRNODES, tline,
                      "conversion '!%s' (and '%%%s') maps to %r; it must be %s" % (ch, ch, tab.get(ch), fnname))
    return r


# ------------------------------------------------------------------------------------------------ C18-CHR (C side table)
def rule_chr(ctx, accepted=None):
    r = Rule('C18-CHR', 'every format character CIntLike._parse_format can return is handled by the C helper (macro routing on the character, switch cases, '
             'remapping tests); an unhandled one runs into assert(0)/garbage digits', floor=5)
    site = PyCallSite(ctx, 'CIntLike')
    helper = IntHelper(ctx)
    sel, handled, cline = helper.selector()
    fn = site.parse_fn
    chars = set()
    for n in walk_no_nested(fn):
        if isinstance(n, ast.Return) and isinstance(n.value, ast.Tuple) and n.value.elts:
            pass
    # characters returned: union over the symbolic results of all shapes (computed by rule_int) if given, else recompute
    if accepted is None:
        _, accepted = rule_int(ctx, site, helper)
    for d in accepted:
        chars.add(d.get('type') or 'd')
    if not accepted:
        r.floor = 0      # nothing is formatted at the C level (or C18-INT reported a broken interface): nothing to compare
        r.info('CIntLike._parse_format accepts no spec: no format character reaches the C helper')
    for ch in sorted(chars):
        r.inst('format-char:%s' % ch, sample="'%s' returned by _parse_format; C handles %s" % (ch, sorted(handled)))
        if ch not in handled:
            r.violate('PyrexTypes.CIntLike._parse_format:format-char:%s' % ch, helper.file, cline,
                      "CIntLike._parse_format returns format character %r but the C helper of section %s handles only %s (parameter %r): integers formatted "
                      "with '%s' hit the default branch" % (ch, helper.section, sorted(handled), helper.params[sel], ch))
    return r
