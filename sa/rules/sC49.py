"""sC49 — the StringIOTree obligations decided by symbolic evaluation instead of syntactic patterns.

Every method of StringIOTree is executed by a small symbolic interpreter that belongs to the checker (nothing from the
repository is imported or run) on ONE symbolic pre-state:

    self.prepended_children = [ <C0: unknown sequence of trees> ]      self.markers = [ <M0: unknown sequence> ]
    self.stream = stream s0 holding the unknown string S (possibly empty)      self.write = s0.write

Unknown truth values (is S empty? is C0 empty? is M0 empty? is a child empty?) fork the execution, a loop over the
unknown segment C0 is executed once on a generic element and generalised (the recursive call on a child is replaced by the
induction hypothesis "the reader returns content(child)"), and the post-state of every path is mapped by the abstraction

    content(T) = concat(content(c) for c in T.children) + T.stream        marks(T) = concat(marks(c) ...) + T.markers

and compared with the specification of the method (commit: content and marks unchanged, nothing pending, write bound to
the new stream; insert(t): content + content(t); insertion_point(): content + <hole> ...; readers: return content / marks;
empty(): S empty and all children empty).  Constructs the interpreter does not model raise AnalysisError.
"""
import ast, copy

from ..core import AnalysisError

CH = 'prepended_children'
READER_SUMMARIES = ('_collect_in', 'copyto', 'getvalue', 'allmarkers', 'empty')


class Giveup(Exception):
    pass


class State:
    def __init__(self):
        self.env = {}
        self.nodes = {}
        self.streams = {}
        self.lists = {}
        self.facts = {}
        self.corrupt = {}
        self.status = 'run'
        self.ret = None
        self.n = 0

    def clone(self):
        return copy.deepcopy(self)

    def new_id(self):
        self.n += 1
        return self.n

    def new_list(self, items=()):
        lid = self.new_id()
        self.lists[lid] = list(items)
        return ('list', lid)

    def new_stream(self, content=()):
        sid = self.new_id()
        self.streams[sid] = list(content)
        return ('stream', sid)

    def new_node(self, kind='concrete', member_of=None):
        nid = self.new_id()
        self.nodes[nid] = {'kind': kind, 'member_of': member_of, 'f': {}}
        return ('node', nid)


def opaque_node(st, kind, member_of=None, tag=None):
    """a tree we know nothing about: an element of a children segment, or a parameter"""
    nv = st.new_node(kind, member_of)
    nid = nv[1]
    f = st.nodes[nid]['f']
    f[CH] = st.new_list([('seg', ('C', nid))])
    s = st.new_stream()
    st.streams[s[1]] = [('S', s[1])]
    f['stream'] = s
    f['write'] = ('bm', s, 'write')
    f['markers'] = st.new_list([('seg', ('M', nid))])
    return nv


def norm_frags(frags, facts):
    out = []
    for f in frags:
        if f[0] == 'lit':
            if not f[1]:
                continue
            if out and out[-1][0] == 'lit':
                out[-1] = ('lit', out[-1][1] + f[1])
                continue
        elif f[0] == 'kids':
            if facts.get(('ne', ('seg', f[2]))) is False:
                continue
        elif facts.get(('ne', f)) is False:
            continue
        out.append(f)
    return out


def norm_items(items, facts):
    out = []
    for it in items:
        if it[0] == 'seg' and facts.get(('ne', ('seg', it[1]))) is False:
            continue
        if it[0] in ('kids', 'kidsstr') and facts.get(('ne', ('seg', it[2]))) is False:
            continue
        if it[0] == 'str':
            fr = norm_frags(it[1], facts)
            out.append(('str', tuple(fr)))
            continue
        out.append(it)
    return out


def items_to_frags(items):
    """a list of string fragments read as the string it joins to"""
    out = []
    for it in items:
        if it[0] == 'str':
            out.extend(it[1])
        elif it[0] == 'kidsstr':
            out.append(('kids', it[1], it[2]))
        elif it[0] == 'seg':
            out.append(('segstr', it[1]))
        else:
            raise Giveup('list item %r is not a string fragment' % (it,))
    return out


def seg_is_trees(seg):
    while isinstance(seg, tuple) and seg[0] == 'reversed':
        seg = seg[1]
    return seg == 'C0' or (isinstance(seg, tuple) and seg[0] == 'C')


class Machine:
    def __init__(self, methods, clsname, stream_ctor='StringIO'):
        self.methods = methods
        self.clsname = clsname
        self.stream_ctor = stream_ctor
        self.steps = 0

    # ------------------------------------------------------------------ helpers
    def decide(self, st, atom):
        if atom in st.facts:
            return [(st, st.facts[atom])]
        a = st.clone()
        a.facts[atom] = True
        b = st.clone()
        b.facts[atom] = False
        # class invariant (established by C49d and re-checked for every mutator): one marker per newline of the own
        # stream, hence  own stream empty => no own markers  (and the contrapositive)
        if atom == ('ne', ('S', 's0')):
            b.facts.setdefault(('ne', ('seg', 'M0')), False)
        if atom == ('ne', ('seg', 'M0')):
            a.facts.setdefault(('ne', ('S', 's0')), True)
        return [(a, True), (b, False)]

    def truth_frags(self, st, frags):
        fr = norm_frags(frags, st.facts)
        if not fr:
            return [(st, False)]
        if any(f[0] == 'lit' for f in fr) or any(st.facts.get(('ne', f)) for f in fr if f[0] != 'kids'):
            return [(st, True)]
        if len(fr) == 1 and fr[0][0] != 'kids':
            return self.decide(st, ('ne', fr[0]))
        raise Giveup('truth value of a string made of several unknown parts')

    def truth(self, st, v):
        k = v[0]
        if k == 'none':
            return [(st, False)]
        if k == 'bool':
            return [(st, v[1])]
        if k == 'int':
            return [(st, v[1] != 0)]
        if k == 'symb':
            return [(s, (t == v[2])) for s, t in self.decide(st, v[1])]
        if k == 'str':
            return self.truth_frags(st, v[1])
        if k == 'tell':
            return self.truth_frags(st, v[1])
        if k == 'list':
            items = norm_items(st.lists[v[1]], st.facts)
            if not items:
                return [(st, False)]
            if any(it[0] not in ('seg', 'kids', 'kidsstr', 'each') for it in items):
                return [(st, True)]
            if any(it[0] == 'seg' and st.facts.get(('ne', ('seg', it[1]))) for it in items):
                return [(st, True)]
            if len(items) == 1 and items[0][0] == 'seg':
                return self.decide(st, ('ne', ('seg', items[0][1])))
            raise Giveup('truth value of a list made of several unknown segments')
        if k in ('node', 'stream', 'bm', 'builtin', 'class'):
            return [(st, True)]
        raise Giveup('truth value of %r' % (v,))

    def as_frags(self, v):
        if v[0] == 'str':
            return list(v[1])
        raise Giveup('expected a string, got %r' % (v,))

    # ------------------------------------------------------------------ expressions
    def eval_seq(self, exprs, st, depth):
        outs = [(st, [])]
        for e in exprs:
            nxt = []
            for s, vals in outs:
                for s2, v in self.eval(e, s, depth):
                    nxt.append((s2, vals + [v]))
            outs = nxt
        return outs

    def eval(self, e, st, depth):
        self.steps += 1
        if self.steps > 200000:
            raise Giveup('evaluation does not terminate')
        if isinstance(e, ast.Constant):
            v = e.value
            if v is None:
                return [(st, ('none',))]
            if isinstance(v, bool):
                return [(st, ('bool', v))]
            if isinstance(v, int):
                return [(st, ('int', v))]
            if isinstance(v, str):
                return [(st, ('str', (('lit', v),) if v else ()))]
            raise Giveup('constant %r' % (v,))
        if isinstance(e, ast.Name):
            if e.id in st.env:
                v = st.env[e.id]
                if v == ('poison',):
                    raise Giveup('local %r assigned inside a generalised loop is used afterwards' % e.id)
                return [(st, v)]
            if e.id == self.clsname:
                return [(st, ('class', 'tree'))]
            if e.id == self.stream_ctor:
                return [(st, ('class', 'stream'))]
            if e.id in ('all', 'any', 'len', 'list', 'tuple', 'reversed', 'bool', 'iter'):
                return [(st, ('builtin', e.id))]
            raise Giveup('unknown name %r' % e.id)
        if isinstance(e, ast.Attribute):
            out = []
            for s, v in self.eval(e.value, st, depth):
                out.append((s, self.getattr(s, v, e.attr)))
            return out
        if isinstance(e, ast.Call):
            return self.eval_call(e, st, depth)
        if isinstance(e, ast.List):
            return [(s, s.new_list(vals)) for s, vals in self.eval_seq(e.elts, st, depth)]
        if isinstance(e, ast.Tuple):
            return [(s, ('tuple', tuple(vals))) for s, vals in self.eval_seq(e.elts, st, depth)]
        if isinstance(e, ast.Subscript):
            out = []
            for s, (v, i) in self.eval_seq([e.value, e.slice], st, depth):
                out.extend(self.subscript(s, v, i))
            return out
        if isinstance(e, ast.BinOp) and isinstance(e.op, ast.Add):
            out = []
            for s, (a, b) in self.eval_seq([e.left, e.right], st, depth):
                if a[0] == 'list' and b[0] == 'list':
                    out.append((s, s.new_list(s.lists[a[1]] + s.lists[b[1]])))
                elif a[0] == 'str' and b[0] == 'str':
                    out.append((s, ('str', tuple(a[1]) + tuple(b[1]))))
                else:
                    raise Giveup('+ of %r and %r' % (a[0], b[0]))
            return out
        if isinstance(e, ast.UnaryOp) and isinstance(e.op, ast.Not):
            out = []
            for s, v in self.eval(e.operand, st, depth):
                if v[0] == 'symb':
                    out.append((s, ('symb', v[1], not v[2])))
                else:
                    for s2, t in self.truth(s, v):
                        out.append((s2, ('bool', not t)))
            return out
        if isinstance(e, ast.UnaryOp) and isinstance(e.op, ast.USub) and isinstance(e.operand, ast.Constant) and isinstance(e.operand.value, int):
            return [(st, ('int', -e.operand.value))]
        if isinstance(e, ast.BoolOp):
            outs = [(st, None, False)]
            is_and = isinstance(e.op, ast.And)
            for i, sub in enumerate(e.values):
                nxt = []
                for s, v, done in outs:
                    if done:
                        nxt.append((s, v, True))
                        continue
                    for s2, v2 in self.eval(sub, s, depth):
                        if i == len(e.values) - 1:
                            nxt.append((s2, v2, True))
                            continue
                        for s3, t in self.truth(s2, v2):
                            nxt.append((s3, v2, (not t) if is_and else t))
                outs = nxt
            return [(s, v) for s, v, _ in outs]
        if isinstance(e, ast.IfExp):
            out = []
            for s, v in self.eval(e.test, st, depth):
                for s2, t in self.truth(s, v):
                    out.extend(self.eval(e.body if t else e.orelse, s2, depth))
            return out
        if isinstance(e, ast.Compare) and len(e.ops) == 1:
            out = []
            for s, (a, b) in self.eval_seq([e.left, e.comparators[0]], st, depth):
                op = e.ops[0]
                if isinstance(op, (ast.Is, ast.IsNot, ast.Eq, ast.NotEq)) and (a[0] == 'none' or b[0] == 'none'):
                    same = a[0] == 'none' and b[0] == 'none'
                    out.append((s, ('bool', same if isinstance(op, (ast.Is, ast.Eq)) else not same)))
                elif isinstance(op, (ast.Is, ast.IsNot)) and a[0] in ('node', 'stream', 'list') and b[0] == a[0]:
                    out.append((s, ('bool', (a == b) if isinstance(op, ast.Is) else (a != b))))
                elif isinstance(op, (ast.Gt, ast.NotEq)) and a[0] == 'tell' and b == ('int', 0):
                    for s2, t in self.truth(s, a):
                        out.append((s2, ('bool', t)))
                elif isinstance(op, ast.Eq) and a[0] == 'tell' and b == ('int', 0):
                    for s2, t in self.truth(s, a):
                        out.append((s2, ('bool', not t)))
                else:
                    raise Giveup('comparison %s' % ast.unparse(e))
            return out
        if isinstance(e, (ast.ListComp, ast.GeneratorExp)):
            return self.eval_comp(e, st, depth)
        raise Giveup('expression %s' % ast.unparse(e)[:80])

    def getattr(self, st, v, attr):
        if v[0] == 'node':
            node = st.nodes[v[1]]
            if attr in node['f']:
                return node['f'][attr]
            if attr in self.methods:
                return ('bm', v, attr)
            raise Giveup('attribute %r of a tree is not set' % attr)
        if v[0] == 'stream' and attr in ('write', 'getvalue', 'tell'):
            return ('bm', v, attr)
        if v[0] == 'list' and attr in ('append', 'extend', 'insert', 'copy'):
            return ('bm', v, attr)
        if v[0] == 'str' and attr == 'join':
            return ('bm', v, attr)
        raise Giveup('attribute %r of %r' % (attr, v[0]))

    def subscript(self, st, v, i):
        if v[0] != 'list' or i[0] != 'int' or i[1] not in (0, -1):
            raise Giveup('subscript')
        items = norm_items(st.lists[v[1]], st.facts)
        if not items:
            raise Giveup('subscript of an empty list')
        it = items[i[1]]
        if it[0] == 'seg':
            out = []
            for s, t in self.decide(st, ('ne', ('seg', it[1]))):
                if not t:
                    out.extend(self.subscript(s, v, i))
                else:
                    if seg_is_trees(it[1]):
                        out.append((s, opaque_node(s, 'generic', member_of=it[1])))
                    else:
                        out.append((s, ('elem', s.new_id(), it[1])))
            return out
        if it[0] in ('kids', 'kidsstr', 'each'):
            raise Giveup('subscript into a generalised segment')
        return [(st, it)]

    def eval_comp(self, e, st, depth):
        # desugar into nested loops appending to a fresh list
        res = ast.Name(id='%comp', ctx=ast.Load())
        body = [ast.Expr(ast.Call(func=ast.Attribute(value=res, attr='append', ctx=ast.Load()), args=[e.elt], keywords=[]))]
        for g in reversed(e.generators):
            if g.is_async:
                raise Giveup('async comprehension')
            for c in reversed(g.ifs):
                body = [ast.If(test=c, body=body, orelse=[])]
            body = [ast.For(target=g.target, iter=g.iter, body=body, orelse=[])]
        for n in body:
            ast.fix_missing_locations(n)
        saved = dict(st.env)
        st.env['%comp'] = st.new_list()
        outs = []
        for s in self.exec_block(body, st, depth):
            if s.status != 'run':
                raise Giveup('comprehension left abnormally')
            v = s.env['%comp']
            s.env = dict(saved)
            outs.append((s, v))
        return outs

    def bind(self, fn, args, kwargs, st, depth):
        params = [a.arg for a in fn.args.args]
        if fn.args.vararg or fn.args.kwarg or fn.args.kwonlyargs or fn.args.posonlyargs:
            raise Giveup('signature of %s' % fn.name)
        env = {}
        if len(args) > len(params):
            raise Giveup('too many arguments for %s' % fn.name)
        for p, a in zip(params, args):
            env[p] = a
        for k, v in kwargs.items():
            if k not in params or k in env:
                raise Giveup('keyword %r for %s' % (k, fn.name))
            env[k] = v
        dflt = fn.args.defaults
        for p, d in zip(params[len(params) - len(dflt):], dflt):
            if p not in env:
                if not isinstance(d, ast.Constant):
                    raise Giveup('default of %s' % p)
                env[p] = self.eval(d, st, depth)[0][1]
        for p in params:
            if p not in env:
                raise Giveup('missing argument %r for %s' % (p, fn.name))
        return env

    def call_method(self, st, nodev, name, args, kwargs, depth):
        """-> [(state, return value)]"""
        node = st.nodes[nodev[1]]
        if node['kind'] != 'concrete':
            return self.summary(st, nodev, name, args, kwargs)
        if depth > 6:
            raise Giveup('call depth')
        fn = self.methods[name]
        saved = st.env
        st.env = self.bind(fn, [nodev] + list(args), kwargs, st, depth)
        outs = []
        for s in self.exec_block(fn.body, st, depth + 1):
            if s.status == 'ret':
                v = s.ret
            elif s.status == 'run':
                v = ('none',)
            else:
                raise Giveup('break/continue outside a loop')
            s.status, s.ret = 'run', None
            s.env = dict(saved)
            outs.append((s, v))
        return outs

    def summary(self, st, nodev, name, args, kwargs):
        """induction hypothesis for the readers applied to a tree below self"""
        nid = nodev[1]
        if kwargs:
            raise Giveup('keyword arguments to a child method')
        c = ('content', nid)
        if name == '_collect_in' and len(args) == 1 and args[0][0] == 'list':
            st.lists[args[0][1]].append(('str', (c,)))
            return [(st, ('none',))]
        if name == 'copyto' and len(args) == 1 and args[0][0] == 'stream':
            st.streams[args[0][1]].append(c)
            return [(st, ('none',))]
        if name == 'getvalue' and not args:
            return [(st, ('str', (c,)))]
        if name == 'allmarkers' and not args:
            return [(st, st.new_list([('seg', ('marks', nid))]))]
        if name == 'empty' and not args:
            return [(st, ('symb', ('ne', c), False))]
        st.corrupt[st.nodes[nid]['member_of'] or ('node', nid)] = 'calls %s() on a tree it does not own exclusively' % name
        raise Giveup('method %s() called on a child / foreign tree' % name)

    def eval_call(self, e, st, depth):
        if any(isinstance(a, ast.Starred) for a in e.args) or any(k.arg is None for k in e.keywords):
            raise Giveup('star arguments')
        out = []
        for s, vals in self.eval_seq([e.func] + list(e.args) + [k.value for k in e.keywords], st, depth):
            f = vals[0]
            args = vals[1:1 + len(e.args)]
            kwargs = {k.arg: v for k, v in zip(e.keywords, vals[1 + len(e.args):])}
            out.extend(self.apply(s, f, args, kwargs, depth))
        return out

    def apply(self, st, f, args, kwargs, depth):
        if f[0] == 'class' and f[1] == 'stream':
            if args or kwargs:
                raise Giveup('StringIO with arguments')
            return [(st, st.new_stream())]
        if f[0] == 'class' and f[1] == 'tree':
            nv = st.new_node('concrete')
            st.nodes[nv[1]]['fresh'] = True
            if '__init__' not in self.methods:
                raise Giveup('no __init__')
            return [(s, nv) for s, _ in self.call_method(st, nv, '__init__', args, kwargs, depth)]
        if f[0] == 'bm':
            obj, name = f[1], f[2]
            if obj[0] == 'node':
                return self.call_method(st, obj, name, args, kwargs, depth)
            if kwargs:
                raise Giveup('keyword arguments')
            if obj[0] == 'stream':
                sid = obj[1]
                if name == 'write' and len(args) == 1:
                    st.streams[sid].extend(self.as_frags(args[0]))
                    return [(st, ('none',))]
                if name == 'getvalue' and not args:
                    return [(st, ('str', tuple(st.streams[sid])))]
                if name == 'tell' and not args:
                    return [(st, ('tell', tuple(st.streams[sid])))]
            if obj[0] == 'list':
                lid = obj[1]
                if name == 'append' and len(args) == 1:
                    st.lists[lid].append(args[0])
                    return [(st, ('none',))]
                if name == 'extend' and len(args) == 1 and args[0][0] == 'list':
                    st.lists[lid].extend(list(st.lists[args[0][1]]))
                    return [(st, ('none',))]
                if name == 'insert' and len(args) == 2 and args[0] == ('int', 0):
                    st.lists[lid].insert(0, args[1])
                    return [(st, ('none',))]
                if name == 'copy' and not args:
                    return [(st, st.new_list(st.lists[lid]))]
            if obj[0] == 'str' and name == 'join' and len(args) == 1 and args[0][0] == 'list':
                if norm_frags(obj[1], {}):
                    raise Giveup('join with a separator')
                return [(st, ('str', tuple(items_to_frags(st.lists[args[0][1]]))))]
            raise Giveup('call of %s.%s' % (obj[0], name))
        if f[0] == 'builtin':
            name = f[1]
            if kwargs:
                raise Giveup('keyword arguments')
            if name in ('list', 'tuple', 'iter') and len(args) == 1 and args[0][0] == 'list':
                return [(st, st.new_list(st.lists[args[0][1]]))]
            if name == 'list' and not args:
                return [(st, st.new_list())]
            if name == 'reversed' and len(args) == 1 and args[0][0] == 'list':
                items = []
                for it in reversed(st.lists[args[0][1]]):
                    items.append(('seg', ('reversed', it[1])) if it[0] == 'seg' else it)
                return [(st, st.new_list(items))]
            if name == 'bool' and len(args) == 1:
                if args[0][0] == 'symb':
                    return [(st, args[0])]
                return [(s, ('bool', t)) for s, t in self.truth(st, args[0])]
            if name in ('all', 'any') and len(args) == 1 and args[0][0] == 'list':
                items = norm_items(st.lists[args[0][1]], st.facts)
                syms = []
                for it in items:
                    if it[0] == 'bool':
                        if name == 'all' and not it[1]:
                            return [(st, ('bool', False))]
                        if name == 'any' and it[1]:
                            return [(st, ('bool', True))]
                    elif it[0] == 'kids' and it[1] == 'empty':
                        syms.append(it)
                    else:
                        raise Giveup('%s() over %r' % (name, it))
                if not syms:
                    return [(st, ('bool', name == 'all'))]
                if len(syms) == 1:
                    return [(st, ('symb', ('%sempty' % name, syms[0][2]), True))]
                raise Giveup('%s() over several segments' % name)
            raise Giveup('builtin %s' % name)
        raise Giveup('call of %r' % (f,))

    # ------------------------------------------------------------------ statements
    def exec_block(self, stmts, st, depth):
        states = [st]
        for stmt in stmts:
            nxt = []
            for s in states:
                if s.status != 'run':
                    nxt.append(s)
                else:
                    nxt.extend(self.exec_stmt(stmt, s, depth))
            states = nxt
        return states

    def assign(self, st, target, v, depth):
        """-> [state]"""
        if isinstance(target, ast.Name):
            st.env[target.id] = v
            return [st]
        if isinstance(target, ast.Attribute):
            outs = []
            for s, obj in self.eval(target.value, st, depth):
                if obj[0] != 'node':
                    raise Giveup('attribute store on %r' % (obj[0],))
                node = s.nodes[obj[1]]
                if node['kind'] != 'concrete':
                    s.corrupt[node['member_of'] or ('node', obj[1])] = 'assigns .%s of a tree it was handed' % target.attr
                node['f'][target.attr] = v
                outs.append(s)
            return outs
        if isinstance(target, (ast.Tuple, ast.List)):
            if v[0] != 'tuple' or len(v[1]) != len(target.elts):
                raise Giveup('unpacking')
            states = [st]
            for t, x in zip(target.elts, v[1]):
                nxt = []
                for s in states:
                    nxt.extend(self.assign(s, t, x, depth))
                states = nxt
            return states
        raise Giveup('assignment target %s' % ast.unparse(target))

    def exec_stmt(self, stmt, st, depth):
        if isinstance(stmt, ast.Expr):
            if isinstance(stmt.value, ast.Constant):
                return [st]
            return [s for s, _ in self.eval(stmt.value, st, depth)]
        if isinstance(stmt, ast.Pass):
            return [st]
        if isinstance(stmt, ast.Assign):
            outs = []
            for s, v in self.eval(stmt.value, st, depth):
                states = [s]
                for t in stmt.targets:
                    nxt = []
                    for s2 in states:
                        nxt.extend(self.assign(s2, t, v, depth))
                    states = nxt
                outs.extend(states)
            return outs
        if isinstance(stmt, ast.AnnAssign):
            if stmt.value is None:
                return [st]
            outs = []
            for s, v in self.eval(stmt.value, st, depth):
                outs.extend(self.assign(s, stmt.target, v, depth))
            return outs
        if isinstance(stmt, ast.AugAssign) and isinstance(stmt.op, ast.Add):
            load = copy.deepcopy(stmt.target)
            load.ctx = ast.Load()
            outs = []
            for s, (a, b) in self.eval_seq([load, stmt.value], st, depth):
                if a[0] == 'list' and b[0] == 'list':
                    s.lists[a[1]].extend(list(s.lists[b[1]]))       # in place: aliases see it
                    outs.append(s)
                elif a[0] == 'str' and b[0] == 'str':
                    outs.extend(self.assign(s, stmt.target, ('str', tuple(a[1]) + tuple(b[1])), depth))
                else:
                    raise Giveup('+= of %r' % (a[0],))
            return outs
        if isinstance(stmt, ast.Return):
            if stmt.value is None:
                st.status, st.ret = 'ret', ('none',)
                return [st]
            outs = []
            for s, v in self.eval(stmt.value, st, depth):
                s.status, s.ret = 'ret', v
                outs.append(s)
            return outs
        if isinstance(stmt, ast.If):
            outs = []
            for s, v in self.eval(stmt.test, st, depth):
                for s2, t in self.truth(s, v):
                    outs.extend(self.exec_block(stmt.body if t else stmt.orelse, s2, depth))
            return outs
        if isinstance(stmt, ast.Continue):
            st.status = 'cont'
            return [st]
        if isinstance(stmt, ast.Break):
            st.status = 'brk'
            return [st]
        if isinstance(stmt, ast.For):
            if stmt.orelse:
                raise Giveup('for-else')
            outs = []
            for s, v in self.eval(stmt.iter, st, depth):
                if v[0] != 'list':
                    raise Giveup('loop over %r' % (v[0],))
                outs.extend(self.loop(stmt, s, list(s.lists[v[1]]), depth))
            return outs
        raise Giveup('statement %s' % type(stmt).__name__)

    def loop(self, stmt, st, items, depth):
        states = [st]
        done = []
        assigned = {n.id for b in stmt.body for n in ast.walk(b) if isinstance(n, ast.Name) and isinstance(n.ctx, ast.Store)}
        assigned |= {n.id for n in ast.walk(stmt.target) if isinstance(n, ast.Name)}
        for it in items:
            nxt = []
            for s in states:
                if it[0] == 'seg':
                    if s.facts.get(('ne', ('seg', it[1]))) is False:
                        nxt.append(s)
                        continue
                    cont, fin = self.generic_iteration(stmt, s, it[1], depth, assigned)
                    nxt.extend(cont)
                    done.extend(fin)
                    continue
                if it[0] in ('each', 'kids', 'kidsstr'):
                    raise Giveup('loop over an already generalised segment')
                for s2 in self.assign(s, stmt.target, it, depth):
                    for s3 in self.exec_block(stmt.body, s2, depth):
                        if s3.status in ('run', 'cont'):
                            s3.status = 'run'
                            nxt.append(s3)
                        elif s3.status == 'brk':
                            s3.status = 'run'
                            done.append(s3)
                        else:
                            done.append(s3)
            states = nxt
        return states + done

    def generic_iteration(self, stmt, st, seg, depth, assigned):
        """one symbolic iteration over an unknown segment, generalised to the whole segment"""
        is_tree_seg = seg_is_trees(seg)
        base = st.clone()
        n0 = base.n
        if is_tree_seg:
            ev = opaque_node(base, 'generic', member_of=seg)
            eid = ev[1]
        else:
            ev = ('elem', base.new_id(), seg)
            eid = ev[1]
        snap_l = {k: len(v) for k, v in base.lists.items()}
        snap_s = {k: len(v) for k, v in base.streams.items()}
        pre_l = {k: list(v) for k, v in base.lists.items()}
        pre_s = {k: list(v) for k, v in base.streams.items()}
        results = []
        for s in self.assign(base, stmt.target, ev, depth):
            results.extend(self.exec_block(stmt.body, s, depth))

        def mentions(x):
            if isinstance(x, tuple):
                return any(mentions(y) for y in x)
            return isinstance(x, int) and x > n0

        def deltas(s):
            d = {}
            for k, n in snap_l.items():
                cur = s.lists.get(k)
                if cur is None or cur[:n] != pre_l[k]:
                    raise Giveup('a list is rewritten inside a loop over children')
                if len(cur) > n:
                    d[('l', k)] = cur[n:]
            for k, n in snap_s.items():
                cur = s.streams.get(k)
                if cur is None or cur[:n] != pre_s[k]:
                    raise Giveup('a stream is rewritten inside a loop over children')
                if len(cur) > n:
                    d[('s', k)] = cur[n:]
            return d

        def efacts(s):
            return {a: v for a, v in s.facts.items() if a not in st.facts and mentions(a)}

        def ofacts(s):
            return {a: v for a, v in s.facts.items() if a not in st.facts and not mentions(a)}

        normal = [s for s in results if s.status in ('run', 'cont')]
        early = [s for s in results if s.status in ('ret', 'brk')]
        empty_atom = ('ne', ('content', eid))
        fin = []
        for s in early:
            if deltas(s):
                raise Giveup('a loop over children is left early after producing output')
            ef = efacts(s)
            for a in list(s.facts):
                if mentions(a):
                    del s.facts[a]
            if ef.get(empty_atom) is True:
                s.facts[('some-nonempty', seg)] = True
            if s.status == 'brk':
                s.status = 'run'
            if s.ret is not None and mentions(s.ret):
                raise Giveup('a loop over children returns a value of one child')
            fin.append(s)
        if not normal:
            return [], fin
        # canonical behaviour: what the body does when nothing is assumed about the element being empty
        canon = None
        for s in normal:
            if efacts(s).get(empty_atom) is not False:
                canon = deltas(s)
                break
        if canon is None:
            canon = deltas(normal[0])
        groups = {}
        for s in normal:
            d = deltas(s)
            keys = set(d) | set(canon)
            for k in keys:
                fn = norm_frags if k[0] == 's' else norm_items
                a, b = d.get(k, []), canon.get(k, [])
                if k[0] == 'l' and all(x[0] == 'str' for x in a + b):
                    # lists of string fragments are only ever joined: compare what they join to
                    a, b, fn = items_to_frags(a), items_to_frags(b), norm_frags
                if fn(a, s.facts) != fn(b, s.facts):
                    what = 'an output list' if k[0] == 'l' else 'the output stream'
                    cond = ', '.join(describe(a, v) for a, v in sorted(efacts(s).items(), key=repr)) or 'some condition holds'
                    raise Violation('conditional-visit', 'a child is only conditionally passed on to %s (when %s the loop body does not do what it does otherwise): '
                                    'a child whose own stream is empty can still hold committed text' % (what, cond))
            groups.setdefault(repr(sorted(ofacts(s).items(), key=repr)), []).append(s)
        cont = []
        for key, grp in groups.items():
            rep = grp[0]
            all_empty = bool(early) and all(g.facts.get(empty_atom) is False for g in grp)
            for a in list(rep.facts):
                if mentions(a):
                    del rep.facts[a]
            if all_empty:
                rep.facts[('all-empty', seg)] = True
            for k, d in canon.items():
                own = None
                if is_tree_seg:
                    sv = base.nodes[eid]['f'].get('stream')
                    own = sv[1] if sv and sv[0] == 'stream' else None
                gen = [generalise(x, eid, seg, k[0], own) for x in d]
                if len(gen) != 1:
                    raise Giveup('a loop body emits %d items per child' % len(gen))
                tgt = rep.lists[k[1]] if k[0] == 'l' else rep.streams[k[1]]
                del tgt[(snap_l if k[0] == 'l' else snap_s)[k[1]]:]
                tgt.append(gen[0])
            # anything else created for the generic element is dropped
            for name in assigned:
                if name in rep.env:
                    rep.env[name] = ('poison',)
            for nid, node in list(rep.nodes.items()):
                if nid > n0 and node.get('member_of') == seg and node['kind'] == 'generic':
                    pass
            rep.status = 'run'
            cont.append(rep)
        return cont, fin


def efacts_has(s, st, n0, atom, value):
    return s.facts.get(atom) is value


class Violation(Exception):
    def __init__(self, kind, msg):
        Exception.__init__(self, msg)
        self.kind = kind


def describe(atom, value=True):
    if atom[0] == 'ne':
        x = atom[1]
        if x[0] == 'content':
            return 'the child is %s' % ('non-empty' if value else 'empty')
        if x[0] == 'S':
            return "the child's OWN stream is %s" % ('non-empty' if value else 'empty')
        if x[0] == 'seg':
            return 'segment %r is %s' % (x[1], 'non-empty' if value else 'empty')
    return '%r is %s' % (atom, value)


def generalise(x, eid, seg, kind, own_stream_of=None):
    c = ('content', eid)
    if kind == 's':
        if x == c:
            return ('kids', 'content', seg)
        if x[0] == 'S' and own_stream_of is not None and x[1] == own_stream_of:
            return ('kids', 'own-stream-only', seg)
        raise Giveup('stream output per child: %r' % (x,))
    if x[0] == 'str' and tuple(x[1]) == (c,):
        return ('kidsstr', 'content', seg)
    if x == ('seg', ('marks', eid)):
        return ('kids', 'marks', seg)
    if x == ('symb', ('ne', c), False):
        return ('kids', 'empty', seg)
    if x[0] == 'elem' and x[1] == eid:
        return ('seg', seg)
    if x[0] == 'seg' and x[1] == ('M', eid):
        return ('kids', 'own-markers-only', seg)         # the direct markers of each child, not marks(child)
    if x[0] == 'str' and len(x[1]) == 1 and x[1][0][0] == 'S' and own_stream_of is not None and x[1][0][1] == own_stream_of:
        return ('kidsstr', 'own-stream-only', seg)
    raise Giveup('list output per child: %r' % (x,))


# ---------------------------------------------------------------------------------------------- abstraction + specs
def content_of(st, nid, keep_at=(), depth=0):
    if depth > 8:
        raise Giveup('cyclic tree')
    node = st.nodes[nid]
    if node['kind'] != 'concrete':
        out = [('content', nid)]
        key = node['member_of'] or ('node', nid)
        if key in st.corrupt:
            out.append(('corrupt', st.corrupt[key]))
        return out
    ch = node['f'].get(CH)
    if ch is None or ch[0] != 'list':
        raise Giveup('%s is not a list' % CH)
    out = []
    for it in st.lists[ch[1]]:
        if it[0] == 'node':
            if it[1] in keep_at:
                out.append(('at', it[1]))
            out.extend(content_of(st, it[1], keep_at, depth + 1))
        elif it[0] == 'seg':
            if it[1] in st.corrupt:
                out.append(('corrupt', st.corrupt[it[1]]))
            out.append(('kids', 'content', it[1]))
        else:
            raise Giveup('child item %r' % (it,))
    sv = node['f'].get('stream')
    if sv is None or sv[0] != 'stream':
        raise Giveup('stream attribute holds %r' % (sv,))
    out.extend(st.streams[sv[1]])
    return out


def marks_of(st, nid, keep_at=(), depth=0):
    if depth > 8:
        raise Giveup('cyclic tree')
    node = st.nodes[nid]
    if node['kind'] != 'concrete':
        out = [('seg', ('marks', nid))]
        key = node['member_of'] or ('node', nid)
        if key in st.corrupt:
            out.append(('corrupt', st.corrupt[key]))
        return out
    ch = node['f'].get(CH)
    out = []
    for it in st.lists[ch[1]]:
        if it[0] == 'node':
            if it[1] in keep_at:
                out.append(('at', it[1]))
            out.extend(marks_of(st, it[1], keep_at, depth + 1))
        elif it[0] == 'seg':
            if it[1] in st.corrupt:
                out.append(('corrupt', st.corrupt[it[1]]))
            out.append(('kids', 'marks', it[1]))
        else:
            raise Giveup('child item %r' % (it,))
    mv = node['f'].get('markers')
    if mv is None or mv[0] != 'list':
        raise Giveup('markers attribute holds %r' % (mv,))
    out.extend(st.lists[mv[1]])
    return out


def show(term):
    def seg(x):
        if x == 'C0':
            return 'each child'
        if isinstance(x, tuple) and x[0] == 'reversed':
            return seg(x[1]) + ', in REVERSE order'
        return 'each of %r' % (x,)

    def one(t):
        if t[0] == 'S':
            return 'own-stream' if t[1] == 's0' else 'stream#%s' % (t[1],)
        if t[0] == 'kids' or t[0] == 'kidsstr':
            return '%s(%s)' % (t[1], seg(t[2]))
        if t[0] == 'seg':
            if t[1] == 'M0':
                return 'own-markers'
            if isinstance(t[1], tuple) and t[1][0] == 'marks':
                return 'marks(arg)'
            if isinstance(t[1], tuple) and t[1][0] == 'M':
                return 'own-markers(child)'
            return 'seg%r' % (t[1],)
        if t[0] == 'segstr':
            return 'given-list'
        if t[0] == 'content':
            return 'content(arg)'
        if t[0] == 'at':
            return '<new point>'
        if t[0] == 'lit':
            return repr(t[1])
        if t[0] == 'corrupt':
            return '<%s>' % t[1]
        if t[0] == 'str':
            return '+'.join(one(x) for x in t[1]) or "''"
        return repr(t)
    return '[' + ', '.join(one(t) for t in term) + ']'


def pre_state():
    st = State()
    nv = st.new_node('concrete')
    f = st.nodes[nv[1]]['f']
    st.lists['c0'] = [('seg', 'C0')]
    st.lists['m0'] = [('seg', 'M0')]
    st.streams['s0'] = [('S', 's0')]
    f[CH] = ('list', 'c0')
    f['markers'] = ('list', 'm0')
    f['stream'] = ('stream', 's0')
    f['write'] = ('bm', ('stream', 's0'), 'write')
    st.n = 100
    return st, nv


PRE_CONTENT = [('kids', 'content', 'C0'), ('S', 's0')]
PRE_MARKS = [('kids', 'marks', 'C0'), ('seg', 'M0')]


def run_paths(methods, clsname, name, args_builder=None):
    """-> (machine, [(state, return value)], self node value, argument values)"""
    if name not in methods:
        raise AnalysisError('%s.%s vanished' % (clsname, name))
    m = Machine(methods, clsname)
    st, selfv = pre_state()
    args = args_builder(st) if args_builder else []
    outs = m.call_method(st, selfv, name, args, {}, 0)
    return m, outs, selfv, args


def write_bound(st, nid):
    f = st.nodes[nid]['f']
    return f.get('write') == ('bm', f.get('stream'), 'write')


def check_method(methods, clsname, name):
    """-> list of (kind, message); raises Giveup"""
    problems = []

    def bad(kind, msg):
        if (kind, msg) not in problems:
            problems.append((kind, msg))

    def eq_c(st, got, want, what, kind):
        g, w = norm_frags(got, st.facts), norm_frags(want, st.facts)
        if g != w:
            bad(kind, '%s is %s, must be %s%s' % (what, show(g), show(w), path_text(st)))

    def eq_m(st, got, want, what, kind):
        g, w = norm_items(got, st.facts), norm_items(want, st.facts)
        if g != w:
            bad(kind, '%s is %s, must be %s%s' % (what, show(g), show(w), path_text(st)))

    def frame(st, sid):
        eq_c(st, content_of(st, sid), PRE_CONTENT, 'the content of the tree after the call', 'mutates')
        eq_m(st, marks_of(st, sid), PRE_MARKS, 'the markers of the tree after the call', 'mutates')

    try:
        if name in ('_collect_in',):
            m, outs, sv, args = run_paths(methods, clsname, name, lambda st: [st.new_list([('seg', 'L0')])])
            for st, rv in outs:
                got = items_to_frags(st.lists[args[0][1]])
                eq_c(st, got, [('segstr', 'L0')] + PRE_CONTENT, 'the fragment list after _collect_in', 'order')
                frame(st, sv[1])
        elif name == 'copyto':
            m, outs, sv, args = run_paths(methods, clsname, name, lambda st: [st.new_stream()])
            for st, rv in outs:
                eq_c(st, st.streams[args[0][1]], PRE_CONTENT, 'the text written to the target', 'order')
                frame(st, sv[1])
        elif name == 'getvalue':
            m, outs, sv, args = run_paths(methods, clsname, name)
            for st, rv in outs:
                if rv[0] != 'str':
                    bad('order', 'getvalue() does not return a string built from the tree')
                    continue
                eq_c(st, list(rv[1]), PRE_CONTENT, 'the string returned by getvalue()', 'order')
                frame(st, sv[1])
        elif name == 'allmarkers':
            m, outs, sv, args = run_paths(methods, clsname, name)
            for st, rv in outs:
                if rv[0] != 'list':
                    bad('order', 'allmarkers() does not return a list')
                    continue
                eq_m(st, st.lists[rv[1]], PRE_MARKS, 'the list returned by allmarkers()', 'order')
                # the returned list must not be the live own list when there are children (it may)
                frame(st, sv[1])
        elif name == 'empty':
            m, outs, sv, args = run_paths(methods, clsname, name)
            for st, rv in outs:
                s_ne = st.facts.get(('ne', ('S', 's0')))
                c_ne = st.facts.get(('ne', ('seg', 'C0')))
                all_empty = c_ne is False or st.facts.get(('all-empty', 'C0')) is True
                some_ne = st.facts.get(('some-nonempty', 'C0')) is True
                if rv == ('bool', True):
                    ok = s_ne is False and all_empty
                elif rv == ('bool', False):
                    ok = s_ne is True or some_ne
                elif rv == ('symb', ('allempty', 'C0'), True):
                    ok = s_ne is False
                else:
                    ok = False
                if not ok:
                    bad('empty', 'empty() returns %s%s; it must be true exactly when the own stream is empty and every child is empty' % (show_bool(rv), path_text(st)))
                frame(st, sv[1])
        elif name == 'commit':
            m, outs, sv, args = run_paths(methods, clsname, name)
            for st, rv in outs:
                sid = sv[1]
                eq_c(st, content_of(st, sid), PRE_CONTENT, 'content(tree) after commit()', 'content')
                eq_m(st, marks_of(st, sid), PRE_MARKS, 'markers(tree) after commit()', 'markers')
                f = st.nodes[sid]['f']
                if f['stream'][0] != 'stream':
                    raise Giveup('stream attribute')
                eq_c(st, st.streams[f['stream'][1]], [], 'the pending own stream after commit()', 'pending')
                if f['markers'][0] != 'list':
                    raise Giveup('markers attribute')
                eq_m(st, st.lists[f['markers'][1]], [], 'the pending own markers after commit()', 'pending-markers')
                if not write_bound(st, sid):
                    bad('write', 'after commit() self.write is not the write method of the current self.stream%s: later writes go into a stream that is already committed' % path_text(st))
        elif name == 'insert':
            m, outs, sv, args = run_paths(methods, clsname, name, lambda st: [opaque_node(st, 'opaque')])
            for st, rv in outs:
                sid, aid = sv[1], args[0][1]
                eq_c(st, content_of(st, sid), PRE_CONTENT + [('content', aid)], 'content(tree) after insert(t)', 'position')
                eq_m(st, marks_of(st, sid), PRE_MARKS + [('seg', ('marks', aid))], 'markers(tree) after insert(t)', 'position-markers')
                if not write_bound(st, sid):
                    bad('write', 'after insert() self.write is not the write method of the current self.stream%s' % path_text(st))
        elif name == 'insertion_point':
            m, outs, sv, args = run_paths(methods, clsname, name)
            for st, rv in outs:
                sid = sv[1]
                if rv[0] != 'node' or st.nodes[rv[1]]['kind'] != 'concrete' or not st.nodes[rv[1]].get('fresh') or rv[1] == sid:
                    bad('result', 'insertion_point() does not return a newly created tree%s' % path_text(st))
                    continue
                rid = rv[1]
                eq_c(st, content_of(st, rid), [], 'the content of the new insertion point', 'result')
                eq_m(st, marks_of(st, rid), [], 'the markers of the new insertion point', 'result')
                if not write_bound(st, rid):
                    bad('result', 'the write method of the new insertion point is not bound to its stream')
                if st.nodes[rid]['f']['stream'] == st.nodes[sid]['f']['stream']:
                    bad('result', 'the new insertion point shares its stream with the parent')
                eq_c(st, content_of(st, sid, keep_at=(rid,)), PRE_CONTENT + [('at', rid)], 'content(tree) after insertion_point()', 'position')
                eq_m(st, marks_of(st, sid, keep_at=(rid,)), PRE_MARKS + [('at', rid)], 'markers(tree) after insertion_point()', 'position-markers')
                if not write_bound(st, sid):
                    bad('write', 'after insertion_point() self.write is not the write method of the current self.stream%s' % path_text(st))
        elif name == 'reset':
            m, outs, sv, args = run_paths(methods, clsname, name)
            for st, rv in outs:
                sid = sv[1]
                eq_c(st, content_of(st, sid), [], 'content(tree) after reset()', 'content')
                eq_m(st, marks_of(st, sid), [], 'markers(tree) after reset()', 'markers')
                if not write_bound(st, sid):
                    bad('write', 'after reset() self.write is not the write method of the current self.stream')
        elif name == '__init__':
            for given in (False, True):
                m = Machine(methods, clsname)
                st = State()
                st.n = 100
                nv = st.new_node('concrete')
                args = []
                if given:
                    s = st.new_stream()
                    st.streams[s[1]] = [('S', s[1])]
                    args = [s]
                for st2, rv in m.call_method(st, nv, '__init__', args, {}, 0):
                    nid = nv[1]
                    missing = [a for a in (CH, 'stream', 'write', 'markers') if a not in st2.nodes[nid]['f']]
                    if missing:
                        bad('state', '__init__ does not set %s on the instance: a class-level (shared) or missing attribute makes all trees share that state' % ', '.join('self.' + a for a in missing))
                        continue
                    want = [('S', args[0][1])] if given else []
                    eq_c(st2, content_of(st2, nid), want, 'content(tree) after __init__(%s)' % ('stream' if given else ''), 'content')
                    eq_m(st2, marks_of(st2, nid), [], 'markers(tree) after __init__', 'markers')
                    if not write_bound(st2, nid):
                        bad('write', 'after __init__ self.write is not the write method of self.stream')
        else:
            raise AnalysisError('no specification for StringIOTree.%s' % name)
    except Violation as v:
        bad(v.kind, str(v))
    return problems


def show_bool(rv):
    if rv[0] == 'bool':
        return str(rv[1])
    if rv[0] == 'symb':
        a = rv[1]
        txt = {'allempty': 'all(child.empty())', 'anyempty': 'any(child.empty())'}.get(a[0], repr(a))
        return txt if rv[2] else 'not ' + txt
    return repr(rv)


def path_text(st):
    parts = []
    for a, v in sorted(st.facts.items(), key=repr):
        if a == ('ne', ('S', 's0')):
            parts.append('the own stream is %s' % ('non-empty' if v else 'empty'))
        elif a == ('ne', ('seg', 'C0')):
            parts.append('there are %s' % ('children' if v else 'no children'))
        elif a == ('ne', ('seg', 'M0')):
            parts.append('there are %s' % ('pending markers' if v else 'no pending markers'))
        elif a[0] in ('all-empty', 'some-nonempty'):
            parts.append(a[0].replace('-', ' ') + ' children')
    return (' (when ' + ', '.join(parts) + ')') if parts else ''


# ================================================================================================ newline accounting (C49d)
class Form:
    """linear form  const + sum(coef * newlines(param))  (+ an unknown non-negative rest)"""

    def __init__(self, const=0, coefs=None, unk=False):
        self.const, self.coefs, self.unk = const, {k: v for k, v in (coefs or {}).items() if v}, unk

    def __add__(self, o):
        c = dict(self.coefs)
        for k, v in o.coefs.items():
            c[k] = c.get(k, 0) + v
        return Form(self.const + o.const, c, self.unk or o.unk)

    def neg(self):
        return Form(-self.const, {k: -v for k, v in self.coefs.items()}, self.unk)

    def under(self, facts):
        """substitute newlines(p) = 0 for parameters known to be newline-free"""
        return Form(self.const, {k: v for k, v in self.coefs.items() if facts.get(k) is not False}, self.unk)

    def zero(self):
        return not self.unk and not self.const and not self.coefs

    def key(self):
        return (self.const, tuple(sorted(self.coefs.items())), self.unk)

    def text(self):
        parts = []
        if self.const:
            parts.append(str(self.const))
        for k, v in sorted(self.coefs.items()):
            parts.append('%snewlines(%s)' % ('' if v == 1 else '%d*' % v, k))
        if self.unk:
            parts.append('<unknown>')
        return ' + '.join(parts) or '0'


UNK = Form(unk=True)


def _is_newline_const(n):
    return isinstance(n, ast.Constant) and n.value == '\n'


def nl_of(e, env, params, depth=0):
    """number of newlines in the string denoted by e"""
    if depth > 6:
        return UNK
    if isinstance(e, ast.Constant):
        if isinstance(e.value, str):
            return Form(e.value.count('\n'))
        return UNK
    if isinstance(e, ast.Name):
        if e.id in env:
            return nl_of(env[e.id], env, params, depth + 1)
        if e.id in params:
            return Form(0, {e.id: 1})
        return UNK
    if isinstance(e, ast.BinOp) and isinstance(e.op, ast.Mult):
        for a in (e.left, e.right):
            if nl_of(a, env, params, depth + 1).zero():      # a newline-free string repeated
                return Form(0)
        return UNK
    if isinstance(e, ast.BinOp) and isinstance(e.op, ast.Add):
        return nl_of(e.left, env, params, depth + 1) + nl_of(e.right, env, params, depth + 1)
    if isinstance(e, ast.JoinedStr):
        f = Form(0)
        for v in e.values:
            if isinstance(v, ast.Constant):
                f = f + nl_of(v, env, params, depth + 1)
            elif isinstance(v, ast.FormattedValue):
                spec = v.format_spec
                ok = spec is not None and len(spec.values) == 1 and isinstance(spec.values[0], ast.Constant) and str(spec.values[0].value)[-1:] in 'dxXobeEfFgGn'
                if not ok:
                    f = f + UNK
        return f
    if isinstance(e, ast.IfExp):
        a, b = nl_of(e.body, env, params, depth + 1), nl_of(e.orelse, env, params, depth + 1)
        return a if a.key() == b.key() else UNK
    return UNK


def count_of(e, env, params, depth=0):
    """value of an integer expression as a linear form in newlines(param)"""
    if depth > 6:
        return UNK
    if isinstance(e, ast.Constant) and isinstance(e.value, int) and not isinstance(e.value, bool):
        return Form(e.value)
    if isinstance(e, ast.Name) and e.id in env:
        return count_of(env[e.id], env, params, depth + 1)
    if isinstance(e, ast.Call) and isinstance(e.func, ast.Attribute) and e.func.attr == 'count' and len(e.args) == 1 and _is_newline_const(e.args[0]) and not e.keywords:
        return nl_of(e.func.value, env, params, depth + 1)
    if isinstance(e, ast.BinOp) and isinstance(e.op, ast.Add):
        return count_of(e.left, env, params, depth + 1) + count_of(e.right, env, params, depth + 1)
    if isinstance(e, ast.BinOp) and isinstance(e.op, ast.Sub):
        return count_of(e.left, env, params, depth + 1) + count_of(e.right, env, params, depth + 1).neg()
    return UNK


def len_of(e, env, params, depth=0):
    """length of a list expression"""
    if depth > 6:
        return UNK
    if isinstance(e, ast.Name) and e.id in env:
        return len_of(env[e.id], env, params, depth + 1)
    if isinstance(e, (ast.List, ast.Tuple)) and not any(isinstance(x, ast.Starred) for x in e.elts):
        return Form(len(e.elts))
    if isinstance(e, ast.BinOp) and isinstance(e.op, ast.Mult):
        for lst, k in ((e.left, e.right), (e.right, e.left)):
            l = len_of(lst, env, params, depth + 1)
            if not l.unk and l.key() == Form(1).key():
                return count_of(k, env, params, depth + 1)
        return UNK
    if isinstance(e, ast.BinOp) and isinstance(e.op, ast.Add):
        return len_of(e.left, env, params, depth + 1) + len_of(e.right, env, params, depth + 1)
    return UNK


def newline_test(test):
    """-> (param name, polarity): the test is true exactly when the parameter contains a newline (polarity True) / does not"""
    if isinstance(test, ast.UnaryOp) and isinstance(test.op, ast.Not):
        r = newline_test(test.operand)
        return (r[0], not r[1]) if r else None
    if isinstance(test, ast.Compare) and len(test.ops) == 1 and _is_newline_const(test.left) and isinstance(test.comparators[0], ast.Name):
        if isinstance(test.ops[0], ast.In):
            return (test.comparators[0].id, True)
        if isinstance(test.ops[0], ast.NotIn):
            return (test.comparators[0].id, False)
    if isinstance(test, ast.Call) and isinstance(test.func, ast.Attribute) and test.func.attr == 'count' and len(test.args) == 1 and _is_newline_const(test.args[0]) \
            and isinstance(test.func.value, ast.Name):
        return (test.func.value.id, True)
    return None


def _is_self_buffer(e, env, selfname='self'):
    if isinstance(e, ast.Name) and e.id in env:
        return _is_self_buffer(env[e.id], env, selfname)
    return isinstance(e, ast.Attribute) and e.attr == 'buffer' and isinstance(e.value, ast.Name) and e.value.id == selfname


def _is_self_markers(e, env, selfname='self'):
    if isinstance(e, ast.Name) and e.id in env:
        return _is_self_markers(env[e.id], env, selfname)
    return isinstance(e, ast.Attribute) and e.attr == 'markers' and _is_self_buffer(e.value, env, selfname)


def method_balance(fn, summaries):
    """-> list of (Form, facts) per path: (newlines written to self.buffer) - (markers recorded), or raises Giveup.
    summaries: method name -> (param names, Form) for self-calls with a non-zero balance."""
    params = [a.arg for a in fn.args.args]
    selfname = params[0] if params else 'self'
    pset = set(params[1:])

    def relevant(node, env=None):
        env = env or {}
        for n in ast.walk(node):
            if isinstance(n, ast.Attribute) and n.attr == 'markers':
                return True
            if isinstance(n, ast.Name) and n.id in env and (_is_self_markers(n, env, selfname) or _is_self_buffer(n, env, selfname)):
                return True
            if isinstance(n, ast.Call) and isinstance(n.func, ast.Attribute):
                if n.func.attr == 'write' and isinstance(n.func.value, ast.Attribute) and n.func.value.attr == 'buffer':
                    return True
                if isinstance(n.func.value, ast.Name) and n.func.value.id == selfname and n.func.attr in summaries:
                    return True
        return False

    def effect(stmt, env, facts):
        """balance contribution of one simple statement (calls in source order)"""
        total = Form(0)
        handled = set()
        if isinstance(stmt, ast.AugAssign) and _is_self_markers(stmt.target, env, selfname):
            if not isinstance(stmt.op, ast.Add):
                return UNK
            total = total + len_of(stmt.value, env, pset).neg()
            handled.add(id(stmt.target))
        elif isinstance(stmt, (ast.Assign, ast.AugAssign, ast.AnnAssign, ast.Delete)):
            tg = stmt.targets if isinstance(stmt, (ast.Assign, ast.Delete)) else [stmt.target]
            for t in tg:
                for x in ast.walk(t):
                    if isinstance(x, ast.Attribute) and x.attr == 'markers':
                        return UNK          # rebinding / deleting the markers list
                    if isinstance(x, ast.Subscript) and _is_self_markers(x.value, env, selfname):
                        return UNK
        for n in ast.walk(stmt):
            if isinstance(n, ast.Call) and isinstance(n.func, ast.Name) and n.func.id in env and _is_self_buffer(ast.Name(id=n.func.id), env, selfname):
                return UNK
            if isinstance(n, ast.Call) and any(_is_self_markers(a, env, selfname) and not isinstance(a, ast.Attribute) or
                                              (isinstance(a, ast.Attribute) and a.attr == 'markers') for a in n.args):
                return UNK          # the markers list escapes into a call
            if not (isinstance(n, ast.Call) and isinstance(n.func, ast.Attribute)):
                continue
            f = n.func
            if f.attr == 'write' and _is_self_buffer(f.value, env, selfname):
                total = total + (nl_of(n.args[0], env, pset).under(facts) if len(n.args) == 1 and not n.keywords else UNK)
            elif _is_self_markers(f.value, env, selfname):
                if f.attr == 'extend' and len(n.args) == 1:
                    total = total + len_of(n.args[0], env, pset).neg()
                elif f.attr == 'append' and len(n.args) == 1:
                    total = total + Form(-1)
                elif f.attr in ('count', 'index', 'copy', '__len__'):
                    pass
                else:
                    return UNK
            elif isinstance(f.value, ast.Name) and f.value.id == selfname and f.attr in summaries:
                cparams, form = summaries[f.attr][:2]
                bound = {}
                for p, a in zip(cparams, n.args):
                    bound[p] = a
                for k in n.keywords:
                    if k.arg:
                        bound[k.arg] = k.value
                sub = Form(form.const, {}, form.unk)
                for p, c in form.coefs.items():
                    if p not in bound:
                        return UNK
                    a = nl_of(bound[p], env, pset).under(facts)
                    sub = sub + Form(a.const * c, {k: v * c for k, v in a.coefs.items()}, a.unk)
                total = total + sub
        return total

    def block(stmts, env, facts, acc):
        """-> list of (acc form, env, facts, finished)"""
        states = [(acc, env, facts, False)]
        for s in stmts:
            nxt = []
            for acc, env, facts, fin in states:
                if fin:
                    nxt.append((acc, env, facts, fin))
                    continue
                if isinstance(s, ast.If):
                    nt = newline_test(s.test)
                    if relevant(s.test, env):
                        raise Giveup('buffer write inside a condition')
                    for branch, truth in ((s.body, True), (s.orelse, False)):
                        f2 = dict(facts)
                        if nt and nt[0] in pset:
                            has = nt[1] if truth else not nt[1]
                            if facts.get(nt[0], has) != has:
                                continue        # infeasible
                            f2[nt[0]] = has
                        nxt.extend(block(branch, dict(env), f2, acc))
                elif isinstance(s, (ast.Return, ast.Raise)):
                    a2 = acc + (effect(s, env, facts) if isinstance(s, ast.Return) and s.value is not None and relevant(s, env) else Form(0))
                    nxt.append((a2, env, facts, True))
                elif isinstance(s, (ast.For, ast.While, ast.Try, ast.With, ast.FunctionDef, ast.ClassDef)) or (hasattr(ast, 'Match') and isinstance(s, ast.Match)):
                    if relevant(s, env):
                        raise Giveup('buffer write inside a %s statement' % type(s).__name__)
                    nxt.append((acc, env, facts, False))
                else:
                    a2 = acc + effect(s, env, facts) if relevant(s, env) else acc
                    e2 = env
                    if isinstance(s, ast.Assign) and len(s.targets) == 1 and isinstance(s.targets[0], ast.Name):
                        e2 = dict(env)
                        e2[s.targets[0].id] = s.value
                    elif isinstance(s, (ast.Assign, ast.AugAssign, ast.AnnAssign)):
                        e2 = dict(env)
                        for t in (s.targets if isinstance(s, ast.Assign) else [s.target]):
                            for x in ast.walk(t):
                                if isinstance(x, ast.Name):
                                    e2.pop(x.id, None)
                    nxt.append((a2, e2, facts, False))
            states = nxt
        return states

    return [(acc, facts) for acc, env, facts, fin in block(fn.body, {}, {}, Form(0))]


def touches_buffer(fn, summaries):
    selfname = fn.args.args[0].arg if fn.args.args else 'self'
    for n in ast.walk(fn):
        if isinstance(n, ast.Attribute) and n.attr == 'markers':
            return True
        if isinstance(n, ast.Call) and isinstance(n.func, ast.Attribute):
            if n.func.attr == 'write' and isinstance(n.func.value, ast.Attribute) and n.func.value.attr == 'buffer':
                return True
            if isinstance(n.func.value, ast.Name) and n.func.value.id == selfname and n.func.attr in summaries:
                return True
    return False
