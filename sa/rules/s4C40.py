"""C40, sixth round: the type of an expression that *selects* one of its operands (`a and b`, `a or b`, `a if c else b`).

Safe inference gives `k = 5` a C long and `empty = not xs` a bint.  `chosen = k or empty` evaluates to ONE of the two values, so the
type of the expression (BoolBinopNode / CondExprNode .infer_type() and .analyse_types()) must be able to hold either value *with its
Python type*: PyrexTypes.independent_spanning_type.  If that answers a C number for (C long, bint) the local `chosen` is inferred as a
C long and the function returns 1 where infer_types=False returns True.

  C40-SELECT   pair table of PyrexTypes.independent_spanning_type (checker-owned evaluator, nothing of the repository is imported) over
               the COMPLETE partition of pure-Python value kinds of rules/sC40.PairDomain (+ the builtin bool), all ordered pairs and the
               nestings of three operands that contain one bool:
                 (a) a bool kind together with a kind of another Python type is never a C type (either order, either nesting);
                 (b) a Python int / str / generic object operand is never stored in a C type (a Python int does not fit a C integer),
                     a Python float only in a C double or wider, a Python complex only in a C complex;
                 (c) a C result is at least as wide as every C operand of its kind, an integer result has no float operand and a
                     non-complex result no complex operand.
  C40-SELWIRE  every expression class whose infer_type() is the spanning type of >= 2 child types (found from the shape of infer_type(),
               rules/sC40.forwarding_classes) is evaluated on stub children: infer_type() must give a result that satisfies (a)-(c)
               for the kinds of its children, whatever spanning function it calls and however the arguments are routed; the statement
               that stores `self.type` in its analyse method must call a PyrexTypes function with the same table properties and pass it the
               `.type` of each forwarded child (def-use over the locals of the method).
"""
import ast

from ..core import Rule, AnalysisError, node_src
from ..engine.pyindex import walk_no_nested, is_self_attr
from .pC07 import Obj, Unsupported, RepoFn, Method
from .sC40 import PairDomain, PairEval, Kind, forwarding_classes

PT = 'Cython/Compiler/PyrexTypes.py'
EN = 'Cython/Compiler/ExprNodes.py'


def _u(n):
    return ast.unparse(n)


class SelEval(PairEval):
    """PairEval + the bit operators on plain truth values (`a.is_reference ^ b.is_reference`)."""

    def expr(self, e, env, frame):
        if isinstance(e, ast.BinOp) and isinstance(e.op, (ast.BitXor, ast.BitAnd, ast.BitOr)):
            a, b = self.expr(e.left, env, frame), self.expr(e.right, env, frame)
            if isinstance(a, (bool, int)) and isinstance(b, (bool, int)):
                return a ^ b if isinstance(e.op, ast.BitXor) else a & b if isinstance(e.op, ast.BitAnd) else a | b
            raise Unsupported('bit operator on %r, %r' % (a, b))
        return PairEval.expr(self, e, env, frame)


class SelDomain(PairDomain):
    """PairDomain + what independent_spanning_type asks of a type in addition: resolve() (identity: no typedefs in pure Python code),
    get_container_type() (None: plain builtin types), the equivalences Builtin.init_builtins() installs, and the builtin bool."""

    def __init__(self, ctx):
        PairDomain.__init__(self, ctx)
        if 'independent_spanning_type' not in self.ix.mod('PyrexTypes').functions:
            raise AnalysisError('PyrexTypes.independent_spanning_type vanished')
        self.py_bool = Obj('Python bool', flag_default=False, is_pyobject=True, is_builtin_type=True, equivalent_type=self.bint,
                           can_coerce_to_pyobject=lambda scope: True)
        self.kinds = list(self.kinds) + [Kind('Python bool', 'bool', self.py_bool)]
        self.by_obj[id(self.py_bool)] = self.kinds[-1]
        self.bint.attrs['equivalent_type'] = self.py_bool
        self.py_float.attrs['equivalent_type'] = self.c_double
        self.py_complex.attrs['equivalent_type'] = self.c_dcomplex
        self.overrides[('Builtin', 'bool_type')] = self.py_bool
        for k in self.kinds:
            self._finish(k.obj)

    def _finish(self, o):
        o.attrs.setdefault('resolve', lambda o=o: o)
        o.attrs.setdefault('get_container_type', lambda: None)

    def evaluator(self):
        dom = self
        made = self.overrides[('PyrexTypes', 'CComplexType')]

        def make_complex(real):
            o = made(real)
            dom._finish(o)
            return o
        ov = dict(self.overrides)
        ov[('PyrexTypes', 'CComplexType')] = make_complex
        return SelEval(self.ix, overrides=ov)

    def pair(self, module, fnode, a, b):
        return self.evaluator().call(RepoFn(module, fnode), [a, b])


def _is_c(res):
    return not (isinstance(res, Obj) and res.attrs.get('is_pyobject') is True)


def char_problems(dom, seq, res):
    """class 'char' (rule C40-SELCHAR, pending finding): a Py_UCS4 operand - a one-character str - shares a number type with a number."""
    out = []
    if not isinstance(res, Obj) or len({k.pytype for k in seq}) < 2:
        return out
    for k in seq:
        if k.pytype == 'str' and not k.obj.attrs.get('is_pyobject'):
            pyt, label = dom.pytype_of(res)
            if res is not k.obj and pyt not in ('str', None):
                out.append(('char', 'a %s operand (a one-character str) is given the %s type %s: the character comes back as its code point' % (
                    k.label, 'C' if _is_c(res) else 'Python', label)))
    return out


def problems(dom, seq, res):
    """-> [(class of defect, text)] for the result type `res` of selecting among values of the kinds `seq`."""
    out = []
    if not isinstance(res, Obj):
        return [('not-a-type', 'the result %r is not a type' % (res,))]
    if res.attrs.get('is_error'):
        return [('error', 'the result is the error type')]
    if not _is_c(res):
        return out
    pyt, label = dom.pytype_of(res)
    ra = res.attrs
    pyts = {k.pytype for k in seq}
    if 'bool' in pyts and len(pyts) > 1:
        out.append(('bool', 'a bool and a value of another type are given the C type %s: the bool comes back as %s'
                    % (label, {'int': '1 / 0', 'float': '1.0 / 0.0', 'complex': '(1+0j)', 'bool': 'a bool, the other value as True / False'}.get(pyt, 'a converted value'))))
    for k in seq:
        a = k.obj.attrs
        if a.get('is_pyobject'):
            if k.pytype in ('int', 'str', None):
                out.append(('pyobject', 'a %s operand is stored in the C type %s: %s' % (k.label, label, 'a Python int beyond the C range wraps or raises OverflowError'
                                                                                       if k.pytype == 'int' else 'the object is converted')))
            elif k.pytype == 'float' and not ((ra.get('is_float') and ra['rank'] >= dom.c_double.attrs['rank']) or ra.get('is_complex')):
                out.append(('pyobject', 'a Python float operand is stored in the C type %s' % label))
            elif k.pytype == 'complex' and not ra.get('is_complex'):
                out.append(('pyobject', 'a Python complex operand is stored in the C type %s' % label))
            elif k.pytype == 'bool' and res is not dom.bint:
                out.append(('pyobject', 'a Python bool operand is stored in the C type %s' % label))
            continue
        if a.get('is_complex'):
            if not ra.get('is_complex'):
                out.append(('narrow', 'a %s operand is stored in the non-complex C type %s' % (k.label, label)))
        elif a.get('is_float'):
            if ra.get('is_int'):
                out.append(('narrow', 'a %s operand is stored in the C integer type %s: the fraction is cut off' % (k.label, label)))
            elif ra.get('is_float') and ra['rank'] < a['rank']:
                out.append(('narrow', 'a %s operand is stored in the narrower C type %s' % (k.label, label)))
        elif a.get('is_int') and k.pytype == 'int':
            if ra.get('is_int') and ra['rank'] < a['rank']:
                out.append(('narrow', 'a %s operand is stored in the narrower C type %s: the value is truncated' % (k.label, label)))
    return out


def sequences(dom):
    """all ordered pairs + for every kind X of another Python type than bool the three-operand nestings with one bint."""
    kinds = dom.kinds
    bint = kinds[0]
    for a in kinds:
        for b in kinds:
            yield 'pair', (a, b)
    for x in kinds:
        if x.pytype == 'bool':
            continue
        for seq in ((x, x, bint), (bint, x, x), (x, bint, x)):
            yield 'left', seq            # (a op b) op c
            yield 'right', seq           # a op (b op c): how the parser nests `a or b or c`


def fold(dom, module, fnode, how, seq):
    objs = [k.obj for k in seq]
    if how == 'pair':
        return dom.pair(module, fnode, objs[0], objs[1])
    if how == 'left':
        return dom.pair(module, fnode, dom.pair(module, fnode, objs[0], objs[1]), objs[2])
    return dom.pair(module, fnode, objs[0], dom.pair(module, fnode, objs[1], objs[2]))


def select_table(dom, module, fnode):
    rows = []
    for how, seq in sequences(dom):
        try:
            res = fold(dom, module, fnode, how, seq)
        except Unsupported as e:
            raise AnalysisError('%s cannot be evaluated for (%s): %s' % (fnode.name, ', '.join(k.label for k in seq), e))
        rows.append((how, seq, res, problems(dom, seq, res)))
    return rows


_PC = ("def independent_spanning_type(type1, type2):\n"
       "    resolved_type1 = type1.resolve()\n"
       "    resolved_type2 = type2.resolve()\n"
       "    if resolved_type1 == resolved_type2:\n        return type1\n"
       "    elif resolved_type1 is c_bint_type and type2.is_numeric:\n        return py_object_type\n"
       "    elif type1.is_numeric and type2.is_numeric:\n"
       "        if type1.is_int and type2.is_int:\n            return type1\n"
       "        return type2 if type2.is_float else type1\n"
       "    return py_object_type\n")


_CLS_TEXT = {'bool': 'a bool and a value of another Python type are given one C type: the bool comes back as a number (1 / 1.0) or the number as a bool',
             'pyobject': 'a Python object operand (Python int / str / object ...) is stored in a C type: a Python int beyond the C range wraps or raises OverflowError',
             'narrow': 'a C operand is stored in a narrower C type: the value is truncated / loses its fraction',
             'char': 'a Py_UCS4 operand (a one-character str, e.g. s[i] of a str) shares a number type with a number: the character comes back as its code point (98 for "b")'}


def _report(r, rows, fname, rel, line, prefix, base=None):
    """one finding per class of defect; `base` = {(how, labels): {classes}} already reported for the spanning function itself (not repeated per call site)"""
    bad = {}
    for how, seq, res, probs in rows:
        labels = tuple(k.label for k in seq)
        for cls, text in probs:
            if base is not None and cls in base.get((how, labels), ()):
                continue
            bad.setdefault(cls, []).append((how, labels, getattr(res, 'label', repr(res)), text))
    for cls, lst in sorted(bad.items()):
        ex = sorted({'(%s)%s -> %s' % (', '.join(l), '' if h == 'pair' else ' nested ' + h, res) for h, l, res, _ in lst})
        r.violate('%s:%s' % (prefix, cls), rel, line, '%s: %s - %d operand-kind combinations, e.g. %s. With safe type inference the local the expression is assigned to '
                  'takes this C type; infer_types=False keeps the Python objects' % (fname, _CLS_TEXT.get(cls, lst[0][3]), len(ex), '; '.join(ex[:5])))


def _problem_index(rows):
    return {(how, tuple(k.label for k in seq)): {c for c, _ in probs} for how, seq, res, probs in rows}


def rule_SELECT(ctx, floor=300):
    r = Rule('C40-SELECT', 'the type PyrexTypes.independent_spanning_type gives an expression that selects one of two operands (and / or / conditional expression) holds '
                           'either operand with its Python type: bool + other -> not a C type, Python int / object never in a C type, no narrowing '
                           '(pair table over all pure-Python value kinds, both orders, three-operand nestings with a bool)', floor)
    dom = SelDomain(ctx)
    pt = ctx.index.mod('PyrexTypes')
    fn = pt.functions['independent_spanning_type']
    rows = select_table(dom, pt, fn)
    for how, seq, res, probs in rows:
        key = 'independent_spanning_type:%s(%s)' % ('' if how == 'pair' else how + ' ', ', '.join(k.label for k in seq))
        r.inst(key, sample='%s -> %s' % (key, getattr(res, 'label', res)), nontrivial=len({k.label for k in seq}) > 1)
    _report(r, rows, 'PyrexTypes.independent_spanning_type', PT, fn.lineno, 'independent_spanning_type')
    pc = ast.parse(_PC).body[0]
    crow = select_table(dom, pt, pc)
    cls = {(c, tuple(k.label for k in seq)) for how, seq, res, probs in crow if how == 'pair' for c, _ in probs}
    r.positive_control(('bool', ('C long', 'bint')) in cls and ('bool', ('bint', 'C long')) not in cls and ('narrow', ('C int', 'C long long')) in cls
                       and ('narrow', ('C long long', 'C int')) not in cls,
                       'one-sided bint guard / first-operand-wins integer merge')
    return r


# ====================================================================================================== C40-SELWIRE
def _type_stores(cls):
    """[(method, Assign, callee name)] `self.type = <call>(...)` in the methods the class defines itself"""
    out = []
    for name, fn in cls.methods.items():
        for n in walk_no_nested(fn):
            if isinstance(n, ast.Assign) and len(n.targets) == 1 and is_self_attr(n.targets[0]) and n.targets[0].attr == 'type' and isinstance(n.value, ast.Call):
                f = n.value.func
                out.append((fn, n, f.attr if isinstance(f, ast.Attribute) else f.id if isinstance(f, ast.Name) else ''))
    return out


def choice_classes(ix):
    """{ClassInfo: {'children': [...], 'infer': FunctionDef|None, 'stores': [(method, Assign)], 'subexprs': [...]}} - expression classes whose value is one of
    >= 2 operands: found from the shape of infer_type() (sC40.forwarding_classes) OR from a `self.type = <...spanning_type>(child types)` store, so that an
    edit of one site leaves the class known through the other.  For a class found either way every `self.type = <call>` whose arguments are computed from
    two or more of its sub-expressions is a store site (the call may be a helper method: it is evaluated, not matched)."""
    expr = ix.cls('ExprNodes', 'ExprNode')
    if expr is None:
        raise AnalysisError('ExprNodes.ExprNode vanished')
    fw = forwarding_classes(ix)
    out = {}
    for c in [expr] + ix.subclasses(expr):
        stores = _type_stores(c)
        if not (c in fw or any(nm.endswith('spanning_type') for _, _, nm in stores)):
            continue
        sa = ix.class_list_attr(c, 'subexprs')
        sub = list(sa[1] or []) if sa else []
        keep = []
        for fn, st, nm in stores:
            refs = set()
            for x in [st] + _safe_slice(fn, st):
                refs |= {a for a in _child_refs(x.value) if a in sub}
            if len(refs) >= 2 or (nm.endswith('spanning_type') and refs):
                keep.append((fn, st))
        out[c] = {'children': list(fw.get(c, [])), 'infer': c.methods.get('infer_type'), 'stores': keep, 'subexprs': sub}
    return out


def _child_refs(node):
    return {n.attr for n in ast.walk(node) if isinstance(n, ast.Attribute) and is_self_attr(n)}


def _slice(fn, stmt):
    """statements of `fn` (source order) that define, by a single plain assignment each, the local names the value of `stmt` is computed from"""
    defs = {}
    for n in walk_no_nested(fn):
        if isinstance(n, ast.Assign) and n is not stmt and n.lineno < stmt.lineno:
            for t in n.targets:
                if isinstance(t, ast.Name):
                    defs.setdefault(t.id, []).append(n)
    need, todo, seen = [], [stmt.value], set()
    while todo:
        e = todo.pop()
        for n in ast.walk(e):
            if isinstance(n, ast.Name) and n.id in defs and n.id not in seen:
                seen.add(n.id)
                if len(defs[n.id]) != 1:
                    raise Unsupported('local %s has %d definitions' % (n.id, len(defs[n.id])))
                need.append(defs[n.id][0])
                todo.append(defs[n.id][0].value)
    return sorted(need, key=lambda s: s.lineno)


def _stub_child(name, kindobj):
    o = Obj('<%s>' % name, flag_default=False, type=kindobj, infer_type=lambda env: kindobj)
    for m in ('analyse_types', 'analyse_expressions'):
        o.attrs[m] = lambda env, o=o: o
    return o


def _node_stub(cls, children, kinds, operator=None):
    kw = {ch: _stub_child(ch, k.obj) for ch, k in zip(children, kinds)}
    if operator is not None:
        kw['operator'] = operator
    return Obj(cls.name, cls=cls, flag_default=False, **kw)


def operators_of(ix, cls):
    """the operator strings ExprNodes.binop_node_classes maps to this class (BoolBinopNode: 'and', 'or'); [None] for a class that is not in the table"""
    m = cls.module
    t = m.bindings.get('binop_node_classes')
    ops = []
    if isinstance(t, ast.Dict):
        ops = [k.value for k, v in zip(t.keys, t.values) if isinstance(k, ast.Constant) and isinstance(v, ast.Name) and v.id == cls.name]
    return sorted(ops) or [None]


def wire_rows(dom, cls, info, pairs, operators=(None,)):
    """-> (children, [(site, seq, res, problems)], [notes]) for the infer_type() method and every spanning store of the class"""
    children = sorted(set(info['children']) | {a for fn, st in info['stores'] for s in [st] + _safe_slice(fn, st) for a in _child_refs(s.value) if a in info['subexprs']})
    rows, notes = [], []
    if len(children) != 2:
        notes.append('%d forwarded children (%s): only two-operand choices are modelled' % (len(children), ', '.join(children)))
        return children, rows, notes
    envo = Obj('env', flag_default=False)
    sites = []
    if info['infer'] is not None:
        sites.append(('infer_type', info['infer'], None))
    for fn, st in info['stores']:
        sites.append(('%s: self.type' % fn.name, fn, st))
    for site, fn, st in sites:
        try:
            sl = _slice(fn, st) if st is not None else None
        except Unsupported as e:
            notes.append('%s.%s not decided: %s' % (cls.name, site, e))
            continue
        for a, b, op in [(a, b, op) for op in operators for a, b in pairs]:
            selfobj = _node_stub(cls, children, (a, b), op)
            ev = dom.evaluator()
            try:
                if st is None:
                    res = ev.call(Method(RepoFn(cls.module, fn, cls), selfobj), [envo])
                else:
                    env = {'self': selfobj}
                    for an in fn.args.args[1:]:
                        env[an.arg] = envo
                    frame = {'fn': RepoFn(cls.module, fn, cls), 'self': selfobj}
                    for s in sl:
                        ev.stmt(s, env, frame)
                    res = ev.expr(st.value, env, frame)
            except Unsupported as e:
                notes.append('%s.%s not decided: %s' % (cls.name, site, e))
                break
            rows.append((site if op is None else '%s[%s]' % (site, op), (a, b), res, problems(dom, (a, b), res)))
    return children, rows, notes


def _safe_slice(fn, st):
    try:
        return _slice(fn, st)
    except Unsupported:
        return []


_PC_WIRE = ("class CondExprNode(ExprNode):\n"
            "    subexprs = ['condition', 'true_val', 'false_val']\n"
            "    def infer_type(self, env):\n"
            "        t = self.true_val.infer_type(env)\n"
            "        return PyrexTypes.independent_spanning_type(t, t)\n")


def rule_SELWIRE(ctx, floor=1500):
    r = Rule('C40-SELWIRE', 'an expression node whose value is one of two operands (conditional expression, and / or) computes its type - in infer_type() and where it stores '
                            'self.type - from the types of BOTH operands with a function that keeps a bool a bool, a Python int a Python object and never narrows '
                            '(the methods are evaluated on stub operands of every pair of pure-Python value kinds)', floor)
    ix = ctx.index
    dom = SelDomain(ctx)
    classes = choice_classes(ix)
    if len(classes) < 2:
        raise AnalysisError('only %d operand-selecting expression classes found (conditional expression and and/or expected)' % len(classes))
    pairs = [(a, b) for a in dom.kinds for b in dom.kinds]
    # what the spanning function itself gets wrong is reported once, by C40-SELECT, not again for each of its call sites; a call site is reported for
    # what it adds (another function, an operand left out or passed twice)
    pt = ix.mod('PyrexTypes')
    base = {}
    for how, seq, res, probs in select_table(dom, pt, pt.functions['independent_spanning_type']):
        if how == 'pair':
            for x in ((seq[0], seq[1]), (seq[1], seq[0])):
                base.setdefault(('pair', tuple(k.label for k in x)), set()).update(c for c, _ in probs)
    for cls, info in sorted(classes.items(), key=lambda kv: kv[0].name):
        children, rows, notes = wire_rows(dom, cls, info, pairs, operators_of(ix, cls))
        for n in notes:
            r.info(n)
        if info['infer'] is None or not info['stores']:
            r.info('%s: %s' % (cls.name, 'no infer_type() of its own' if info['infer'] is None else 'no spanning store of self.type found'))
        sites = {}
        for site, seq, res, probs in rows:
            r.inst('%s.%s(%s)' % (cls.name, site, ', '.join(k.label for k in seq)), sample='%s.%s (%s) -> %s' % (cls.name, site, ', '.join(k.label for k in seq), getattr(res, 'label', res)),
                   nontrivial=seq[0] is not seq[1])
            sites.setdefault(site, []).append(('pair', seq, res, probs))
        for site, srows in sites.items():
            fn = info['infer'] if site.startswith('infer_type') else [f for f, st in info['stores'] if site.startswith(f.name + ':')][0]
            _report(r, srows, '%s.%s (operands %s)' % (cls.name, site, ' / '.join(children)), cls.module.rel, fn.lineno, '%s.%s' % (cls.name, site), base=base)
    # control: a conditional expression that looks at one operand only
    pcc = ast.parse(_PC_WIRE).body[0]
    fn = pcc.body[1]
    cond = ix.cls('ExprNodes', 'CondExprNode')
    if cond is None:
        raise AnalysisError('ExprNodes.CondExprNode vanished')
    by = {k.label: k for k in dom.kinds}
    info = {'children': ['false_val', 'true_val'], 'infer': fn, 'stores': [], 'subexprs': ['condition', 'true_val', 'false_val']}
    _, rows, _ = wire_rows(dom, cond, info, [(by['bint'], by['C long']), (by['C long'], by['bint'])])
    r.positive_control(any(c == 'bool' for _, _, _, probs in rows for c, _ in probs), 'infer_type() that spans one operand with itself')
    return r


# ====================================================================================================== C40-SELCHAR (pending finding, not registered)
def rule_SELCHAR(ctx, floor=30):
    """pending finding (FINDING_1 of round six): independent_spanning_type(Py_UCS4, C long) is C long on the unmodified tree -
    `s = "abc"; n = 5; x = s[1] if c else n; return x` returns 98 with safe inference and 'b' with infer_types=False.
    PyrexTypes.spanning_type() has the guard (`is_unicode_char -> py_object_type`), independent_spanning_type() lacks it."""
    r = Rule('C40-SELCHAR', 'a Py_UCS4 operand (one-character str) of and / or / a conditional expression never shares a C number type or the Python int type with a number: '
                            'PyrexTypes.independent_spanning_type(Py_UCS4, X) is Py_UCS4 itself, str or the generic object', floor)
    dom = SelDomain(ctx)
    pt = ctx.index.mod('PyrexTypes')
    fn = pt.functions['independent_spanning_type']
    rows = []
    for how, seq in sequences(dom):
        if how != 'pair' or not any(k.label == 'Py_UCS4' for k in seq):
            continue
        try:
            res = fold(dom, pt, fn, how, seq)
        except Unsupported as e:
            raise AnalysisError('independent_spanning_type cannot be evaluated for (%s): %s' % (', '.join(k.label for k in seq), e))
        r.inst('independent_spanning_type:(%s)' % ', '.join(k.label for k in seq), sample='(%s) -> %s' % (', '.join(k.label for k in seq), getattr(res, 'label', res)),
               nontrivial=seq[0] is not seq[1])
        rows.append((how, seq, res, char_problems(dom, seq, res)))
    _report(r, rows, 'PyrexTypes.independent_spanning_type', PT, fn.lineno, 'independent_spanning_type')
    pc = ast.parse(_PC).body[0]
    by = {k.label: k for k in dom.kinds}
    seq = (by['C long'], by['Py_UCS4'])
    r.positive_control(bool(char_problems(dom, seq, fold(dom, pt, pc, 'pair', seq))), 'character merged with a C long')
    return r
