"""Helpers for C33: (1) a small partial evaluator for the Python functions that pick a conversion template
(`CppClassType.create_{from,to}_py_utility_code` and friends) — concrete for strings/tables/`self.cname`, symbolic
(identity-preserving unknowns) for everything else; (2) readers for the Cython-level utility files: Tempita
variables of a section, `cdef extern` helper declarations, `@cname` keys.

Nothing is imported from the analysed repository: the evaluator walks the ast of PyrexTypes.py.
"""
import ast, builtins, itertools, re

from ..core import AnalysisError

OPEN = '<unknown keys>'


class Sym:
    """An unknown run-time value.  Identity is preserved through assignments, so `a is b` decides 'same value'.
    When spliced into a string it shows up as a unique marker, so name computations stay concrete around it."""
    _n = itertools.count(1)

    def __init__(self, why=''):
        self.why = why
        self.marker = '§%d§' % next(Sym._n)

    def __repr__(self):
        return '<?%s>' % self.why


class Multi:
    def __init__(self, values):
        self.values = frozenset(values)

    def __repr__(self):
        return 'Multi(%s)' % sorted(self.values)


class Impossible(Exception):
    """The concrete part of the state makes this execution impossible (KeyError/IndexError on known data)."""


class _Return(Exception):
    def __init__(self, value):
        self.value = value


class _Break(Exception):
    pass


class _Continue(Exception):
    pass


def known(v):
    return not isinstance(v, (Sym, Multi))


def _strish(v):
    """Replace unknowns inside a value by their markers so that string building can proceed."""
    if isinstance(v, Sym):
        return v.marker
    if isinstance(v, tuple):
        return tuple(_strish(x) for x in v)
    if isinstance(v, list):
        return [_strish(x) for x in v]
    return v


STR_METHODS = ('replace', 'join', 'format', 'lower', 'upper', 'startswith', 'endswith', 'split', 'strip', 'lstrip', 'rstrip', 'title', 'capitalize')


class LoadSite:
    def __init__(self, func, key, section, file, context, line, env):
        self.func, self.key, self.section, self.file, self.context, self.line, self.env = func, key, section, file, context, line, env

    def __repr__(self):
        return '<load %s %s -> %s::%s ctx=%s>' % (self.func, self.key, self.file, self.section, sorted(map(str, self.context)) if isinstance(self.context, dict) else self.context)


class Interp:
    def __init__(self, module_tree, loader_names=('CythonUtilityCode',), loader_methods=('load', 'load_cached')):
        self.consts = {}
        for st in module_tree.body:
            if isinstance(st, ast.Assign) and len(st.targets) == 1 and isinstance(st.targets[0], ast.Name):
                try:
                    self.consts[st.targets[0].id] = ast.literal_eval(st.value)
                except (ValueError, SyntaxError):
                    pass
        self.loader_names, self.loader_methods = loader_names, loader_methods
        self.loads = []
        self.cls = None
        self.cur = ''
        self.key = None
        self.depth = 0
        self.unbounded = False

    # ------------------------------------------------------------------ running a function
    def run(self, cls_node, fn, env=None, key=None):
        """Execute method/function `fn` with the given concrete facts; -> (final env, return value or None)."""
        self.cls, self.cur, self.key = cls_node, '%s.%s' % (cls_node.name, fn.name) if cls_node is not None else fn.name, key
        env = dict(env or {})
        for a in fn.args.args:
            env.setdefault(a.arg, Sym(a.arg))
        ret = None
        try:
            self.exec(fn.body, env)
        except _Return as r:
            ret = r.value
        except (_Break, _Continue):
            pass
        return env, ret

    # ------------------------------------------------------------------ statements
    def exec(self, stmts, env):
        for st in stmts:
            self.exec1(st, env)

    def _quiet(self, stmts, env):
        try:
            self.exec(stmts, env)
        except (_Return, _Break, _Continue):
            pass

    def assign(self, tgt, val, env):
        if isinstance(tgt, ast.Name):
            env[tgt.id] = val
        elif isinstance(tgt, ast.Attribute) and isinstance(tgt.value, ast.Name) and tgt.value.id == 'self':
            env['self.' + tgt.attr] = val
        elif isinstance(tgt, ast.Subscript):
            box = self.eval(tgt.value, env)
            k = self.eval(tgt.slice, env)
            if isinstance(box, dict):
                if known(k):
                    try:
                        box[k] = val
                    except TypeError:
                        box[OPEN] = True
                else:
                    box[OPEN] = True
            elif isinstance(box, list) and isinstance(k, int):
                try:
                    box[k] = val
                except IndexError:
                    raise Impossible()
        elif isinstance(tgt, (ast.Tuple, ast.List)):
            if isinstance(val, (tuple, list)) and len(val) == len(tgt.elts):
                for t, v in zip(tgt.elts, val):
                    self.assign(t, v, env)
            else:
                for t in tgt.elts:
                    self.assign(t, Sym('unpack'), env)

    def exec1(self, st, env):
        if isinstance(st, ast.Assign):
            v = self.eval(st.value, env)
            for t in st.targets:
                self.assign(t, v, env)
        elif isinstance(st, ast.AnnAssign):
            if st.value is not None:
                self.assign(st.target, self.eval(st.value, env), env)
        elif isinstance(st, ast.AugAssign):
            self.eval(st.value, env)
            self.assign(st.target, Sym('aug'), env)
        elif isinstance(st, ast.Expr):
            self.eval(st.value, env)
        elif isinstance(st, ast.If):
            t = self.eval(st.test, env)
            if known(t):
                self.exec(st.body if t else st.orelse, env)
            else:
                # unknown test: follow both branches.  A branch that always leaves the function cannot influence the
                # statements after the `if`, so it runs on a private copy of the state (utility loads inside it keep
                # a reference to that copy, i.e. to the state at the end of *their* path).
                for branch in (st.body, st.orelse):
                    if branch and isinstance(branch[-1], (ast.Return, ast.Raise)):
                        self._quiet(branch, self._snapshot(env))
                    else:
                        self._quiet(branch, env)
        elif isinstance(st, ast.For):
            self.loop(st, env)
        elif isinstance(st, ast.While):
            self._quiet(st.body, env)
        elif isinstance(st, ast.Return):
            raise _Return(self.eval(st.value, env) if st.value is not None else None)
        elif isinstance(st, ast.Raise):
            raise _Return(None)
        elif isinstance(st, ast.Break):
            raise _Break()
        elif isinstance(st, ast.Continue):
            raise _Continue()
        elif isinstance(st, ast.Try):
            self.exec(st.body, env)
            self.exec(st.finalbody, env)
        elif isinstance(st, ast.With):
            self.exec(st.body, env)
        # imports, nested defs, pass, assert, global ...: no effect on the facts we track

    @staticmethod
    def _snapshot(env):
        out = {}
        for k, v in env.items():
            out[k] = dict(v) if isinstance(v, dict) else list(v) if isinstance(v, list) else v
        return out

    def loop(self, st, env):
        it = self.eval(st.iter, env)
        if known(it) and isinstance(it, (list, tuple, str, dict)):
            for x in list(it):
                self.assign(st.target, x, env)
                try:
                    self.exec(st.body, env)
                except _Break:
                    return
                except _Continue:
                    continue
            self._quiet(st.orelse, env)
            return
        is_enum = isinstance(st.iter, ast.Call) and isinstance(st.iter.func, ast.Name) and st.iter.func.id == 'enumerate' \
            and isinstance(st.target, ast.Tuple) and len(st.target.elts) == 2
        if not is_enum:
            self.assign(st.target, Sym('item'), env)
            try:
                self.exec(st.body, env)
            except (_Break, _Continue):
                pass
            return
        # enumerate(<unknown sequence>): unroll with a concrete index and an unknown element until the body breaks;
        # an iteration that is impossible on the concrete facts means the sequence was shorter.
        for i in range(8):
            snap = self._snapshot(env)
            self.assign(st.target.elts[0], i, env)
            self.assign(st.target.elts[1], Sym('elem%d' % i), env)
            try:
                self.exec(st.body, env)
            except _Break:
                return
            except _Continue:
                continue
            except Impossible:
                env.clear()
                env.update(snap)
                return
        self.unbounded = True

    # ------------------------------------------------------------------ expressions
    def eval(self, n, env):
        try:
            return self._eval(n, env)
        except (Impossible, _Return, _Break, _Continue):
            raise
        except Exception:
            return Sym('error')

    def _eval(self, n, env):
        if n is None:
            return None
        if isinstance(n, ast.Constant):
            return n.value
        if isinstance(n, ast.Name):
            if n.id in env:
                return env[n.id]
            if n.id in self.consts:
                return self.consts[n.id]
            if n.id in ('True', 'False', 'None'):
                return {'True': True, 'False': False, 'None': None}[n.id]
            return Sym(n.id)
        if isinstance(n, ast.Attribute):
            if isinstance(n.value, ast.Name) and n.value.id == 'self':
                k = 'self.' + n.attr
                if k not in env:
                    env[k] = Sym(k)
                return env[k]
            self.eval(n.value, env)
            return Sym('attr ' + n.attr)
        if isinstance(n, ast.Subscript):
            v = self.eval(n.value, env)
            if isinstance(n.slice, ast.Slice):
                parts = [self.eval(x, env) if x is not None else None for x in (n.slice.lower, n.slice.upper, n.slice.step)]
                if not all(known(p) for p in parts) or not known(v):
                    return Sym('slice')
                return v[slice(*parts)]
            k = self.eval(n.slice, env)
            if not known(v) or not known(k) or not isinstance(v, (dict, list, tuple, str)):
                return Sym('subscript')
            try:
                return v[k]
            except (KeyError, IndexError):
                if isinstance(v, dict) and v.get(OPEN):
                    return Sym('subscript')
                raise Impossible()
        if isinstance(n, ast.Tuple):
            return tuple(self.eval(e, env) for e in n.elts)
        if isinstance(n, ast.List):
            return [self.eval(e, env) for e in n.elts]
        if isinstance(n, ast.Dict):
            out = {}
            for k, v in zip(n.keys, n.values):
                if k is None:
                    sub = self.eval(v, env)
                    if isinstance(sub, dict):
                        out.update(sub)
                    else:
                        out[OPEN] = True
                    continue
                kk = self.eval(k, env)
                vv = self.eval(v, env)
                if known(kk):
                    out[kk] = vv
                else:
                    out[OPEN] = True
            return out
        if isinstance(n, ast.JoinedStr):
            parts = []
            for p in n.values:
                if isinstance(p, ast.Constant):
                    parts.append(str(p.value))
                else:
                    v = self.eval(p.value, env)
                    parts.append(str(_strish(v)) if isinstance(v, (str, int, Sym)) else Sym('fmt').marker)
            return ''.join(parts)
        if isinstance(n, ast.BinOp):
            a, b = self.eval(n.left, env), self.eval(n.right, env)
            if isinstance(n.op, ast.Mod) and isinstance(a, str):
                return a % _strish(b)
            if isinstance(n.op, ast.Add) and (isinstance(a, str) or isinstance(b, str)):
                a2, b2 = _strish(a), _strish(b)
                if isinstance(a2, str) and isinstance(b2, str):
                    return a2 + b2
                return Sym('add')
            if not known(a) or not known(b):
                return Sym('binop')
            if isinstance(n.op, ast.Add):
                return a + b
            if isinstance(n.op, ast.Mult):
                return a * b
            if isinstance(n.op, ast.Sub):
                return a - b
            return Sym('binop')
        if isinstance(n, ast.UnaryOp):
            v = self.eval(n.operand, env)
            if isinstance(n.op, ast.Not):
                return (not v) if known(v) else Sym('not')
            if isinstance(n.op, ast.USub) and known(v):
                return -v
            return Sym('unary')
        if isinstance(n, ast.BoolOp):
            vals = [self.eval(v, env) for v in n.values]       # (operands here have no effects we track)
            if isinstance(n.op, ast.And):
                for v in vals:
                    if known(v) and not v:
                        return v
                return vals[-1] if all(known(v) for v in vals) else Sym('and')
            for v in vals:
                if known(v) and v:
                    return v
                if not known(v):
                    return Sym('or')
            return vals[-1]
        if isinstance(n, ast.Compare) and len(n.ops) == 1:
            a, b = self.eval(n.left, env), self.eval(n.comparators[0], env)
            op = n.ops[0]
            if isinstance(op, (ast.Is, ast.IsNot)):
                if known(a) and known(b):
                    return (a is b) if isinstance(op, ast.Is) else (a is not b)
                return Sym('is')
            if not known(a) or not known(b):
                return Sym('cmp')
            if isinstance(b, dict) and b.get(OPEN) and isinstance(op, (ast.In, ast.NotIn)):
                return Sym('cmp')
            return {ast.In: lambda: a in b, ast.NotIn: lambda: a not in b, ast.Eq: lambda: a == b, ast.NotEq: lambda: a != b,
                    ast.Lt: lambda: a < b, ast.LtE: lambda: a <= b, ast.Gt: lambda: a > b, ast.GtE: lambda: a >= b}[type(op)]()
        if isinstance(n, ast.IfExp):
            t = self.eval(n.test, env)
            if known(t):
                return self.eval(n.body if t else n.orelse, env)
            a, b = self.eval(n.body, env), self.eval(n.orelse, env)
            if known(a) and known(b) and isinstance(a, (str, int)) and isinstance(b, (str, int)):
                return Multi([a, b])
            return Sym('ifexp')
        if isinstance(n, ast.Call):
            return self.call(n, env)
        return Sym(type(n).__name__)

    def call(self, n, env):
        f = n.func
        args = [self.eval(a, env) for a in n.args if not isinstance(a, ast.Starred)]
        kw = {k.arg: self.eval(k.value, env) for k in n.keywords if k.arg}
        if isinstance(f, ast.Attribute) and f.attr in self.loader_methods and isinstance(f.value, ast.Name) and f.value.id in self.loader_names:
            sec = args[0] if args else kw.get('util_code_name')
            fil = args[1] if len(args) > 1 else kw.get('from_file')
            site = LoadSite(self.cur, self.key, sec, fil, kw.get('context'), n.lineno, env)
            site.kw, site.node = kw, n          # every keyword of the load call (outer_module_scope, compiler_directives ...) and its ast
            self.loads.append(site)
            return Sym('utility')
        if isinstance(f, ast.Name) and f.id == 'dict':
            out = dict(args[0]) if args and isinstance(args[0], dict) else {}
            out.update(kw)
            if any(k.arg is None for k in n.keywords) or (args and not isinstance(args[0], dict)):
                out[OPEN] = True
            return out
        if isinstance(f, ast.Name) and f.id in ('len', 'str', 'repr', 'int', 'bool', 'tuple', 'list', 'sorted') and args and all(known(a) for a in args) and not kw:
            return getattr(builtins, f.id)(*args)
        if isinstance(f, ast.Attribute) and isinstance(f.value, ast.Name) and f.value.id == 'self' and self.cls is not None and self.depth < 3:
            for m in self.cls.body:
                if isinstance(m, ast.FunctionDef) and m.name == f.attr and len(m.args.args) == 1 + len(args) and not kw:
                    sub = {k: v for k, v in env.items() if k.startswith('self.')}
                    for a, v in zip(m.args.args[1:], args):
                        sub[a.arg] = v
                    self.depth += 1
                    try:
                        self.exec(m.body, sub)
                        ret = None
                    except _Return as r:
                        ret = r.value
                    except (_Break, _Continue):
                        ret = Sym('call')
                    finally:
                        self.depth -= 1
                    for k, v in sub.items():
                        if k.startswith('self.'):
                            env[k] = v
                    return ret
        if isinstance(f, ast.Attribute):
            base = self.eval(f.value, env)
            if isinstance(base, str) and f.attr in STR_METHODS:
                a2 = [_strish(a) for a in args]
                if f.attr == 'join' and a2 and isinstance(a2[0], (list, tuple)):
                    return base.join(a2[0])
                if all(isinstance(a, (str, int)) for a in a2):
                    return getattr(base, f.attr)(*a2)
                return Sym('strcall')
            if isinstance(base, list) and f.attr == 'append' and args:
                base.append(args[0])
                return None
            if isinstance(base, dict) and f.attr == 'update':
                if args and isinstance(args[0], dict):
                    base.update(args[0])
                elif args:
                    base[OPEN] = True
                base.update(kw)
                return None
            if isinstance(base, dict) and f.attr == 'get' and args and known(args[0]) and not base.get(OPEN):
                return base.get(args[0], args[1] if len(args) > 1 else None)
            if isinstance(base, dict) and f.attr in ('values', 'keys', 'items') and not base.get(OPEN):
                return list(getattr(base, f.attr)())
        return Sym('call')


# ---------------------------------------------------------------------------------------------- utility sections
TEMPITA = re.compile(r'\{\{(.*?)\}\}', re.S)
BUILTIN_NAMES = set(dir(builtins))


def _names(expr_src, bound):
    try:
        tree = ast.parse(expr_src.strip(), mode='eval')
    except SyntaxError:
        return None
    local = set()
    for n in ast.walk(tree):
        if isinstance(n, ast.comprehension):
            local |= {x.id for x in ast.walk(n.target) if isinstance(x, ast.Name)}
        if isinstance(n, ast.Lambda):
            local |= {a.arg for a in n.args.args}
    # a builtin only counts as "provided by Python" where it is called (repr(x), len(x)); a bare `{{type}}` is a
    # template variable even though a builtin of that name exists (it would silently render "<class 'type'>")
    called = {id(n.func) for n in ast.walk(tree) if isinstance(n, ast.Call) and isinstance(n.func, ast.Name) and n.func.id in BUILTIN_NAMES}
    return {n.id for n in ast.walk(tree) if isinstance(n, ast.Name) and isinstance(n.ctx, ast.Load) and id(n) not in called} - local - bound - {'True', 'False', 'None'}


def tempita_facts(text):
    """-> (free variables, {loop variable: iterable source}, unparsable chunks) of a Tempita section."""
    free, loops, bad = set(), {}, []
    bound = set()
    chunks = [m.group(1).strip() for m in TEMPITA.finditer(text)]
    for c in chunks:
        c2 = c[:-1].rstrip() if c.endswith(':') else c
        m = re.match(r'for\s+(.+?)\s+in\s+(.+)$', c2, re.S)
        if m:
            tg = {x for x in re.findall(r'[A-Za-z_]\w*', m.group(1))}
            bound |= tg
            if len(tg) == 1:
                loops[next(iter(tg))] = m.group(2)
    for c in chunks:
        c2 = c[:-1].rstrip() if c.endswith(':') else c
        if not c2 or c2.startswith('#') or c2 in ('endfor', 'endif', 'else', 'enddef') or c2.startswith(('py:', 'default ', 'def ', 'inherit ')):
            continue
        m = re.match(r'for\s+(.+?)\s+in\s+(.+)$', c2, re.S)
        if m:
            expr = m.group(2)
        else:
            m2 = re.match(r'(?:if|elif)\s+(.+)$', c2, re.S)
            expr = m2.group(1) if m2 else c2
        expr = re.split(r'\s\|\s', expr)[0]
        ns = _names(expr, bound)
        if ns is None:
            bad.append(c)
        else:
            free |= ns
    return free, loops, bad


def strip_pyx_noise(text):
    """Cython source text without Tempita chunks, comments and string literals (for identifier scans)."""
    t = TEMPITA.sub(' ', text)
    t = re.sub(r'"(?:\\.|[^"\\\n])*"|\'(?:\\.|[^\'\\\n])*\'', '""', t)
    t = re.sub(r'#[^\n]*', '', t)
    return t


def cname_keys(text):
    """Context keys used as `@cname("{{key...}}")` function names in the section."""
    return re.findall(r'@cname\(\s*["\']\{\{\s*([A-Za-z_]\w*)', text)


EXTERN = re.compile(r'^[ \t]+(?:cdef[ \t]+)?(?P<ret>(?:const[ \t]+)?[A-Za-z_][\w]*(?:[ \t]*\*+)?)[ \t]+(?P<name>__Pyx_[\w{}]+)[ \t]*\((?P<params>[^()\n]*)\)[ \t]*(?P<exc>except[^\n#]*)?[ \t]*(?:#.*)?$', re.M)


class ExternDecl:
    def __init__(self, name, ret, params, exc, line):
        self.name, self.ret, self.params, self.exc, self.line = name, ret, params, exc, line

    def __repr__(self):
        return '<extern %s %s(%s) %s>' % (self.ret, self.name, ', '.join(self.params), self.exc or '')


def extern_helpers(section_text, first_line=0):
    """`__Pyx_` helper declarations of the `cdef extern` blocks of a section, Tempita `for` names expanded."""
    free, loops, _ = tempita_facts(section_text)
    out = []
    for m in EXTERN.finditer(section_text):
        params = [p.strip() for p in m.group('params').split(',') if p.strip()]
        names = [m.group('name')]
        for var in re.findall(r'\{\{\s*(\w+)\s*\}\}', m.group('name')):
            src = loops.get(var)
            try:
                vals = ast.literal_eval(src) if src else None
            except (ValueError, SyntaxError):
                vals = None
            if not isinstance(vals, (list, tuple)):
                raise AnalysisError('cannot expand Tempita variable %r in extern declaration %s' % (var, m.group('name')))
            names = [re.sub(r'\{\{\s*%s\s*\}\}' % var, str(v), nm) for nm in names for v in vals]
        exc = ' '.join(m.group('exc').split()) if m.group('exc') else None
        line = first_line + section_text.count('\n', 0, m.start())
        for nm in names:
            out.append(ExternDecl(nm, ' '.join(m.group('ret').split()), params, exc, line))
    return out


def pyx_category(t):
    t = re.sub(r'\bconst\b', '', t).strip()
    if t.endswith('*'):
        return 'pointer'
    if t in ('object', 'list', 'tuple', 'dict', 'bytes', 'str', 'unicode', 'set', 'bytearray'):
        return 'object'
    if t == 'void':
        return 'void'
    if t in ('int', 'bint', 'long', 'short', 'char', 'Py_ssize_t', 'size_t', 'Py_hash_t', 'Py_UCS4'):
        return 'int'
    if t in ('double', 'float'):
        return 'double'
    return None
