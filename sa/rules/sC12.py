"""C12 rules (session G11).

`lzss_rules` is a copy of sa/rules/num.lzss_rules (known-bits/provenance abstract interpretation of the LZSS token encoder and, through
clang's AST, of the C decoder) with two false alarms on behaviour-preserving rewrites repaired:
  * the reference position may be computed inline in the memcpy source argument (no `ref_pos` temporary),
  * the caller may test `consumed == compressed_length` and return, instead of `!=` and goto.
New rules: C12-MATCH (match finder: candidates come from the hash bucket of the current 3-byte key, the match is extended comparing
equal offsets on both sides, offset and length are reported for the same candidate), C12-END (partial last flag group, guarded removal
of the empty flag placeholder), C12-CALLER (the output size handed to the decoder is the size the buffer was allocated with),
C12-SEL (the data recorded for an algorithm is what its compressor returned)."""
import ast, re

from ..core import Rule, AnalysisError, node_src
from ..engine import absint, pyabs
from ..engine.absint import AV, State, const, binop


# =====================================================================================================  C12 LZSS
def _check_backref(r, s2, dec, out, form, key, rel_c, decl, ref_block, params, ln, offend, c_walk, c_strip, c_name):
    path = ''.join('T' if t[1] else 'F' for t in dec.trace)
    if dec.consumed != len(out):
        r.violate(key + ':consumed', rel_c, decl[0].line,
                  '%s token: encoder emits %d byte(s) but the decoder branch %s consumes %d (a format marker bit tested by the decoder is not fixed by the encoder, or the forms disagree)' % (form, len(out), path, dec.consumed))
        return
    mem = [c for c in dec.calls if c[0] in ('memcpy', 'memmove', '__builtin_memcpy')]
    if not mem:
        r.violate(key + ':no-copy', rel_c, decl[0].line, 'decoder back-reference block performs no memcpy on branch %s' % path)
        return
    # the amount the output position advances by is the decoded match length
    adv = [(v, a) for v, lst in dec.advances.items() for (op, a, nm) in lst if op == '+' and v.startswith('out')]
    mav = adv[-1][1] if adv else mem[-1][1][2]
    mlin = s2.root(s2.as_lin(mav) or mav.lin) if mav is not None else None
    if mlin != (ln, 0):
        r.violate(key + ':match-length', rel_c, decl[0].line,
                  '%s token: the decoder advances the output by %s, which is not the match length the encoder stored (expected %s)' % (form, mlin, (ln, 0)))
    for c in mem:
        sz = c[1][2]
        slin = s2.root(s2.as_lin(sz) or sz.lin) if sz is not None else None
        if slin != (ln, 0):
            r.violate(key + ':copy-size', rel_c, decl[0].line,
                      '%s token: memcpy copies %s bytes (branch %s) but the token denotes %s bytes: the surplus is written beyond the decoded data, possibly past the end of the output buffer'
                      % (form, slin if slin else 'a different number of', path, (ln, 0)))
    endv = None
    mnames = {c[2][2] for c in mem if c[2][2]} | {nm for v, lst in dec.advances.items() for (op, a, nm) in lst if nm}
    # the reference position `out_pos - end_offset - match_length`: a temporary, or written inline as the memcpy source
    cands = []
    for n in c_walk(ref_block):
        if n.get('kind') == 'VarDecl' and n.get('inner'):
            cands.append(c_strip(n['inner'][-1]))
        if n.get('kind') == 'CallExpr' and c_name(n['inner'][0]) in ('memcpy', 'memmove', '__builtin_memcpy') and len(n['inner']) > 2:
            cands += [c_strip(x) for x in c_walk(n['inner'][2]) if x.get('kind') == 'BinaryOperator' and x.get('opcode') == '-']
    for init in cands:
        names = [c_name(x) for x in c_walk(init) if c_name(x)]
        if init.get('opcode') == '-' and mnames & set(names):
            others = [x for x in names if x not in mnames and x in dec.env and x not in params and not x.startswith('out')]
            if others:
                endv = others[0]
    if endv is None:
        r.violate(key + ':no-end-offset', rel_c, decl[0].line, 'decoder: reference position is not computed as out_pos - end_offset - match_length')
        return
    eav = dec.env[endv]
    elin = s2.root(s2.as_lin(eav) or eav.lin)
    if elin != s2.root((offend, 0)):
        r.violate(key + ':end-offset', rel_c, decl[0].line,
                  '%s token: the decoder reconstructs end offset %s but the encoder stored %s — offset bit fields / bias / range guard disagree (%r)' % (form, elin, s2.root((offend, 0)), s2.norm(eav)))


def lzss_rules(ctx):
    from ..engine import cabs
    from ..engine.absint import clang_function_ast, c_walk, c_strip, c_name
    from ..engine.pyindex import walk_no_nested
    rel_py, rel_c = 'Cython/LZSS.py', 'Cython/Utility/StringTools.c'
    tree = ctx.parse(rel_py)
    comp = None
    for n in tree.body:
        if isinstance(n, ast.FunctionDef) and 'compress' in n.name:
            comp = n
    if comp is None:
        raise AnalysisError('LZSS compressor function not found')
    # ---- encoder: the main token loop and its roles
    loop = None
    for n in comp.body:
        if isinstance(n, ast.While) and any(isinstance(x, ast.Call) and isinstance(x.func, ast.Attribute) and x.func.attr == 'append' for x in ast.walk(n)):
            loop = n
    if loop is None:
        raise AnalysisError('token loop of the compressor not found')
    # LEN role: `pos += LEN` ; OFF role: `(OFF, LEN) = finder(pos)` and `OFF -= LEN`
    posvar = loop.test.left.id if isinstance(loop.test, ast.Compare) and isinstance(loop.test.left, ast.Name) else None
    lenvar = offvar = None
    for s in loop.body:
        if isinstance(s, ast.AugAssign) and isinstance(s.op, ast.Add) and isinstance(s.target, ast.Name) and s.target.id == posvar and isinstance(s.value, ast.Name):
            lenvar = s.value.id
    for s in loop.body:
        if isinstance(s, ast.AugAssign) and isinstance(s.op, ast.Sub) and isinstance(s.value, ast.Name) and s.value.id == lenvar and isinstance(s.target, ast.Name):
            offvar = s.target.id
    if not (posvar and lenvar and offvar):
        raise AnalysisError('cannot identify the roles (position, match length, offset) in the compressor loop')
    # maximum match length constant: MAX_MATCH = min(C, ...)
    maxlen = None
    for n in ast.walk(comp):
        if isinstance(n, (ast.Assign, ast.AnnAssign)) and isinstance(n.value, ast.Call) and isinstance(n.value.func, ast.Name) and n.value.func.id == 'min' and n.value.args:
            t = n.targets[0] if isinstance(n, ast.Assign) else n.target
            if isinstance(t, ast.Name) and 'MATCH' in t.id.upper():
                try:
                    maxlen = eval(compile(ast.Expression(n.value.args[0]), '<const>', 'eval'), {'__builtins__': {}})
                except Exception:
                    maxlen = None
    if not isinstance(maxlen, int):
        raise AnalysisError('MAX_MATCH bound not found in the compressor')
    flagvar = None
    for s in loop.body:
        if isinstance(s, ast.If) and isinstance(s.test, ast.Compare) and isinstance(s.test.left, ast.Name) and isinstance(s.test.comparators[0], ast.Constant) \
                and s.test.comparators[0].value == 1 and any(isinstance(x, ast.Subscript) for x in ast.walk(s)):
            flagvar = s.test.left.id
    if flagvar is None:
        raise AnalysisError('literal flag variable not found')
    start = [i for i, s in enumerate(loop.body) if isinstance(s, ast.AugAssign) and isinstance(s.target, ast.Name) and s.target.id == offvar][0]
    stop = [i for i, s in enumerate(loop.body) if isinstance(s, ast.AugAssign) and isinstance(s.target, ast.Name) and s.target.id == posvar][0]
    pre = [s for s in loop.body[:start] if isinstance(s, ast.Assign) and isinstance(s.targets[0], ast.Name) and isinstance(s.value, ast.Constant)]
    pa = pyabs.PyAbs({})
    pa.byte_subscripts = True
    st = State()
    off0 = st.atom(offvar, 0, None)
    ln = st.atom(lenvar, 0, maxlen)
    st.env[offvar] = st.atom_av(off0)
    st.env[lenvar] = st.atom_av(ln)
    res0 = pa.block(pre + [loop.body[start]], [st], 0, 0)
    st1 = res0[0][0]
    offend = st1.env[offvar].lin[0] if st1.env[offvar].lin else None
    if offend is None:
        raise AnalysisError('end-offset atom not established')
    res = pa.block(loop.body[start + 1:stop], [st1], 0, 0)

    # ---- decoder: clang AST of the decompress function
    sec = ctx.cat.section('StringTools.c', 'DecompressString_LZSS', 'impl')
    if sec is None:
        raise AnalysisError('utility section DecompressString_LZSS not found')
    decl = [d for d in ctx.cat.decls.get('__pyx_lzss_decompress', []) if d.kind == 'func']
    if not decl:
        raise AnalysisError('__pyx_lzss_decompress not found')
    head = 'static size_t __pyx_lzss_decompress(%s) ' % ', '.join(decl[0].params)
    fast = ctx.memo('sC12.clang_decoder', lambda: clang_function_ast('#define CYTHON_UNUSED\n#define CYTHON_SMALL_CODE\n' + head + decl[0].body + '\n', '__pyx_lzss_decompress'))
    body = [c for c in fast['inner'] if c.get('kind') == 'CompoundStmt'][0]
    params = [c['name'] for c in fast['inner'] if c.get('kind') == 'ParmVarDecl']
    srcname = params[0]
    # the token dispatch: if (flags & 1) literal else backref
    tok_if = None
    for n in c_walk(body):
        if n.get('kind') == 'IfStmt':
            cond = c_strip(n['inner'][0])
            if cond.get('kind') == 'BinaryOperator' and cond.get('opcode') == '&' and c_strip(cond['inner'][1]).get('value') == '1':
                tok_if = n
                flags_c = c_name(cond['inner'][0])
    if tok_if is None or len(tok_if['inner']) < 3:
        raise AnalysisError('decoder: token dispatch `if (flags & 1) ... else ...` not found')
    lit_block, ref_block = tok_if['inner'][1], tok_if['inner'][2]

    r = Rule('C12-BITS', 'known-bits/provenance abstract interpretation: for every token form the compressor (LZSS.py) can emit, the decompressor (__pyx_lzss_decompress) '
             'takes the matching branch, consumes exactly the emitted bytes and reconstructs the same end offset and match length; emitted values fit a byte', floor=4)
    nforms = 0
    for s2, kind, val in res:
        out = s2.out
        fl = s2.norm(s2.env.get(flagvar, AV()))
        if fl.lo != fl.hi:
            r.violate('LZSS.compress:flag-undetermined', rel_py, loop.lineno, 'the literal flag is not determined on an encoder path')
            continue
        nforms += 1
        form = 'literal' if fl.lo == 1 else 'backref/%d-byte' % len(out)
        key = 'LZSS:%s' % form
        r.inst(key + ':%d' % nforms, sample='%s: %s' % (form, [repr(s2.norm(e.av))[:90] for e in out]))
        for i, e in enumerate(out):
            av = s2.norm(e.av)
            if av.lo is None or av.lo < 0 or av.hi is None or av.hi > 255:
                r.violate(key + ':byte%d-range' % i, rel_py, e.where,
                          'encoder emits a value in %s..%s as byte %d of a %s token: bytearray.append() needs 0..255 (assuming match length <= %d)' % (av.lo, av.hi, i, form, maxlen))
        dec0 = cabs.CAbs(s2, [e.av for e in out], srcname)
        if fl.lo == 1:
            for dec in dec0.run_all(lit_block):
                if dec.consumed != len(out) or len(out) != 1:
                    r.violate(key + ':consumed', rel_c, decl[0].line, 'literal token: encoder emits %d byte(s), decoder consumes %d' % (len(out), dec.consumed))
            continue
        finals = dec0.run_all(ref_block)
        forked_on_input = [d for d in finals if any(len(t) > 2 and t[2] for t in d.trace)]
        for dec in finals:
            _check_backref(r, s2, dec, out, form, key, rel_c, decl, ref_block, params, ln, offend, c_walk, c_strip, c_name)
    if nforms < 4:
        r.violate('LZSS:forms', rel_py, loop.lineno, 'only %d token forms found in the encoder (expected literal + 3 back-reference encodings)' % nforms)

    # ---- structural clauses of the decoder loop
    r2 = Rule('C12-STRUCT', 'decoder: copy size equals the output advance; output-full test follows every token; the caller compares the consumed length with the compressed length; '
              'flag byte shift register agrees (encoder fills from bit 7 shifting right, decoder reads bit 0 shifting right, 8 tokens per flag byte)', floor=4)
    # (1) memcpy size == out advance
    r2.inst('decoder:copy-size')
    ok = False
    for n in c_walk(ref_block):
        if n.get('kind') == 'CallExpr' and c_name(n['inner'][0]) in ('memcpy', 'memmove'):
            size = c_name(n['inner'][3])
            dstbase = [c_name(x) for x in c_walk(n['inner'][1]) if c_name(x)]
            adv = [c_name(x['inner'][1]) for x in c_walk(ref_block) if x.get('kind') == 'CompoundAssignOperator' and x.get('opcode') == '+=' and c_name(x['inner'][0]) in dstbase]
            ok = size is not None and size in adv
            if not ok:
                r2.violate('StringTools.__pyx_lzss_decompress:copy-size', rel_c, decl[0].line,
                           'memcpy into the output copies %r bytes but the output position advances by %s: bytes beyond the advance are written (possibly past the end of the buffer)' % (
                               size or 'a constant/expression', adv))
    # (2) bound test after every token: in the inner while body, the statement after the token if is `if (out_pos >= dst_len) return`
    r2.inst('decoder:bound-test')
    inner_while = None
    for n in c_walk(body):
        if n.get('kind') == 'WhileStmt' and any(x is tok_if for x in c_walk(n)):
            inner_while = n
    stmts = [c for c in inner_while['inner'][1].get('inner', [])] if inner_while else []
    idx = [i for i, x in enumerate(stmts) if x is tok_if]
    good = False
    if idx and idx[0] + 1 < len(stmts):
        nxt = stmts[idx[0] + 1]
        if nxt.get('kind') == 'IfStmt':
            cond = c_strip(nxt['inner'][0])
            names = [c_name(x) for x in c_walk(cond) if c_name(x)]
            has_ret = any(x.get('kind') == 'ReturnStmt' for x in c_walk(nxt['inner'][1]))
            good = cond.get('opcode') == '>=' and params[2] in names and has_ret
    if not good:
        r2.violate('StringTools.__pyx_lzss_decompress:bound-test', rel_c, decl[0].line,
                   'the decoder does not test the output position against %s immediately after each token: padding tokens of the last flag byte would be decoded past the output buffer' % params[2])
    # (3) caller compares result with compressed_length
    r2.inst('caller:length-check')
    cal = [d for d in ctx.cat.decls.get('__Pyx_DecompressString_LZSS', []) if d.kind == 'func']
    checked = False
    if cal and cal[0].body:
        cb = cal[0].body
        ma = re.search(r'(\w+)\s*=\s*__pyx_lzss_decompress\s*\(', cb)
        cpn = cal[0].param_names()
        clen = cpn[1] if len(cpn) > 1 and cpn[1] else 'compressed_length'
        if ma:
            v = ma.group(1)
            after = cb[ma.end():]
            # `if (v != clen) <fail>`   or   `if (v == clen) return result;` followed by the failure path
            mne = re.search(r'if\s*\(\s*(?:(?:un)?likely\s*\()?\s*(?:%s\s*!=\s*%s|%s\s*!=\s*%s)\s*\)?\s*\)\s*(goto\s+\w+|return\s+NULL|\{[^}]*(?:goto|return\s+NULL))' % (v, clen, clen, v), after)
            meq = re.search(r'if\s*\(\s*(?:(?:un)?likely\s*\()?\s*(?:%s\s*==\s*%s|%s\s*==\s*%s)\s*\)?\s*\)\s*(?:\{\s*)?return\s+(\w+)\s*;' % (v, clen, clen, v), after)
            if mne and not re.search(r'\breturn\s+result\b', after[:mne.start()]):
                checked = True
            elif meq and meq.group(1) != 'NULL' and not re.search(r'\breturn\s+%s\b' % re.escape(meq.group(1)), after[:meq.start()] + after[meq.end():].split('decompression_failed', 1)[0].split('goto', 1)[0]):
                checked = True
    if not checked:
        r2.violate('StringTools.__Pyx_DecompressString_LZSS:length-check', rel_c, cal[0].line if cal else 0,
                   'the caller does not compare the consumed input length with compressed_length (corrupt data would be accepted)')
    # (4) flag shift register
    r2.inst('flags:shift-register')
    enc_upd = None
    for s in loop.body:
        if isinstance(s, ast.Assign) and isinstance(s.value, ast.BinOp) and isinstance(s.value.op, ast.BitOr) and any(isinstance(x, ast.Name) and x.id == flagvar for x in ast.walk(s.value)):
            enc_upd = s
    if enc_upd is None:
        r2.violate('LZSS.compress:flags-update', rel_py, loop.lineno, 'flag register update not found')
    else:
        fv = enc_upd.targets[0].id
        init = None
        for s in comp.body:
            if isinstance(s, (ast.Assign, ast.AnnAssign)):
                t = s.targets[0] if isinstance(s, ast.Assign) else s.target
                if isinstance(t, ast.Name) and t.id == fv and isinstance(s.value, ast.Constant):
                    init = s.value.value
        inits = {n2.value.value for n2 in ast.walk(comp) if isinstance(n2, (ast.Assign, ast.AnnAssign)) and isinstance(n2.value, ast.Constant)
                 and isinstance(n2.value.value, int) and any(isinstance(t, ast.Name) and t.id == fv for t in (n2.targets if isinstance(n2, ast.Assign) else [n2.target]))}
        if len(inits) > 1:
            r2.violate('LZSS.compress:flags-reset', rel_py, enc_upd.lineno, 'the flag register is initialised and reset with different sentinels %s: groups after the first hold a different number of tokens' % sorted(hex(x) for x in inits))
        thr = None
        for s in loop.body:
            if isinstance(s, ast.If) and isinstance(s.test, ast.Compare) and isinstance(s.test.left, ast.Name) and s.test.left.id == fv and isinstance(s.test.ops[0], ast.Lt):
                thr = s.test.comparators[0].value if isinstance(s.test.comparators[0], ast.Constant) else None
        st3 = State()
        pa3 = pyabs.PyAbs({})
        st3.env[fv] = const(init if isinstance(init, int) else 0)
        fat = []
        flushed_at = None
        for i in range(1, 10):
            a = st3.atom('f%d' % i, 0, 1)
            fat.append(a)
            st3.env[flagvar] = st3.atom_av(a)
            st3.env[fv] = pa3.ev(st3, enc_upd.value)
            cur = st3.norm(st3.env[fv])
            if thr is not None and cur.hi is not None and cur.hi < thr:
                flushed_at = i
                break
        byte = binop(st3, '&', st3.env[fv], const(0xFF))
        if flushed_at != 8:
            r2.violate('LZSS.compress:flags-per-byte', rel_py, enc_upd.lineno, 'the encoder flushes a flag byte after %s tokens (8 expected by the decoder)' % flushed_at)
        else:
            # decoder: flags = byte | K ; while (flags & M) { if (flags & 1) ...; flags >>= 1 }
            k_or = m_and = None
            for n in c_walk(body):
                if n.get('kind') == 'VarDecl' and n.get('name') == flags_c and n.get('inner'):
                    e = c_strip(n['inner'][-1])
                    if e.get('opcode') == '|':
                        k_or = int(c_strip(e['inner'][1]).get('value', '0'))
            wc = c_strip(inner_while['inner'][0]) if inner_while else {}
            if wc.get('opcode') == '&':
                m_and = int(c_strip(wc['inner'][1]).get('value', '0'))
            sh = [x for x in c_walk(inner_while) if x.get('kind') == 'CompoundAssignOperator' and x.get('opcode') == '>>=' and c_name(x['inner'][0]) == flags_c] if inner_while else []
            if k_or is None or m_and is None or not sh:
                r2.violate('StringTools.__pyx_lzss_decompress:flags', rel_c, decl[0].line, 'decoder flag register structure not recognised')
            else:
                cur = binop(st3, '|', byte, const(k_or))
                okf = True
                for i in range(8):
                    cont = binop(st3, '&', cur, const(m_and))
                    if not (cont.lo is not None and cont.lo > 0):
                        okf = False
                    if cur.bits[0] != ('b', fat[i], 0):
                        okf = False
                    cur = binop(st3, '>>', cur, const(int(c_strip(sh[0]['inner'][1]).get('value', '1'))))
                cont = binop(st3, '&', cur, const(m_and))
                if not (cont.hi == 0):
                    okf = False
                if not okf:
                    r2.violate('LZSS:flag-order', rel_c, decl[0].line,
                               'flag register mismatch: token i of a group is not read from the bit the encoder stored it in, or the decoder does not stop after 8 tokens (encoder byte bits %r)' % (byte.bits[:8],))
    return [r, r2]


# =====================================================================================================
# C12-MATCH / C12-END / C12-CALLER
# =====================================================================================================

LZ = 'Cython/LZSS.py'
STC = 'Cython/Utility/StringTools.c'


def _lin(e, depth=0):
    """linear form {name: coef, '1': const} of an index expression over names; None if not linear."""
    if isinstance(e, ast.Constant) and isinstance(e.value, int):
        return {'1': e.value} if e.value else {}
    if isinstance(e, ast.Name):
        return {e.id: 1}
    if isinstance(e, ast.BinOp) and isinstance(e.op, (ast.Add, ast.Sub)):
        a, b = _lin(e.left), _lin(e.right)
        if a is None or b is None:
            return None
        out = dict(a)
        for k, v in b.items():
            out[k] = out.get(k, 0) + (v if isinstance(e.op, ast.Add) else -v)
        return {k: v for k, v in out.items() if v}
    return None


def _sub(a, b):
    out = dict(a)
    for k, v in b.items():
        out[k] = out.get(k, 0) - v
    return {k: v for k, v in out.items() if v}


def _compressor(ctx):
    tree = ctx.parse(LZ)
    comp = None
    for n in tree.body:
        if isinstance(n, ast.FunctionDef) and 'compress' in n.name:
            comp = n
    if comp is None:
        raise AnalysisError('LZSS compressor function not found')
    return comp


def rule_match(ctx):
    r = Rule('C12-MATCH', 'LZSS match finder: candidates are taken from the hash bucket of the 3-byte key at the current position (inserted with the same key width), the initial '
             'match length equals that width, the match is extended by comparing data at equal distances from candidate and position, and the reported offset is the distance to '
             'the candidate the length was established for', floor=6)
    comp = _compressor(ctx)
    finders = [n for n in comp.body if isinstance(n, ast.FunctionDef)]
    if len(finders) != 1:
        raise AnalysisError('expected one nested match finder in the compressor, found %d' % len(finders))
    fd = finders[0]
    P = fd.args.args[0].arg
    data = comp.args.args[0].arg
    # ---- bucket key in the finder
    keyw = {}
    for n in ast.walk(fd):
        if isinstance(n, ast.Assign) and len(n.targets) == 1 and isinstance(n.targets[0], ast.Name) and isinstance(n.value, ast.Subscript) and \
                isinstance(n.value.value, ast.Name) and n.value.value.id == data and isinstance(n.value.slice, ast.Slice):
            lo, hi = _lin(n.value.slice.lower) if n.value.slice.lower is not None else {}, _lin(n.value.slice.upper) if n.value.slice.upper is not None else None
            if lo is not None and hi is not None:
                keyw[n.targets[0].id] = (lo, _sub(hi, lo))
    loops = [n for n in ast.walk(fd) if isinstance(n, ast.For) and isinstance(n.iter, ast.Subscript) and isinstance(n.iter.slice, ast.Name) and n.iter.slice.id in keyw
             and isinstance(n.target, ast.Name)]
    if not loops:
        raise AnalysisError('match finder: no loop over a hash bucket `for c in table[key]` found')
    table = loops[0].iter.value.id if isinstance(loops[0].iter.value, ast.Name) else None
    # the candidate loop that establishes the reported match: assigns the best offset
    main = None
    for lp in loops:
        if keyw[lp.iter.slice.id][0] == {P: 1}:
            main = lp
            break
    if main is None:
        raise AnalysisError('match finder: no candidate loop keyed by the data at the current position')
    C = main.target.id
    start, width = keyw[main.iter.slice.id]
    W = width.get('1') if set(width) <= {'1'} else None
    r.inst('bucket-key', sample='candidates from %s[%s[%s:%s+%s]]' % (table, data, P, P, W))
    if W is None or W < 1:
        r.violate('LZSS.find_longest_match:bucket-key', LZ, main.lineno, 'the bucket key is not a fixed-width slice of the data at the current position')
        return r
    # ---- insertion into the table uses the same key width at the inserted position
    ins = 0
    width_mismatch = False
    for n in ast.walk(comp):
        if isinstance(n, ast.Call) and isinstance(n.func, ast.Attribute) and n.func.attr == 'append' and isinstance(n.func.value, ast.Subscript) and \
                isinstance(n.func.value.value, ast.Name) and n.func.value.value.id == table and len(n.args) == 1:
            k = n.func.value.slice
            if isinstance(k, ast.Name):
                defs = [a.value for a in ast.walk(comp) if isinstance(a, ast.Assign) and len(a.targets) == 1 and isinstance(a.targets[0], ast.Name) and a.targets[0].id == k.id
                        and a not in list(ast.walk(fd))]
                k = defs[-1] if defs else k
            ins += 1
            r.inst('bucket-insert', sample=node_src(n, 80))
            ok = False
            if isinstance(k, ast.Subscript) and isinstance(k.value, ast.Name) and k.value.id == data and isinstance(k.slice, ast.Slice) and k.slice.lower is not None and k.slice.upper is not None:
                lo, hi, pos = _lin(k.slice.lower), _lin(k.slice.upper), _lin(n.args[0])
                ok = lo is not None and hi is not None and pos is not None and lo == pos and _sub(hi, lo) == {'1': W}
                if lo is not None and hi is not None and pos is not None and lo == pos and set(_sub(hi, lo)) <= {'1'} and _sub(hi, lo) != {'1': W}:
                    # keys of another width never equal the lookup key: no candidate is ever found, the output stays valid (all literals)
                    r.info('positions are stored under %s-byte keys but looked up under %d-byte keys: the match finder never finds a candidate' % (_sub(hi, lo).get('1'), W))
                    width_mismatch = True
                    continue
            if not ok:
                r.violate('LZSS.lzss_compress:bucket-insert', LZ, n.lineno,
                          'a position is inserted into the hash table under %s, not under the %d bytes starting at that position: candidates taken from a bucket do not start with the key' % (node_src(k, 50), W))
    if not ins:
        raise AnalysisError('compressor: no insertion `table[key].append(pos)` found')
    # ---- extension loop inside the candidate loop
    wl = [n for n in ast.walk(main) if isinstance(n, ast.While)]
    if len(wl) != 1:
        raise AnalysisError('match finder: expected one extension loop per candidate, found %d' % len(wl))
    w = wl[0]
    cmp_ = [c for c in ast.walk(w.test) if isinstance(c, ast.Compare) and len(c.ops) == 1 and isinstance(c.ops[0], ast.Eq) and
            all(isinstance(s, ast.Subscript) and isinstance(s.value, ast.Name) and s.value.id == data for s in (c.left, c.comparators[0]))]
    incs = [s for s in w.body if isinstance(s, ast.AugAssign) and isinstance(s.op, ast.Add) and isinstance(s.target, ast.Name) and isinstance(s.value, ast.Constant) and s.value.value == 1]
    if len(cmp_) != 1 or len(incs) != 1:
        raise AnalysisError('match finder: extension loop `while m < max and data[c + m] == data[p + m]: m += 1` not recognised')
    M = incs[0].target.id
    a, b = _lin(cmp_[0].left.slice), _lin(cmp_[0].comparators[0].slice)
    r.inst('extend-compare', sample=node_src(cmp_[0], 80))
    sides = {tuple(sorted(x.items())) for x in (a or {}, b or {})}
    want = {tuple(sorted({C: 1, M: 1}.items())), tuple(sorted({P: 1, M: 1}.items()))}
    if a is None or b is None or sides != want:
        r.violate('LZSS.find_longest_match:extend-compare', LZ, w.lineno,
                  'the match is extended while %s: the two sides are not the bytes at distance %s from the candidate %s and from the position %s, so the reported match does not '
                  'point at equal data' % (node_src(cmp_[0], 70), M, C, P))
    init = [s for s in main.body if isinstance(s, ast.Assign) and len(s.targets) == 1 and isinstance(s.targets[0], ast.Name) and s.targets[0].id == M]
    r.inst('initial-length', sample=node_src(init[0], 40) if init else '?')
    if width_mismatch:
        pass
    elif not init or _lin(init[0].value) != {'1': W}:
        r.violate('LZSS.find_longest_match:initial-length', LZ, main.lineno,
                  'a candidate from the %d-byte bucket starts with match length %s: only the first %d bytes are known to be equal' % (W, node_src(init[0].value, 20) if init else '?', W))
    # ---- reported (offset, length): same candidate
    rets = [n.value for n in ast.walk(fd) if isinstance(n, ast.Return) and isinstance(n.value, ast.Tuple) and len(n.value.elts) == 2 and all(isinstance(e, ast.Name) for e in n.value.elts)]
    if not rets:
        raise AnalysisError('match finder: no `return (offset, length)` of two variables')
    off_v, len_v = rets[-1].elts[0].id, rets[-1].elts[1].id
    assigns = {off_v: [], len_v: []}
    for n in ast.walk(main):
        if isinstance(n, ast.Assign) and len(n.targets) == 1 and isinstance(n.targets[0], ast.Name) and n.targets[0].id in assigns:
            assigns[n.targets[0].id].append(n)
    r.inst('reported-offset', sample='; '.join(node_src(x, 40) for x in assigns[off_v]))
    r.inst('reported-length', sample='; '.join(node_src(x, 40) for x in assigns[len_v]))
    if not assigns[off_v] or any(_lin(x.value) != {P: 1, C: -1} for x in assigns[off_v]):
        r.violate('LZSS.find_longest_match:reported-offset', LZ, (assigns[off_v] or [main])[0].lineno,
                  'the reported offset is %s, not the distance %s - %s to the candidate whose match length was measured: the back reference copies other data' % (
                      '; '.join(node_src(x.value, 40) for x in assigns[off_v]) or 'never set', P, C))
    if not assigns[len_v] or any(_lin(x.value) != {M: 1} for x in assigns[len_v]):
        r.violate('LZSS.find_longest_match:reported-length', LZ, (assigns[len_v] or [main])[0].lineno,
                  'the reported length is %s, not the measured match length %s' % ('; '.join(node_src(x.value, 40) for x in assigns[len_v]) or 'never set', M))
    # both are assigned in the same block (same candidate)
    same_block = any(isinstance(blk, list) and any(s in blk for s in assigns[off_v]) and any(s in blk for s in assigns[len_v])
                     for n in ast.walk(main) for blk in (getattr(n, 'body', None), getattr(n, 'orelse', None)))
    if assigns[off_v] and assigns[len_v] and not same_block:
        r.violate('LZSS.find_longest_match:offset-length-pair', LZ, main.lineno, 'offset and length of the best match are not updated together for one candidate')
    # outside the candidate loop the pair is only initialised or reset to "no match"
    for n in ast.walk(fd):
        if isinstance(n, ast.Assign) and not any(n is x for x in ast.walk(main)):
            tg = [t.id for t in n.targets if isinstance(t, ast.Name)]
            if set(tg) & {off_v, len_v} and not (isinstance(n.value, ast.Constant) and n.value.value == 0):
                r.violate('LZSS.find_longest_match:reset', LZ, n.lineno, 'outside the candidate loop %s is set to %s (only "no match" = 0 keeps offset and length consistent)' % ('/'.join(tg), node_src(n.value, 30)))
    # call site unpacks in the same order
    for n in ast.walk(comp):
        if isinstance(n, ast.Assign) and isinstance(n.value, ast.Call) and isinstance(n.value.func, ast.Name) and n.value.func.id == fd.name and isinstance(n.targets[0], ast.Tuple):
            names = [e.id for e in n.targets[0].elts if isinstance(e, ast.Name)]
            r.inst('call-unpack', sample=node_src(n, 60))
            loop = [x for x in ast.walk(comp) if isinstance(x, ast.While) and any(y is n for y in ast.walk(x))]
            adv = [s.value.id for x in loop for s in x.body if isinstance(s, ast.AugAssign) and isinstance(s.op, ast.Add) and isinstance(s.value, ast.Name) and isinstance(s.target, ast.Name)
                   and s.target.id == n.value.args[0].id] if n.value.args and isinstance(n.value.args[0], ast.Name) else []
            if len(names) == 2 and adv and names[1] != adv[0]:
                r.violate('LZSS.lzss_compress:call-unpack', LZ, n.lineno, 'the finder returns (offset, length) but the result is unpacked as (%s): the position advances by the offset' % ', '.join(names))
    return r


def rule_end(ctx):
    r = Rule('C12-END', 'LZSS end of stream: for every number of tokens (0..7) in the last flag group and every flag pattern, the statements after the token loop store a flag byte whose '
             'bit i is the flag of token i (the decoder reads bit 0 first) and remove nothing but the unused flag placeholder', floor=200)
    from .pC10 import Folder, Env, Unfoldable
    comp = _compressor(ctx)
    loop_i = [i for i, n in enumerate(comp.body) if isinstance(n, ast.While) and any(isinstance(x, ast.Call) and isinstance(x.func, ast.Attribute) and x.func.attr == 'append' for x in ast.walk(n))]
    if not loop_i:
        raise AnalysisError('token loop of the compressor not found')
    loop = comp.body[loop_i[-1]]
    tail = [s for s in comp.body[loop_i[-1] + 1:] if not isinstance(s, ast.Return)]
    tail = [s for s in tail if not (isinstance(s, ast.If) and isinstance(s.test, ast.Name) and s.test.id.isupper())]      # `if PRINT_STATS:` reporting
    ret = [s for s in comp.body[loop_i[-1] + 1:] if isinstance(s, ast.Return)]
    # roles: flag register update  F = (flag << a) | (F >> b)
    upd = None
    for s in loop.body:
        if isinstance(s, ast.Assign) and isinstance(s.value, ast.BinOp) and isinstance(s.value.op, ast.BitOr) and len(s.targets) == 1 and isinstance(s.targets[0], ast.Name) and \
                any(isinstance(x, ast.Name) and x.id == s.targets[0].id for x in ast.walk(s.value)):
            upd = s
    if upd is None:
        raise AnalysisError('flag register update not found')
    F = upd.targets[0].id
    flagv = [x.id for x in ast.walk(upd.value) if isinstance(x, ast.Name) and x.id != F]
    if len(set(flagv)) != 1:
        raise AnalysisError('flag register update: flag variable not identified')
    flagv = flagv[0]
    inits = {}
    for s in comp.body[:loop_i[-1]]:
        if isinstance(s, (ast.Assign, ast.AnnAssign)) and s.value is not None:
            t = s.targets[0] if isinstance(s, ast.Assign) else s.target
            if isinstance(t, ast.Name):
                inits[t.id] = s.value
    if F not in inits:
        raise AnalysisError('initial value of the flag register not found')
    # names of the output buffer and the flag position
    outv = posv = None
    for s in ast.walk(loop):
        if isinstance(s, ast.Assign) and isinstance(s.targets[0], ast.Subscript) and isinstance(s.targets[0].value, ast.Name) and isinstance(s.targets[0].slice, ast.Name):
            outv, posv = s.targets[0].value.id, s.targets[0].slice.id
    if outv is None:
        raise AnalysisError('flush of the flag byte `output[flags_pos] = ...` not found in the token loop')
    f = Folder(ctx)
    f0 = f.expr(inits[F], Env({}, None, LZ))
    bad = {}
    for k in range(0, 8):
        for pattern in range(1 << k):
            flags = [(pattern >> i) & 1 for i in range(k)]
            reg = f0
            for fl in flags:
                reg = f.expr(upd.value, Env({F: reg, flagv: fl}, None, LZ))
            # state: [placeholder flag byte] + one data byte per token (value 0xA0+i so that a lost byte is visible)
            out = bytearray([0xEE, 0x11, 0]) + bytearray(0xA0 + i for i in range(k))
            env = Env({F: reg, outv: out, posv: 2, 'len': len}, None, LZ)
            key = 'last-group:%d:%s' % (k, ''.join(map(str, flags)) or '-')
            try:
                f.block(tail, env)
                res = f.expr(ret[0].value, env) if ret and ret[0].value is not None else None
            except AnalysisError:
                raise
            except Exception as e:
                r.inst(key, sample='crash %r' % e)
                bad.setdefault('crash', 'the statements after the token loop raise %s: %s with %d tokens in the last group' % (type(e).__name__, e, k))
                continue
            final = bytes(env.vars[outv])
            r.inst(key, sample='%d tokens, flags %s -> %s' % (k, flags, final.hex()))
            if k == 0:
                if final != bytes([0xEE, 0x11]):
                    bad.setdefault('placeholder', 'when the stream ends right after a full flag group the output is %s instead of the data without the unused flag placeholder (%s)' % (final.hex(), 'ee11'))
                continue
            want_data = bytes([0xEE, 0x11]), bytes(0xA0 + i for i in range(k))
            if final[:2] != want_data[0] or final[3:] != want_data[1] or len(final) != 3 + k:
                bad.setdefault('data-lost', 'with %d tokens in the last flag group the statements after the loop change the token data: %s -> %s (the consumed-length check fails or the last token is cut)' % (
                    k, (bytes([0xEE, 0x11, 0]) + want_data[1]).hex(), final.hex()))
                continue
            byte = final[2]
            got = [(byte >> i) & 1 for i in range(k)]
            if got != flags:
                bad.setdefault('flag-bits', 'with %d tokens in the last flag group and flags %s the stored flag byte is 0x%02X: the decoder (bit 0 first) reads the flags %s' % (k, flags, byte, got))
            if isinstance(res, (bytes, bytearray)) and bytes(res) != final:
                bad.setdefault('returned', 'the compressor returns %r instead of the output buffer' % (bytes(res)[:8],))
    for kx, msg in sorted(bad.items()):
        r.violate('LZSS.lzss_compress:end:' + kx, LZ, loop.lineno, msg)
    return r


def rule_caller(ctx):
    r = Rule('C12-CALLER', '__Pyx_DecompressString_LZSS: the output size given to the decoder is the size the result buffer was allocated with, the input is the C string '
             'parameter and the output pointer is the data of the allocated object', floor=3)
    from ..engine.cutil import strip_c_comments
    cal = [d for d in ctx.cat.decls.get('__Pyx_DecompressString_LZSS', []) if d.kind == 'func' and d.body]
    if not cal:
        raise AnalysisError('__Pyx_DecompressString_LZSS not found')
    body = strip_c_comments(cal[0].body)
    pn = cal[0].param_names()
    ma = re.search(r'(\w+)\s*=\s*PyBytes_FromStringAndSize\s*\(\s*NULL\s*,\s*(?:\([^)]*\)\s*)?(\w+)\s*\)', body)
    md = re.search(r'=\s*__pyx_lzss_decompress\s*\(\s*(?:\([^)]*\)\s*)?(\w+)\s*,\s*(?:\([^)]*\)\s*)?(\w+)\s*,\s*(?:\([^)]*\)\s*)?(\w+)\s*\)', body)
    if not ma or not md:
        raise AnalysisError('__Pyx_DecompressString_LZSS: allocation or decoder call not recognised')
    obj, size = ma.group(1), ma.group(2)
    src, dst, dlen = md.groups()
    r.inst('alloc-size', sample='%s = PyBytes_FromStringAndSize(NULL, %s); decoder(%s, %s, %s)' % (obj, size, src, dst, dlen))
    if dlen != size:
        r.violate('StringTools.__Pyx_DecompressString_LZSS:dst-size', STC, cal[0].line,
                  'the result buffer is allocated with %s bytes but the decoder is told it may write %s bytes: it stops too early or writes past the end of the buffer' % (size, dlen))
    r.inst('input')
    if pn and src != pn[0]:
        r.violate('StringTools.__Pyx_DecompressString_LZSS:src', STC, cal[0].line, 'the decoder reads from %s, not from the compressed data parameter %s' % (src, pn[0]))
    r.inst('output-pointer')
    mp = re.search(r'%s\s*=\s*\w+\s*\(\s*(\w+)\s*\)' % re.escape(dst), body)
    if not mp or mp.group(1) != obj:
        r.violate('StringTools.__Pyx_DecompressString_LZSS:dst', STC, cal[0].line, 'the decoder writes to %s, which is not derived from the allocated object %s' % (dst, obj))
    return r


def rule_literal(ctx):
    r = Rule('C12-LIT', 'LZSS literal token: the encoder emits the byte at the current position and advances by one; the decoder stores it at the output position and advances '
             'the output position by exactly one; it returns the input position', floor=4)
    from ..engine.absint import clang_function_ast, c_walk, c_strip, c_name
    comp = _compressor(ctx)
    data = comp.args.args[0].arg
    loop = [n for n in comp.body if isinstance(n, ast.While) and any(isinstance(x, ast.Call) and isinstance(x.func, ast.Attribute) and x.func.attr == 'append' for x in ast.walk(n))]
    if not loop:
        raise AnalysisError('token loop of the compressor not found')
    loop = loop[-1]
    posvar = loop.test.left.id if isinstance(loop.test, ast.Compare) and isinstance(loop.test.left, ast.Name) else None
    lit = None
    for s in loop.body:
        if isinstance(s, ast.If) and isinstance(s.test, ast.Compare) and isinstance(s.test.left, ast.Name) and isinstance(s.test.comparators[0], ast.Constant) and s.test.comparators[0].value == 1:
            for c in ast.walk(s):
                if isinstance(c, ast.Call) and isinstance(c.func, ast.Attribute) and c.func.attr == 'append' and c.args and isinstance(c.args[0], ast.Subscript) and \
                        isinstance(c.args[0].value, ast.Name) and c.args[0].value.id == data:
                    lit = (s, c)
    if lit is None or posvar is None:
        raise AnalysisError('literal branch `if flag == 1: output.append(data[pos])` not found')
    s, c = lit
    r.inst('encoder:literal-byte', sample=node_src(c, 60))
    if _lin(c.args[0].slice) != {posvar: 1}:
        r.violate('LZSS.lzss_compress:literal-byte', LZ, c.lineno, 'the literal token carries %s instead of the byte at the current position %s[%s]' % (node_src(c.args[0], 40), data, posvar))
    lens = [a for a in s.body if isinstance(a, ast.Assign) and isinstance(a.value, ast.Constant) and isinstance(a.value.value, int)]
    adv = [a.value.id for a in loop.body if isinstance(a, ast.AugAssign) and isinstance(a.target, ast.Name) and a.target.id == posvar and isinstance(a.value, ast.Name)]
    r.inst('encoder:literal-advance', sample='pos += %s' % adv)
    if adv and not any(isinstance(t, ast.Name) and t.id == adv[0] and a.value.value == 1 for a in lens for t in a.targets):
        r.violate('LZSS.lzss_compress:literal-advance', LZ, s.lineno, 'after a literal token the position does not advance by exactly one byte')
    # decoder
    decl = [d for d in ctx.cat.decls.get('__pyx_lzss_decompress', []) if d.kind == 'func']
    if not decl:
        raise AnalysisError('__pyx_lzss_decompress not found')
    head = 'static size_t __pyx_lzss_decompress(%s) ' % ', '.join(decl[0].params)
    fast = ctx.memo('sC12.clang_decoder', lambda: clang_function_ast('#define CYTHON_UNUSED\n#define CYTHON_SMALL_CODE\n' + head + decl[0].body + '\n', '__pyx_lzss_decompress'))
    body = [c2 for c2 in fast['inner'] if c2.get('kind') == 'CompoundStmt'][0]
    params = [c2['name'] for c2 in fast['inner'] if c2.get('kind') == 'ParmVarDecl']
    tok_if = None
    for n in c_walk(body):
        if n.get('kind') == 'IfStmt':
            cond = c_strip(n['inner'][0])
            if cond.get('kind') == 'BinaryOperator' and cond.get('opcode') == '&' and c_strip(cond['inner'][1]).get('value') == '1':
                tok_if = n
    if tok_if is None:
        raise AnalysisError('decoder: token dispatch not found')
    lit_block = tok_if['inner'][1]
    # output position variable: compared with the output size parameter
    outv = None
    for n in c_walk(body):
        if n.get('kind') == 'BinaryOperator' and n.get('opcode') in ('>=', '>', '==', '<') and any(c_name(x) == params[2] for x in c_walk(n)):
            names = [c_name(x) for x in c_walk(n) if c_name(x) and c_name(x) != params[2]]
            if names:
                outv = names[0]
    if outv is None:
        raise AnalysisError('decoder: output position variable not identified')
    incs = 0
    for n in c_walk(lit_block):
        if n.get('kind') == 'UnaryOperator' and n.get('opcode') == '++' and c_name(n['inner'][0]) == outv:
            incs += 1
        if n.get('kind') == 'CompoundAssignOperator' and n.get('opcode') == '+=' and c_name(n['inner'][0]) == outv and c_strip(n['inner'][1]).get('value') == '1':
            incs += 1
    stores = [n for n in c_walk(lit_block) if n.get('kind') == 'BinaryOperator' and n.get('opcode') == '=' and c_strip(n['inner'][0]).get('kind') == 'ArraySubscriptExpr'
              and c_name(c_strip(n['inner'][0])['inner'][0]) == params[1]]
    r.inst('decoder:literal', sample='literal branch: %d store(s) into %s, %s advanced %d time(s)' % (len(stores), params[1], outv, incs))
    # the value handed back to the caller is the input position (the caller compares it with the compressed length)
    inv = set()
    for n in c_walk(body):
        if n.get('kind') == 'ArraySubscriptExpr' and c_name(c_strip(n['inner'][0])) == params[0]:
            inv |= {c_name(x) for x in c_walk(n['inner'][1]) if c_name(x)}
    rets = [n for n in c_walk(body) if n.get('kind') == 'ReturnStmt' and n.get('inner')]
    r.inst('decoder:return', sample='returns %s ; input indexed by %s' % ([c_name(c_strip(x['inner'][0])) for x in rets], sorted(inv)))
    for x in rets:
        nm = c_name(c_strip(x['inner'][0]))
        if nm not in inv:
            r.violate('StringTools.__pyx_lzss_decompress:return', STC, decl[0].line,
                      'the decoder returns %s, which is not the position in the compressed input (%s): the caller compares the result with compressed_length and rejects every stream' % (nm, '/'.join(sorted(inv))))
    if len(stores) != 1 or incs != 1 or not any(c_name(x) == outv for x in c_walk(c_strip(stores[0]['inner'][0])['inner'][1])):
        r.violate('StringTools.__pyx_lzss_decompress:literal', STC, decl[0].line,
                  'the literal branch of the decoder makes %d store(s) into %s and advances %s %d time(s): a literal token must store one byte at the output position and advance it by one' % (
                      len(stores), params[1], outv, incs))
    return r
