"""C12 rules (session G11).

`lzss_rules` is a copy of sa/rules/num.lzss_rules (known-bits/provenance abstract interpretation of the LZSS token encoder and, through
clang's AST, of the C decoder) with two false alarms on behaviour-preserving rewrites repaired:
  * the reference position may be computed inline in the memcpy source argument (no `ref_pos` temporary),
  * the caller may test `consumed == compressed_length` and return, instead of `!=` and goto.
New rules: C12-MATCH (match finder: candidates come from the hash bucket of the current 3-byte key, the match is extended comparing
equal offsets on both sides, offset and length are reported for the same candidate), C12-END (partial last flag group, guarded removal
of the empty flag placeholder), C12-CALLER (the output size handed to the decoder is the size the buffer was allocated with),
C12-SEL (the data recorded for an algorithm is what its compressor returned)."""
import ast, re

from ..core import Rule, AnalysisError, node_src
from ..engine import absint, pyabs
from ..engine.absint import AV, State, const, binop


# =====================================================================================================  C12 LZSS
def _check_backref(r, s2, dec, out, form, key, rel_c, decl, ref_block, params, ln, offend, c_walk, c_strip, c_name, outpos):
    path = ''.join('T' if t[1] else 'F' for t in dec.trace)
    if dec.consumed != len(out):
        r.violate(key + ':consumed', rel_c, decl[0].line,
                  '%s token: encoder emits %d byte(s) but the decoder branch %s consumes %d (a format marker bit tested by the decoder is not fixed by the encoder, or the forms disagree)' % (form, len(out), path, dec.consumed))
        return
    mem = [c for c in dec.calls if c[0] in ('memcpy', 'memmove', '__builtin_memcpy')]
    # copies this domain does not see: a copy loop, a routine that is called, explicit stores through the output pointer - their sizes and extents are decided by C12-EXTENT
    opaque = getattr(dec, 'loops', 0) or any(c[0] not in _COPY and c[0] not in _HINTS for c in dec.calls) or \
        any(n.get('kind') == 'BinaryOperator' and n.get('opcode') == '=' and c_strip(n['inner'][0]).get('kind') in ('ArraySubscriptExpr', 'UnaryOperator') for n in c_walk(ref_block)) or \
        any(n.get('kind') == 'CallExpr' and c_name(n['inner'][0]) in _COPY and any(_is_scratch_arg(c_strip(a)) for a in n['inner'][1:3]) for n in c_walk(ref_block))
    if not mem and not opaque:
        r.violate(key + ':no-copy', rel_c, decl[0].line, 'decoder back-reference block performs no memcpy on branch %s' % path)
        return
    if opaque:
        mem = []        # a copy loop / a copy routine that is called: sizes and extents of what it copies are decided by C12-EXTENT (a size that depends on the loop counter is unknown here)
    # the amount the output position advances by is the decoded match length
    adv = [(v, a) for v, lst in dec.advances.items() for (op, a, nm) in lst if op == '+' and v == outpos]
    mav = adv[-1][1] if adv else mem[-1][1][2] if mem else None
    mlin = s2.root(s2.as_lin(mav) or mav.lin) if mav is not None else None
    if mlin != (ln, 0):
        r.violate(key + ':match-length', rel_c, decl[0].line,
                  '%s token: the decoder advances the output by %s, which is not the match length the encoder stored (expected %s)' % (form, mlin, (ln, 0)))
    for c in mem:
        sz = c[1][2]
        slin = s2.root(s2.as_lin(sz) or sz.lin) if sz is not None else None
        if slin is not None and slin != (ln, 0):       # a size this domain has no value for (a product, a sizeof) is decided by C12-EXTENT: write-extent / coverage / advance
            r.violate(key + ':copy-size', rel_c, decl[0].line,
                      '%s token: memcpy copies %s bytes (branch %s) but the token denotes %s bytes: the surplus is written beyond the decoded data, possibly past the end of the output buffer'
                      % (form, slin if slin else 'a different number of', path, (ln, 0)))
    endv = None
    mnames = {c[2][2] for c in mem if c[2][2]} | {nm for v, lst in dec.advances.items() for (op, a, nm) in lst if nm}
    # the reference position `out_pos - end_offset - match_length`: a temporary, or written inline as the memcpy source
    cands = []
    for n in c_walk(ref_block):
        if n.get('kind') == 'VarDecl' and n.get('inner'):
            cands.append(c_strip(n['inner'][-1]))
        if n.get('kind') == 'CallExpr' and c_name(n['inner'][0]) in ('memcpy', 'memmove', '__builtin_memcpy') and len(n['inner']) > 2:
            cands += [c_strip(x) for x in c_walk(n['inner'][2]) if x.get('kind') == 'BinaryOperator' and x.get('opcode') == '-']
    ends = []
    for init in cands:
        names = [c_name(x) for x in c_walk(init) if c_name(x)]
        if init.get('opcode') == '-' and mnames & set(names):
            # what is subtracted besides the match length: the end offset (the minuend - output position or a pointer into the output - has no value in this domain)
            ends += [x for x in names if x not in mnames and x in dec.env and x not in params and x != outpos and x not in ends]
    if not ends:
        r.violate(key + ':no-end-offset', rel_c, decl[0].line, 'decoder: reference position is not computed as out_pos - end_offset - match_length')
        return
    lins = []
    for endv in ends:
        eav = dec.env[endv]
        lins.append((s2.root(s2.as_lin(eav) or eav.lin), eav))
    if not any(elin == s2.root((offend, 0)) for elin, _ in lins):
        elin, eav = next(((l, a) for l, a in lins if l is not None), lins[0])
        r.violate(key + ':end-offset', rel_c, decl[0].line,
                  '%s token: the decoder reconstructs end offset %s but the encoder stored %s — offset bit fields / bias / range guard disagree (%r)' % (form, elin, s2.root((offend, 0)), s2.norm(eav)))


def _is_scratch_arg(a):
    """a copy argument that names a scratch object of the step: `&local`, or a local array (bytes staged in a machine word / a small buffer)"""
    while a.get('kind') in ('ParenExpr', 'ImplicitCastExpr', 'CStyleCastExpr'):
        a = a['inner'][-1]
    if a.get('kind') == 'UnaryOperator' and a.get('opcode') == '&':
        return True
    return a.get('kind') == 'DeclRefExpr' and '[' in ((a.get('type') or {}).get('qualType') or '')


def _loop_tolerant_cabs():
    from ..engine import cabs
    from ..engine.absint import c_walk, c_name

    class LoopTolerant(cabs.CAbs):
        """CAbs that steps over a loop inside the analysed block: every variable the loop assigns becomes unknown, its calls are not recorded.
        What a copy loop does to the output is decided by C12-EXTENT; C12-BITS keeps deciding the fields (branch, consumed bytes, offset, length)."""
        loops = 0
        returned_early = False

        def clone(self):
            c = cabs.CAbs.clone(self)
            c.__class__ = LoopTolerant
            c.loops = self.loops
            c.returned_early = self.returned_early
            return c

        def skip_loop(self, s):
            self.loops += 1
            for n in c_walk(s):
                k = n.get('kind')
                nm = None
                if k == 'CompoundAssignOperator' or (k == 'BinaryOperator' and n.get('opcode') == '=') or (k == 'UnaryOperator' and n.get('opcode') in ('++', '--')):
                    nm = c_name(n['inner'][0])
                elif k == 'VarDecl':
                    nm = n.get('name')
                if nm:
                    self.env[nm] = AV()
                if k == 'ArraySubscriptExpr' and c_name(n['inner'][0]) == self.input_name:
                    raise AnalysisError('the decoder reads the input inside a loop nested in the token step')

        def _seq(self, stmts):
            for i, s in enumerate(stmts):
                k = s.get('kind')
                if k in ('IfStmt', 'CompoundStmt'):
                    break       # the base class flattens / forks these and calls _seq again with the rest of the list: the loop is found there
                if k == 'ReturnStmt':
                    outs = cabs.CAbs._seq(self, stmts[:i]) if i else [self]
                    for cur in outs:
                        cur.returned_early = True       # the step leaves the decoder from inside the analysed block (an error exit)
                    return outs
                if k in ('WhileStmt', 'ForStmt', 'DoStmt'):
                    outs = []
                    for cur in (cabs.CAbs._seq(self, stmts[:i]) if i else [self]):      # simple statements only: one state
                        cur.skip_loop(s)
                        outs += cur._seq(stmts[i + 1:])
                    return outs
            return cabs.CAbs._seq(self, stmts)
    return LoopTolerant


def lzss_rules(ctx):
    from ..engine import cabs
    _LoopTolerantCAbs = _loop_tolerant_cabs()
    from ..engine.absint import clang_function_ast, c_walk, c_strip, c_name
    from ..engine.pyindex import walk_no_nested
    rel_py, rel_c = 'Cython/LZSS.py', 'Cython/Utility/StringTools.c'
    tree = ctx.parse(rel_py)
    comp = None
    for n in tree.body:
        if isinstance(n, ast.FunctionDef) and 'compress' in n.name:
            comp = n
    if comp is None:
        raise AnalysisError('LZSS compressor function not found')
    # ---- encoder: the main token loop and its roles
    loop = None
    for n in comp.body:
        if isinstance(n, ast.While) and any(isinstance(x, ast.Call) and isinstance(x.func, ast.Attribute) and x.func.attr == 'append' for x in ast.walk(n)):
            loop = n
    if loop is None:
        raise AnalysisError('token loop of the compressor not found')
    # LEN role: `pos += LEN` ; OFF role: `(OFF, LEN) = finder(pos)` and `OFF -= LEN`
    posvar = loop.test.left.id if isinstance(loop.test, ast.Compare) and isinstance(loop.test.left, ast.Name) else None
    lenvar = offvar = None
    for s in loop.body:
        if isinstance(s, ast.AugAssign) and isinstance(s.op, ast.Add) and isinstance(s.target, ast.Name) and s.target.id == posvar and isinstance(s.value, ast.Name):
            lenvar = s.value.id
    for s in loop.body:
        if isinstance(s, ast.AugAssign) and isinstance(s.op, ast.Sub) and isinstance(s.value, ast.Name) and s.value.id == lenvar and isinstance(s.target, ast.Name):
            offvar = s.target.id
    if not (posvar and lenvar and offvar):
        raise AnalysisError('cannot identify the roles (position, match length, offset) in the compressor loop')
    # maximum match length constant: MAX_MATCH = min(C, ...)
    maxlen = None
    for n in ast.walk(comp):
        if isinstance(n, (ast.Assign, ast.AnnAssign)) and isinstance(n.value, ast.Call) and isinstance(n.value.func, ast.Name) and n.value.func.id == 'min' and n.value.args:
            t = n.targets[0] if isinstance(n, ast.Assign) else n.target
            if isinstance(t, ast.Name) and 'MATCH' in t.id.upper():
                try:
                    maxlen = eval(compile(ast.Expression(n.value.args[0]), '<const>', 'eval'), {'__builtins__': {}})
                except Exception:
                    maxlen = None
    if not isinstance(maxlen, int):
        raise AnalysisError('MAX_MATCH bound not found in the compressor')
    flagvar = None
    for s in loop.body:
        if isinstance(s, ast.If) and isinstance(s.test, ast.Compare) and isinstance(s.test.left, ast.Name) and isinstance(s.test.comparators[0], ast.Constant) \
                and s.test.comparators[0].value == 1 and any(isinstance(x, ast.Subscript) for x in ast.walk(s)):
            flagvar = s.test.left.id
    if flagvar is None:
        raise AnalysisError('literal flag variable not found')
    start = [i for i, s in enumerate(loop.body) if isinstance(s, ast.AugAssign) and isinstance(s.target, ast.Name) and s.target.id == offvar][0]
    stop = [i for i, s in enumerate(loop.body) if isinstance(s, ast.AugAssign) and isinstance(s.target, ast.Name) and s.target.id == posvar][0]
    pre = [s for s in loop.body[:start] if isinstance(s, ast.Assign) and isinstance(s.targets[0], ast.Name) and isinstance(s.value, ast.Constant)]
    pa = pyabs.PyAbs({})
    pa.byte_subscripts = True
    st = State()
    off0 = st.atom(offvar, 0, None)
    ln = st.atom(lenvar, 0, maxlen)
    st.env[offvar] = st.atom_av(off0)
    st.env[lenvar] = st.atom_av(ln)
    res0 = pa.block(pre + [loop.body[start]], [st], 0, 0)
    st1 = res0[0][0]
    offend = st1.env[offvar].lin[0] if st1.env[offvar].lin else None
    if offend is None:
        raise AnalysisError('end-offset atom not established')
    res = pa.block(loop.body[start + 1:stop], [st1], 0, 0)

    # ---- decoder: clang AST of the decompress function
    sec = ctx.cat.section('StringTools.c', 'DecompressString_LZSS', 'impl')
    if sec is None:
        raise AnalysisError('utility section DecompressString_LZSS not found')
    decl = [d for d in ctx.cat.decls.get('__pyx_lzss_decompress', []) if d.kind == 'func']
    if not decl:
        raise AnalysisError('__pyx_lzss_decompress not found')
    fast = _decoder_ast(ctx)
    body = [c for c in fast['inner'] if c.get('kind') == 'CompoundStmt'][0]
    params = [c['name'] for c in fast['inner'] if c.get('kind') == 'ParmVarDecl']
    srcname = params[0]
    # the token dispatch: if (flags & 1) literal else backref
    tok_if, negated = None, False
    for n in c_walk(body):
        if n.get('kind') == 'IfStmt':
            cond, neg = c_strip(n['inner'][0]), False
            while cond.get('kind') == 'UnaryOperator' and cond.get('opcode') == '!':
                cond, neg = c_strip(cond['inner'][0]), not neg
            if cond.get('kind') == 'BinaryOperator' and cond.get('opcode') == '==' and c_strip(cond['inner'][1]).get('value') == '0':
                cond, neg = c_strip(cond['inner'][0]), not neg
            if cond.get('kind') == 'BinaryOperator' and cond.get('opcode') == '&' and c_strip(cond['inner'][1]).get('value') == '1':
                tok_if, negated = n, neg
                flags_c = c_name(cond['inner'][0])
    if tok_if is None or len(tok_if['inner']) < 3:
        raise AnalysisError('decoder: token dispatch `if (flags & 1) ... else ...` not found')
    lit_block, ref_block = (tok_if['inner'][2], tok_if['inner'][1]) if negated else (tok_if['inner'][1], tok_if['inner'][2])

    # the output position variable of the decoder: the one the stores of a token are relative to (from the symbolic execution of the token step, not from its name)
    try:
        outpos = _footprint(ctx)[3]['outpos']
    except Unmodellable as x:
        raise AnalysisError('C12-BITS cannot model the token step of the decoder: %s' % x)

    r = Rule('C12-BITS', 'known-bits/provenance abstract interpretation: for every token form the compressor (LZSS.py) can emit, the decompressor (__pyx_lzss_decompress) '
             'takes the matching branch, consumes exactly the emitted bytes and reconstructs the same end offset and match length; emitted values fit a byte', floor=4)
    nforms = 0
    for s2, kind, val in res:
        out = s2.out
        fl = s2.norm(s2.env.get(flagvar, AV()))
        if fl.lo != fl.hi:
            r.violate('LZSS.compress:flag-undetermined', rel_py, loop.lineno, 'the literal flag is not determined on an encoder path')
            continue
        nforms += 1
        form = 'literal' if fl.lo == 1 else 'backref/%d-byte' % len(out)
        key = 'LZSS:%s' % form
        r.inst(key + ':%d' % nforms, sample='%s: %s' % (form, [repr(s2.norm(e.av))[:90] for e in out]))
        for i, e in enumerate(out):
            av = s2.norm(e.av)
            if av.lo is None or av.lo < 0 or av.hi is None or av.hi > 255:
                r.violate(key + ':byte%d-range' % i, rel_py, e.where,
                          'encoder emits a value in %s..%s as byte %d of a %s token: bytearray.append() needs 0..255 (assuming match length <= %d)' % (av.lo, av.hi, i, form, maxlen))
        dec0 = _LoopTolerantCAbs(s2, [e.av for e in out], srcname)
        if fl.lo == 1:
            if any(n.get('kind') == 'CallExpr' and c_name(n['inner'][0]) in _COPY and any(_is_scratch_arg(c_strip(a)) for a in n['inner'][1:3]) for n in c_walk(lit_block)):
                continue        # the literal is staged in a local: what is read and consumed is decided on the symbolic execution (C12-LIT, C12-EXTENT input-extent)
            for dec in dec0.run_all(lit_block):
                if dec.consumed != len(out) or len(out) != 1:
                    r.violate(key + ':consumed', rel_c, decl[0].line, 'literal token: encoder emits %d byte(s), decoder consumes %d' % (len(out), dec.consumed))
            continue
        finals = dec0.run_all(ref_block)
        # a path that returns from inside the back-reference block is an error exit; that the compressor's streams never take it is decided by C12-EXTENT (clauses advance / stop)
        finals = [d for d in finals if not d.returned_early] or finals
        forked_on_input = [d for d in finals if any(len(t) > 2 and t[2] for t in d.trace)]
        for dec in finals:
            _check_backref(r, s2, dec, out, form, key, rel_c, decl, ref_block, params, ln, offend, c_walk, c_strip, c_name, outpos)
    if nforms < 4:
        r.violate('LZSS:forms', rel_py, loop.lineno, 'only %d token forms found in the encoder (expected literal + 3 back-reference encodings)' % nforms)

    # ---- structural clauses of the decoder loop
    r2 = Rule('C12-STRUCT', 'decoder: output-full test follows every token; the caller compares the consumed length with the compressed length; '
              'flag byte shift register agrees (encoder fills from bit 7 shifting right, decoder reads bit 0 shifting right, 8 tokens per flag byte)', floor=3)
    # (1) copy size == output advance: decided by C12-EXTENT (rule_extent: every store of a token against the token's slice of the output and the room left),
    #     which replaced the comparison of the names of the memcpy size and the `+=` operand that stood here (it reported every copy loop / tail copy)
    # (2) the step returns exactly when the output is full: from the symbolic execution of the token step (token_footprint, clause `stop`: for every token and
    #     every amount of room left, the path that returns is the one with room == advance) - not from the place and spelling of the test
    r2.inst('decoder:bound-test')
    inner_while = None
    for n in c_walk(body):
        if n.get('kind') in ('WhileStmt', 'ForStmt', 'DoStmt') and any(x is tok_if for x in c_walk(n)):
            inner_while = n
    try:
        stops = [msg for clause, kind, msg in _footprint(ctx)[1] if clause == 'stop']
    except Unmodellable as x:
        raise AnalysisError('C12-STRUCT cannot model the token step of the decoder: %s' % x)
    if stops:
        r2.violate('StringTools.__pyx_lzss_decompress:bound-test', rel_c, decl[0].line,
                   'the decoder does not stop exactly when the output position reaches %s: %s' % (params[2], stops[0]))
    # (3) caller compares result with compressed_length
    r2.inst('caller:length-check')
    cal = [d for d in ctx.cat.decls.get('__Pyx_DecompressString_LZSS', []) if d.kind == 'func']
    checked = False
    if cal and cal[0].body:
        cb = cal[0].body
        ma = re.search(r'(\w+)\s*=\s*__pyx_lzss_decompress\s*\(', cb)
        cpn = cal[0].param_names()
        clen = cpn[1] if len(cpn) > 1 and cpn[1] else 'compressed_length'
        if ma:
            v = ma.group(1)
            after = cb[ma.end():]
            # `if (v != clen) <fail>`   or   `if (v == clen) return result;` followed by the failure path
            mne = re.search(r'if\s*\(\s*(?:(?:un)?likely\s*\()?\s*(?:%s\s*!=\s*%s|%s\s*!=\s*%s)\s*\)?\s*\)\s*(goto\s+\w+|return\s+NULL|\{[^}]*(?:goto|return\s+NULL))' % (v, clen, clen, v), after)
            meq = re.search(r'if\s*\(\s*(?:(?:un)?likely\s*\()?\s*(?:%s\s*==\s*%s|%s\s*==\s*%s)\s*\)?\s*\)\s*(?:\{\s*)?return\s+(\w+)\s*;' % (v, clen, clen, v), after)
            if mne and not re.search(r'\breturn\s+result\b', after[:mne.start()]):
                checked = True
            elif meq and meq.group(1) != 'NULL' and not re.search(r'\breturn\s+%s\b' % re.escape(meq.group(1)), after[:meq.start()] + after[meq.end():].split('decompression_failed', 1)[0].split('goto', 1)[0]):
                checked = True
    if not checked:
        r2.violate('StringTools.__Pyx_DecompressString_LZSS:length-check', rel_c, cal[0].line if cal else 0,
                   'the caller does not compare the consumed input length with compressed_length (corrupt data would be accepted)')
    # (4) flag shift register
    r2.inst('flags:shift-register')
    enc_upd = None
    for s in loop.body:
        if isinstance(s, ast.Assign) and isinstance(s.value, ast.BinOp) and isinstance(s.value.op, ast.BitOr) and any(isinstance(x, ast.Name) and x.id == flagvar for x in ast.walk(s.value)):
            enc_upd = s
    if enc_upd is None:
        r2.violate('LZSS.compress:flags-update', rel_py, loop.lineno, 'flag register update not found')
    else:
        fv = enc_upd.targets[0].id
        init = None
        for s in comp.body:
            if isinstance(s, (ast.Assign, ast.AnnAssign)):
                t = s.targets[0] if isinstance(s, ast.Assign) else s.target
                if isinstance(t, ast.Name) and t.id == fv and isinstance(s.value, ast.Constant):
                    init = s.value.value
        inits = {n2.value.value for n2 in ast.walk(comp) if isinstance(n2, (ast.Assign, ast.AnnAssign)) and isinstance(n2.value, ast.Constant)
                 and isinstance(n2.value.value, int) and any(isinstance(t, ast.Name) and t.id == fv for t in (n2.targets if isinstance(n2, ast.Assign) else [n2.target]))}
        if len(inits) > 1:
            r2.violate('LZSS.compress:flags-reset', rel_py, enc_upd.lineno, 'the flag register is initialised and reset with different sentinels %s: groups after the first hold a different number of tokens' % sorted(hex(x) for x in inits))
        thr = None
        for s in loop.body:
            if isinstance(s, ast.If) and isinstance(s.test, ast.Compare) and isinstance(s.test.left, ast.Name) and s.test.left.id == fv and isinstance(s.test.ops[0], ast.Lt):
                thr = s.test.comparators[0].value if isinstance(s.test.comparators[0], ast.Constant) else None
        st3 = State()
        pa3 = pyabs.PyAbs({})
        st3.env[fv] = const(init if isinstance(init, int) else 0)
        fat = []
        flushed_at = None
        for i in range(1, 10):
            a = st3.atom('f%d' % i, 0, 1)
            fat.append(a)
            st3.env[flagvar] = st3.atom_av(a)
            st3.env[fv] = pa3.ev(st3, enc_upd.value)
            cur = st3.norm(st3.env[fv])
            if thr is not None and cur.hi is not None and cur.hi < thr:
                flushed_at = i
                break
        byte = binop(st3, '&', st3.env[fv], const(0xFF))
        if flushed_at != 8:
            r2.violate('LZSS.compress:flags-per-byte', rel_py, enc_upd.lineno, 'the encoder flushes a flag byte after %s tokens (8 expected by the decoder)' % flushed_at)
        else:
            # decoder: flags = byte | K ; while (flags & M) { if (flags & 1) ...; flags >>= 1 }
            k_or = m_and = None
            for n in c_walk(body):
                if n.get('kind') == 'VarDecl' and n.get('name') == flags_c and n.get('inner'):
                    e = c_strip(n['inner'][-1])
                    if e.get('opcode') == '|':
                        k_or = int(c_strip(e['inner'][1]).get('value', '0'))
            wc = c_strip(inner_while['inner'][0]) if inner_while else {}
            if wc.get('opcode') == '&':
                m_and = int(c_strip(wc['inner'][1]).get('value', '0'))
            sh = [x for x in c_walk(inner_while) if x.get('kind') == 'CompoundAssignOperator' and x.get('opcode') == '>>=' and c_name(x['inner'][0]) == flags_c] if inner_while else []
            if k_or is None or m_and is None or not sh:
                r2.violate('StringTools.__pyx_lzss_decompress:flags', rel_c, decl[0].line, 'decoder flag register structure not recognised')
            else:
                cur = binop(st3, '|', byte, const(k_or))
                okf = True
                for i in range(8):
                    cont = binop(st3, '&', cur, const(m_and))
                    if not (cont.lo is not None and cont.lo > 0):
                        okf = False
                    if cur.bits[0] != ('b', fat[i], 0):
                        okf = False
                    cur = binop(st3, '>>', cur, const(int(c_strip(sh[0]['inner'][1]).get('value', '1'))))
                cont = binop(st3, '&', cur, const(m_and))
                if not (cont.hi == 0):
                    okf = False
                if not okf:
                    r2.violate('LZSS:flag-order', rel_c, decl[0].line,
                               'flag register mismatch: token i of a group is not read from the bit the encoder stored it in, or the decoder does not stop after 8 tokens (encoder byte bits %r)' % (byte.bits[:8],))
    return [r, r2]


# =====================================================================================================
# C12-MATCH / C12-END / C12-CALLER
# =====================================================================================================

LZ = 'Cython/LZSS.py'
STC = 'Cython/Utility/StringTools.c'


def _lin(e, depth=0):
    """linear form {name: coef, '1': const} of an index expression over names; None if not linear."""
    if isinstance(e, ast.Constant) and isinstance(e.value, int):
        return {'1': e.value} if e.value else {}
    if isinstance(e, ast.Name):
        return {e.id: 1}
    if isinstance(e, ast.BinOp) and isinstance(e.op, (ast.Add, ast.Sub)):
        a, b = _lin(e.left), _lin(e.right)
        if a is None or b is None:
            return None
        out = dict(a)
        for k, v in b.items():
            out[k] = out.get(k, 0) + (v if isinstance(e.op, ast.Add) else -v)
        return {k: v for k, v in out.items() if v}
    return None


def _sub(a, b):
    out = dict(a)
    for k, v in b.items():
        out[k] = out.get(k, 0) - v
    return {k: v for k, v in out.items() if v}


def _compressor(ctx):
    tree = ctx.parse(LZ)
    comp = None
    for n in tree.body:
        if isinstance(n, ast.FunctionDef) and 'compress' in n.name:
            comp = n
    if comp is None:
        raise AnalysisError('LZSS compressor function not found')
    return comp


def rule_match(ctx):
    r = Rule('C12-MATCH', 'LZSS match finder: candidates are taken from the hash bucket of the 3-byte key at the current position (inserted with the same key width), the initial '
             'match length equals that width, the match is extended by comparing data at equal distances from candidate and position, and the reported offset is the distance to '
             'the candidate the length was established for', floor=6)
    comp = _compressor(ctx)
    finders = [n for n in comp.body if isinstance(n, ast.FunctionDef)]
    if len(finders) != 1:
        raise AnalysisError('expected one nested match finder in the compressor, found %d' % len(finders))
    fd = finders[0]
    P = fd.args.args[0].arg
    data = comp.args.args[0].arg
    # ---- bucket key in the finder
    keyw = {}
    for n in ast.walk(fd):
        if isinstance(n, ast.Assign) and len(n.targets) == 1 and isinstance(n.targets[0], ast.Name) and isinstance(n.value, ast.Subscript) and \
                isinstance(n.value.value, ast.Name) and n.value.value.id == data and isinstance(n.value.slice, ast.Slice):
            lo, hi = _lin(n.value.slice.lower) if n.value.slice.lower is not None else {}, _lin(n.value.slice.upper) if n.value.slice.upper is not None else None
            if lo is not None and hi is not None:
                keyw[n.targets[0].id] = (lo, _sub(hi, lo))
    loops = [n for n in ast.walk(fd) if isinstance(n, ast.For) and isinstance(n.iter, ast.Subscript) and isinstance(n.iter.slice, ast.Name) and n.iter.slice.id in keyw
             and isinstance(n.target, ast.Name)]
    if not loops:
        raise AnalysisError('match finder: no loop over a hash bucket `for c in table[key]` found')
    table = loops[0].iter.value.id if isinstance(loops[0].iter.value, ast.Name) else None
    # the candidate loop that establishes the reported match: assigns the best offset
    main = None
    for lp in loops:
        if keyw[lp.iter.slice.id][0] == {P: 1}:
            main = lp
            break
    if main is None:
        raise AnalysisError('match finder: no candidate loop keyed by the data at the current position')
    C = main.target.id
    start, width = keyw[main.iter.slice.id]
    W = width.get('1') if set(width) <= {'1'} else None
    r.inst('bucket-key', sample='candidates from %s[%s[%s:%s+%s]]' % (table, data, P, P, W))
    if W is None or W < 1:
        r.violate('LZSS.find_longest_match:bucket-key', LZ, main.lineno, 'the bucket key is not a fixed-width slice of the data at the current position')
        return r
    # ---- insertion into the table uses the same key width at the inserted position
    ins = 0
    width_mismatch = False
    for n in ast.walk(comp):
        if isinstance(n, ast.Call) and isinstance(n.func, ast.Attribute) and n.func.attr == 'append' and isinstance(n.func.value, ast.Subscript) and \
                isinstance(n.func.value.value, ast.Name) and n.func.value.value.id == table and len(n.args) == 1:
            k = n.func.value.slice
            if isinstance(k, ast.Name):
                defs = [a.value for a in ast.walk(comp) if isinstance(a, ast.Assign) and len(a.targets) == 1 and isinstance(a.targets[0], ast.Name) and a.targets[0].id == k.id
                        and a not in list(ast.walk(fd))]
                k = defs[-1] if defs else k
            ins += 1
            r.inst('bucket-insert', sample=node_src(n, 80))
            ok = False
            if isinstance(k, ast.Subscript) and isinstance(k.value, ast.Name) and k.value.id == data and isinstance(k.slice, ast.Slice) and k.slice.lower is not None and k.slice.upper is not None:
                lo, hi, pos = _lin(k.slice.lower), _lin(k.slice.upper), _lin(n.args[0])
                ok = lo is not None and hi is not None and pos is not None and lo == pos and _sub(hi, lo) == {'1': W}
                if lo is not None and hi is not None and pos is not None and lo == pos and set(_sub(hi, lo)) <= {'1'} and _sub(hi, lo) != {'1': W}:
                    # keys of another width never equal the lookup key: no candidate is ever found, the output stays valid (all literals)
                    r.info('positions are stored under %s-byte keys but looked up under %d-byte keys: the match finder never finds a candidate' % (_sub(hi, lo).get('1'), W))
                    width_mismatch = True
                    continue
            if not ok:
                r.violate('LZSS.lzss_compress:bucket-insert', LZ, n.lineno,
                          'a position is inserted into the hash table under %s, not under the %d bytes starting at that position: candidates taken from a bucket do not start with the key' % (node_src(k, 50), W))
    if not ins:
        raise AnalysisError('compressor: no insertion `table[key].append(pos)` found')
    # ---- extension loop inside the candidate loop
    wl = [n for n in ast.walk(main) if isinstance(n, ast.While)]
    if len(wl) != 1:
        raise AnalysisError('match finder: expected one extension loop per candidate, found %d' % len(wl))
    w = wl[0]
    cmp_ = [c for c in ast.walk(w.test) if isinstance(c, ast.Compare) and len(c.ops) == 1 and isinstance(c.ops[0], ast.Eq) and
            all(isinstance(s, ast.Subscript) and isinstance(s.value, ast.Name) and s.value.id == data for s in (c.left, c.comparators[0]))]
    incs = [s for s in w.body if isinstance(s, ast.AugAssign) and isinstance(s.op, ast.Add) and isinstance(s.target, ast.Name) and isinstance(s.value, ast.Constant) and s.value.value == 1]
    if len(cmp_) != 1 or len(incs) != 1:
        raise AnalysisError('match finder: extension loop `while m < max and data[c + m] == data[p + m]: m += 1` not recognised')
    M = incs[0].target.id
    a, b = _lin(cmp_[0].left.slice), _lin(cmp_[0].comparators[0].slice)
    r.inst('extend-compare', sample=node_src(cmp_[0], 80))
    sides = {tuple(sorted(x.items())) for x in (a or {}, b or {})}
    want = {tuple(sorted({C: 1, M: 1}.items())), tuple(sorted({P: 1, M: 1}.items()))}
    if a is None or b is None or sides != want:
        r.violate('LZSS.find_longest_match:extend-compare', LZ, w.lineno,
                  'the match is extended while %s: the two sides are not the bytes at distance %s from the candidate %s and from the position %s, so the reported match does not '
                  'point at equal data' % (node_src(cmp_[0], 70), M, C, P))
    init = [s for s in main.body if isinstance(s, ast.Assign) and len(s.targets) == 1 and isinstance(s.targets[0], ast.Name) and s.targets[0].id == M]
    r.inst('initial-length', sample=node_src(init[0], 40) if init else '?')
    if width_mismatch:
        pass
    elif not init or _lin(init[0].value) != {'1': W}:
        r.violate('LZSS.find_longest_match:initial-length', LZ, main.lineno,
                  'a candidate from the %d-byte bucket starts with match length %s: only the first %d bytes are known to be equal' % (W, node_src(init[0].value, 20) if init else '?', W))
    # ---- reported (offset, length): same candidate
    rets = [n.value for n in ast.walk(fd) if isinstance(n, ast.Return) and isinstance(n.value, ast.Tuple) and len(n.value.elts) == 2 and all(isinstance(e, ast.Name) for e in n.value.elts)]
    if not rets:
        raise AnalysisError('match finder: no `return (offset, length)` of two variables')
    off_v, len_v = rets[-1].elts[0].id, rets[-1].elts[1].id
    assigns = {off_v: [], len_v: []}
    for n in ast.walk(main):
        if isinstance(n, ast.Assign) and len(n.targets) == 1 and isinstance(n.targets[0], ast.Name) and n.targets[0].id in assigns:
            assigns[n.targets[0].id].append(n)
    r.inst('reported-offset', sample='; '.join(node_src(x, 40) for x in assigns[off_v]))
    r.inst('reported-length', sample='; '.join(node_src(x, 40) for x in assigns[len_v]))
    if not assigns[off_v] or any(_lin(x.value) != {P: 1, C: -1} for x in assigns[off_v]):
        r.violate('LZSS.find_longest_match:reported-offset', LZ, (assigns[off_v] or [main])[0].lineno,
                  'the reported offset is %s, not the distance %s - %s to the candidate whose match length was measured: the back reference copies other data' % (
                      '; '.join(node_src(x.value, 40) for x in assigns[off_v]) or 'never set', P, C))
    if not assigns[len_v] or any(_lin(x.value) != {M: 1} for x in assigns[len_v]):
        r.violate('LZSS.find_longest_match:reported-length', LZ, (assigns[len_v] or [main])[0].lineno,
                  'the reported length is %s, not the measured match length %s' % ('; '.join(node_src(x.value, 40) for x in assigns[len_v]) or 'never set', M))
    # both are assigned in the same block (same candidate)
    same_block = any(isinstance(blk, list) and any(s in blk for s in assigns[off_v]) and any(s in blk for s in assigns[len_v])
                     for n in ast.walk(main) for blk in (getattr(n, 'body', None), getattr(n, 'orelse', None)))
    if assigns[off_v] and assigns[len_v] and not same_block:
        r.violate('LZSS.find_longest_match:offset-length-pair', LZ, main.lineno, 'offset and length of the best match are not updated together for one candidate')
    # outside the candidate loop the pair is only initialised or reset to "no match"
    for n in ast.walk(fd):
        if isinstance(n, ast.Assign) and not any(n is x for x in ast.walk(main)):
            tg = [t.id for t in n.targets if isinstance(t, ast.Name)]
            if set(tg) & {off_v, len_v} and not (isinstance(n.value, ast.Constant) and n.value.value == 0):
                r.violate('LZSS.find_longest_match:reset', LZ, n.lineno, 'outside the candidate loop %s is set to %s (only "no match" = 0 keeps offset and length consistent)' % ('/'.join(tg), node_src(n.value, 30)))
    # call site unpacks in the same order
    for n in ast.walk(comp):
        if isinstance(n, ast.Assign) and isinstance(n.value, ast.Call) and isinstance(n.value.func, ast.Name) and n.value.func.id == fd.name and isinstance(n.targets[0], ast.Tuple):
            names = [e.id for e in n.targets[0].elts if isinstance(e, ast.Name)]
            r.inst('call-unpack', sample=node_src(n, 60))
            loop = [x for x in ast.walk(comp) if isinstance(x, ast.While) and any(y is n for y in ast.walk(x))]
            adv = [s.value.id for x in loop for s in x.body if isinstance(s, ast.AugAssign) and isinstance(s.op, ast.Add) and isinstance(s.value, ast.Name) and isinstance(s.target, ast.Name)
                   and s.target.id == n.value.args[0].id] if n.value.args and isinstance(n.value.args[0], ast.Name) else []
            if len(names) == 2 and adv and names[1] != adv[0]:
                r.violate('LZSS.lzss_compress:call-unpack', LZ, n.lineno, 'the finder returns (offset, length) but the result is unpacked as (%s): the position advances by the offset' % ', '.join(names))
    return r


def rule_end(ctx):
    r = Rule('C12-END', 'LZSS end of stream: for every number of tokens (0..7) in the last flag group and every flag pattern, the statements after the token loop store a flag byte whose '
             'bit i is the flag of token i (the decoder reads bit 0 first) and remove nothing but the unused flag placeholder', floor=200)
    from .pC10 import Folder, Env, Unfoldable
    comp = _compressor(ctx)
    loop_i = [i for i, n in enumerate(comp.body) if isinstance(n, ast.While) and any(isinstance(x, ast.Call) and isinstance(x.func, ast.Attribute) and x.func.attr == 'append' for x in ast.walk(n))]
    if not loop_i:
        raise AnalysisError('token loop of the compressor not found')
    loop = comp.body[loop_i[-1]]
    tail = [s for s in comp.body[loop_i[-1] + 1:] if not isinstance(s, ast.Return)]
    tail = [s for s in tail if not (isinstance(s, ast.If) and isinstance(s.test, ast.Name) and s.test.id.isupper())]      # `if PRINT_STATS:` reporting
    ret = [s for s in comp.body[loop_i[-1] + 1:] if isinstance(s, ast.Return)]
    # roles: flag register update  F = (flag << a) | (F >> b)
    upd = None
    for s in loop.body:
        if isinstance(s, ast.Assign) and isinstance(s.value, ast.BinOp) and isinstance(s.value.op, ast.BitOr) and len(s.targets) == 1 and isinstance(s.targets[0], ast.Name) and \
                any(isinstance(x, ast.Name) and x.id == s.targets[0].id for x in ast.walk(s.value)):
            upd = s
    if upd is None:
        raise AnalysisError('flag register update not found')
    F = upd.targets[0].id
    flagv = [x.id for x in ast.walk(upd.value) if isinstance(x, ast.Name) and x.id != F]
    if len(set(flagv)) != 1:
        raise AnalysisError('flag register update: flag variable not identified')
    flagv = flagv[0]
    inits = {}
    for s in comp.body[:loop_i[-1]]:
        if isinstance(s, (ast.Assign, ast.AnnAssign)) and s.value is not None:
            t = s.targets[0] if isinstance(s, ast.Assign) else s.target
            if isinstance(t, ast.Name):
                inits[t.id] = s.value
    if F not in inits:
        raise AnalysisError('initial value of the flag register not found')
    # names of the output buffer and the flag position
    outv = posv = None
    for s in ast.walk(loop):
        if isinstance(s, ast.Assign) and isinstance(s.targets[0], ast.Subscript) and isinstance(s.targets[0].value, ast.Name) and isinstance(s.targets[0].slice, ast.Name):
            outv, posv = s.targets[0].value.id, s.targets[0].slice.id
    if outv is None:
        raise AnalysisError('flush of the flag byte `output[flags_pos] = ...` not found in the token loop')
    f = Folder(ctx)
    f0 = f.expr(inits[F], Env({}, None, LZ))
    bad = {}
    for k in range(0, 8):
        for pattern in range(1 << k):
            flags = [(pattern >> i) & 1 for i in range(k)]
            reg = f0
            for fl in flags:
                reg = f.expr(upd.value, Env({F: reg, flagv: fl}, None, LZ))
            # state: [placeholder flag byte] + one data byte per token (value 0xA0+i so that a lost byte is visible)
            out = bytearray([0xEE, 0x11, 0]) + bytearray(0xA0 + i for i in range(k))
            env = Env({F: reg, outv: out, posv: 2, 'len': len}, None, LZ)
            key = 'last-group:%d:%s' % (k, ''.join(map(str, flags)) or '-')
            try:
                f.block(tail, env)
                res = f.expr(ret[0].value, env) if ret and ret[0].value is not None else None
            except AnalysisError:
                raise
            except Exception as e:
                r.inst(key, sample='crash %r' % e)
                bad.setdefault('crash', 'the statements after the token loop raise %s: %s with %d tokens in the last group' % (type(e).__name__, e, k))
                continue
            final = bytes(env.vars[outv])
            r.inst(key, sample='%d tokens, flags %s -> %s' % (k, flags, final.hex()))
            if k == 0:
                if final != bytes([0xEE, 0x11]):
                    bad.setdefault('placeholder', 'when the stream ends right after a full flag group the output is %s instead of the data without the unused flag placeholder (%s)' % (final.hex(), 'ee11'))
                continue
            want_data = bytes([0xEE, 0x11]), bytes(0xA0 + i for i in range(k))
            if final[:2] != want_data[0] or final[3:] != want_data[1] or len(final) != 3 + k:
                bad.setdefault('data-lost', 'with %d tokens in the last flag group the statements after the loop change the token data: %s -> %s (the consumed-length check fails or the last token is cut)' % (
                    k, (bytes([0xEE, 0x11, 0]) + want_data[1]).hex(), final.hex()))
                continue
            byte = final[2]
            got = [(byte >> i) & 1 for i in range(k)]
            if got != flags:
                bad.setdefault('flag-bits', 'with %d tokens in the last flag group and flags %s the stored flag byte is 0x%02X: the decoder (bit 0 first) reads the flags %s' % (k, flags, byte, got))
            if isinstance(res, (bytes, bytearray)) and bytes(res) != final:
                bad.setdefault('returned', 'the compressor returns %r instead of the output buffer' % (bytes(res)[:8],))
    for kx, msg in sorted(bad.items()):
        r.violate('LZSS.lzss_compress:end:' + kx, LZ, loop.lineno, msg)
    return r


def rule_caller(ctx):
    r = Rule('C12-CALLER', '__Pyx_DecompressString_LZSS: the output size given to the decoder is the size the result buffer was allocated with, the input is the C string '
             'parameter and the output pointer is the data of the allocated object', floor=3)
    from ..engine.cutil import strip_c_comments
    cal = [d for d in ctx.cat.decls.get('__Pyx_DecompressString_LZSS', []) if d.kind == 'func' and d.body]
    if not cal:
        raise AnalysisError('__Pyx_DecompressString_LZSS not found')
    body = strip_c_comments(cal[0].body)
    pn = cal[0].param_names()
    ma = re.search(r'(\w+)\s*=\s*PyBytes_FromStringAndSize\s*\(\s*NULL\s*,\s*(?:\([^)]*\)\s*)?(\w+)\s*\)', body)
    md = re.search(r'=\s*__pyx_lzss_decompress\s*\(\s*(?:\([^)]*\)\s*)?(\w+)\s*,\s*(?:\([^)]*\)\s*)?(\w+)\s*,\s*(?:\([^)]*\)\s*)?(\w+)\s*\)', body)
    if not ma or not md:
        raise AnalysisError('__Pyx_DecompressString_LZSS: allocation or decoder call not recognised')
    obj, size = ma.group(1), ma.group(2)
    src, dst, dlen = md.groups()
    r.inst('alloc-size', sample='%s = PyBytes_FromStringAndSize(NULL, %s); decoder(%s, %s, %s)' % (obj, size, src, dst, dlen))
    if dlen != size:
        r.violate('StringTools.__Pyx_DecompressString_LZSS:dst-size', STC, cal[0].line,
                  'the result buffer is allocated with %s bytes but the decoder is told it may write %s bytes: it stops too early or writes past the end of the buffer' % (size, dlen))
    r.inst('input')
    if pn and src != pn[0]:
        r.violate('StringTools.__Pyx_DecompressString_LZSS:src', STC, cal[0].line, 'the decoder reads from %s, not from the compressed data parameter %s' % (src, pn[0]))
    r.inst('output-pointer')
    mp = re.search(r'%s\s*=\s*\w+\s*\(\s*(\w+)\s*\)' % re.escape(dst), body)
    if not mp or mp.group(1) != obj:
        r.violate('StringTools.__Pyx_DecompressString_LZSS:dst', STC, cal[0].line, 'the decoder writes to %s, which is not derived from the allocated object %s' % (dst, obj))
    return r


def rule_literal(ctx):
    r = Rule('C12-LIT', 'LZSS literal token: the encoder emits the byte at the current position and advances by one; the decoder stores it at the output position and advances '
             'the output position by exactly one; it returns the input position', floor=4)
    from ..engine.absint import clang_function_ast, c_walk, c_strip, c_name
    comp = _compressor(ctx)
    data = comp.args.args[0].arg
    loop = [n for n in comp.body if isinstance(n, ast.While) and any(isinstance(x, ast.Call) and isinstance(x.func, ast.Attribute) and x.func.attr == 'append' for x in ast.walk(n))]
    if not loop:
        raise AnalysisError('token loop of the compressor not found')
    loop = loop[-1]
    posvar = loop.test.left.id if isinstance(loop.test, ast.Compare) and isinstance(loop.test.left, ast.Name) else None
    lit = None
    for s in loop.body:
        if isinstance(s, ast.If) and isinstance(s.test, ast.Compare) and isinstance(s.test.left, ast.Name) and isinstance(s.test.comparators[0], ast.Constant) and s.test.comparators[0].value == 1:
            for c in ast.walk(s):
                if isinstance(c, ast.Call) and isinstance(c.func, ast.Attribute) and c.func.attr == 'append' and c.args and isinstance(c.args[0], ast.Subscript) and \
                        isinstance(c.args[0].value, ast.Name) and c.args[0].value.id == data:
                    lit = (s, c)
    if lit is None or posvar is None:
        raise AnalysisError('literal branch `if flag == 1: output.append(data[pos])` not found')
    s, c = lit
    r.inst('encoder:literal-byte', sample=node_src(c, 60))
    if _lin(c.args[0].slice) != {posvar: 1}:
        r.violate('LZSS.lzss_compress:literal-byte', LZ, c.lineno, 'the literal token carries %s instead of the byte at the current position %s[%s]' % (node_src(c.args[0], 40), data, posvar))
    lens = [a for a in s.body if isinstance(a, ast.Assign) and isinstance(a.value, ast.Constant) and isinstance(a.value.value, int)]
    adv = [a.value.id for a in loop.body if isinstance(a, ast.AugAssign) and isinstance(a.target, ast.Name) and a.target.id == posvar and isinstance(a.value, ast.Name)]
    r.inst('encoder:literal-advance', sample='pos += %s' % adv)
    if adv and not any(isinstance(t, ast.Name) and t.id == adv[0] and a.value.value == 1 for a in lens for t in a.targets):
        r.violate('LZSS.lzss_compress:literal-advance', LZ, s.lineno, 'after a literal token the position does not advance by exactly one byte')
    # decoder
    decl = [d for d in ctx.cat.decls.get('__pyx_lzss_decompress', []) if d.kind == 'func']
    if not decl:
        raise AnalysisError('__pyx_lzss_decompress not found')
    fast = _decoder_ast(ctx)
    body = [c2 for c2 in fast['inner'] if c2.get('kind') == 'CompoundStmt'][0]
    params = [c2['name'] for c2 in fast['inner'] if c2.get('kind') == 'ParmVarDecl']
    # what a literal step does to the output and what the decoder returns: from the symbolic execution of the token step (see C12-EXTENT), not from the spelling of the code
    try:
        fp = _footprint(ctx)
    except Unmodellable as x:
        raise AnalysisError('C12-LIT cannot model the token step of the decoder: %s' % x)
    outv, inv = fp[3]['outpos'], fp[3]['inpos']
    r.inst('decoder:return', sample='the step returns on %d path(s); input indexed by %s' % (sum(1 for p in fp[2] if p[3] == RET), inv))
    paths = fp[2]
    for clause, kind, msg in fp[1]:
        if clause == 'return-value':        # the value returned on the paths the compressor's streams take (an error exit such as `return 0` is not one of them)
            r.violate('StringTools.__pyx_lzss_decompress:return', STC, decl[0].line, msg)
            break
    lits = [p for p in paths if p[0] == 'literal']
    r.inst('decoder:literal', sample='literal step: %s' % '; '.join(sorted({'advance %r, %s' % (adv, ', '.join('%s of %r at +%r' % (what, n, rel) for rel, n, src, what in ws)) for kind, adv, ws, ex in lits})))
    if not lits:
        r.violate('StringTools.__pyx_lzss_decompress:literal', STC, decl[0].line, 'no path of the token step stores an input byte into the output: literal tokens are not decoded')
    for kind, adv, ws, ex in lits:
        good = adv.const() == 1 and any(rel.const() == 0 and n.const() == 1 and src[0] == 'in' and src[1].key() == (0, ((('B', 0), 1),)) for rel, n, src, what in ws)
        if not good:
            r.violate('StringTools.__pyx_lzss_decompress:literal', STC, decl[0].line,
                      'the literal branch of the decoder advances %s by %r and stores %s: a literal token must store its one input byte at the output position and advance it by one' % (
                          outv, adv, '; '.join('%s of %r byte(s) at offset %r (%s)' % (what, n, rel, 'input byte' if src[0] == 'in' else 'not an input byte') for rel, n, src, what in ws) or 'nothing'))
            break
    return r


# =====================================================================================================
# C12-EXTENT — memory footprint of one decoder token (round 6)
# =====================================================================================================
"""`__pyx_lzss_decompress` does not test the output buffer before it copies: it relies on the stream being the compressor's,
whose tokens add up to exactly `dst_len` bytes.  What the property needs from the decoder is therefore, for EVERY token
the format can express and every amount R of room left in the output (R >= the token's advance, the well-formedness of
the stream):

  write-extent   every store into the output lies in [out_pos, out_pos + advance) - or, when it goes beyond the token's
                 slice ("wild copy"), the branch conditions that dominate it prove that it still ends inside the buffer;
  coverage       the stores of a token cover its whole slice (no byte of the result is left unwritten);
  read-source    a copy out of the output reads only bytes below its own destination (already produced, not overlapping);
  displacement   all copies of one token use one distance between source and destination;
  stop           the step returns exactly when the buffer is full (R == advance), not earlier and not later.

Decided by symbolic execution of the token step (the innermost loop of the decoder that touches both the input and the
output) on clang's AST.  Values are linear forms over: the positions at the start of the step, the base pointers, `dst_len`,
the input bytes of the token and atoms for non-linear sub-expressions of input bytes (masks, shifts).  A branch on input bytes
splits the byte's value set (exactly, by tabulating the condition over all 256 values); a branch that compares a position
with `dst_len` splits on R and is recorded as a constraint; a loop inside the step (a block / byte copy loop) is run
concretely for every value of the input bytes its condition depends on.  At the end of each path every obligation is
evaluated for every value of the bytes it depends on (a complete finite domain: <= 65536 combinations, otherwise a bound by
interval arithmetic, otherwise ANALYSIS-ERROR) and for the smallest R the path admits.  Nothing of the repository is executed."""

import itertools


class Unmodellable(Exception):
    pass


_FULL = frozenset(range(256))
_UNSIGNED = {'uint8_t': 8, 'unsigned char': 8, 'uint16_t': 16, 'unsigned short': 16, 'uint32_t': 32, 'unsigned int': 32, 'unsigned': 32,
             'uint64_t': 64, 'size_t': 64, 'unsigned long': 64, 'unsigned long long': 64, 'uintptr_t': 64}
_SIGNED = {'int8_t': 8, 'signed char': 8, 'char': 8, 'int16_t': 16, 'short': 16, 'int32_t': 32, 'int': 32, 'int64_t': 64, 'long': 64, 'long long': 64,
           'Py_ssize_t': 64, 'ssize_t': 64, 'ptrdiff_t': 64, 'intptr_t': 64}
_COPY = {'memcpy', 'memmove', '__builtin_memcpy', '__builtin_memmove'}
_HINTS = {'likely', 'unlikely', '__builtin_expect'}
_NONLIN = {'&', '|', '^', '<<', '>>', '*', '/', '%'}


def _apply(op, a, b):
    if op == '&':
        return a & b
    if op == '|':
        return a | b
    if op == '^':
        return a ^ b
    if op == '<<':
        if b < 0 or b > 64:
            raise Unmodellable('shift by %d' % b)
        return a << b
    if op == '>>':
        if b < 0:
            raise Unmodellable('shift by %d' % b)
        return a >> b
    if op == '*':
        return a * b
    if op in '/%':
        if b == 0:
            raise Unmodellable('division by zero')
        q = abs(a) // abs(b) * (1 if (a >= 0) == (b >= 0) else -1)      # C truncates towards zero
        return q if op == '/' else a - q * b
    raise Unmodellable('operator %s' % op)


class Lin:
    """c + sum(coef * symbol).  Symbols: 'D' / 'S' / 'L' (output base, input base, dst_len), ('V', name) value of a variable at the start of the step,
    ('B', k) input byte k of the token, ('A', op, key, key) / ('C', bits, key) non-linear atom over other values, ('M', n) a byte read from the output, ('U', n) unknown."""
    __slots__ = ('c', 't')

    def __init__(self, c=0, t=None):
        self.c, self.t = c, (t or {})

    def key(self):
        return (self.c, tuple(sorted(self.t.items(), key=repr)))

    @staticmethod
    def of(key):
        return Lin(key[0], dict(key[1]))

    def add(self, o, k=1):
        t = dict(self.t)
        for s, v in o.t.items():
            nv = t.get(s, 0) + k * v
            if nv:
                t[s] = nv
            else:
                t.pop(s, None)
        return Lin(self.c + k * o.c, t)

    def scale(self, k):
        return Lin(self.c * k, {s: v * k for s, v in self.t.items()} if k else {})

    def const(self):
        return self.c if not self.t else None

    def __repr__(self):
        def nm(s):
            if isinstance(s, str):
                return {'D': 'dst', 'S': 'src', 'L': 'dst_len'}.get(s, s)
            if s[0] == 'V':
                return s[1]
            if s[0] == 'B':
                return 'byte%d' % s[1]
            if s[0] == 'A':
                return '(%r %s %r)' % (Lin.of(s[2]), s[1], Lin.of(s[3]))
            if s[0] == 'C':
                return '(uint%d)(%r)' % (s[1], Lin.of(s[2]))
            return '%s%d' % (s[0].lower(), s[1])
        parts = ['%s%s' % ('' if v == 1 else '-' if v == -1 else '%d*' % v, nm(s)) for s, v in sorted(self.t.items(), key=repr)]
        if self.c or not parts:
            parts.append(str(self.c))
        return ' + '.join(parts).replace('+ -', '- ')


def _sym_deps(sym, out, opaque):
    """input bytes a symbol depends on -> out; symbols that cannot be enumerated -> opaque"""
    if isinstance(sym, str) or sym[0] in ('V', 'M', 'U', 'T'):
        opaque.add(sym)
    elif sym[0] == 'B':
        out.add(sym[1])
    elif sym[0] == 'A':
        for k in (sym[2], sym[3]):
            for s, _ in k[1]:
                _sym_deps(s, out, opaque)
    elif sym[0] == 'C':
        for s, _ in sym[2][1]:
            _sym_deps(s, out, opaque)


def _deps(lin):
    out, opaque = set(), set()
    for s in lin.t:
        _sym_deps(s, out, opaque)
    return out, opaque


def _key_value(key, asg):
    v = key[0]
    for s, c in key[1]:
        v += c * _sym_value(s, asg)
    return v


def _sym_value(sym, asg):
    if sym[0] == 'B':
        return asg[sym[1]]
    if sym[0] == 'A':
        return _apply(sym[1], _key_value(sym[2], asg), _key_value(sym[3], asg))
    if sym[0] == 'C':
        return _key_value(sym[2], asg) & ((1 << sym[1]) - 1)
    raise KeyError(sym)


def _lin_value(lin, asg):
    return _key_value((lin.c, tuple(lin.t.items())), asg)


_ATOM_BOUNDS = {}


class _TokState:
    def __init__(self):
        self.env = {}
        self.dom = {}            # input byte -> frozenset of values still possible on this path
        self.cons = []           # (Lin, op): data conditions over more than one byte
        self.lcons = []          # (Lin, op): conditions that involve dst_len
        self.writes = []         # (offset from the output base, size, source, what)
        self.src_read = set()
        self.trace = ()
        self.mem = {}            # ('M', n) -> offset read from the output
        self.returned = False
        self.retval = None
        self.facts = {}          # decisions taken on conditions over values that cannot be enumerated (same value -> same decision later on)
        self.lsize = {}          # scratch object of the step (a local the address of which is taken, a local array) -> its size in bytes
        self.lcont = {}          # scratch object -> (number of bytes filled from its start, source they were copied from)
        self.reads = []          # (offset from the output base, size, what): loads from the output into a scratch object (their size need not be the size stored later)

    def clone(self):
        c = _TokState()
        c.env, c.dom, c.cons, c.lcons, c.writes = dict(self.env), dict(self.dom), list(self.cons), list(self.lcons), list(self.writes)
        c.src_read, c.trace, c.mem, c.returned = set(self.src_read), self.trace, dict(self.mem), self.returned
        c.facts = dict(self.facts)
        c.retval = self.retval
        c.lsize, c.lcont, c.reads = dict(self.lsize), dict(self.lcont), list(self.reads)
        return c

    def domain(self, k):
        return self.dom.get(k, _FULL)

    def assignments(self, ks, limit=70000):
        """every assignment of the input bytes ks that the path admits (None when there are too many)"""
        ks = sorted(ks)
        n = 1
        for k in ks:
            n *= len(self.domain(k))
        if n > limit:
            return None
        fixed = {k: next(iter(v)) for k, v in self.dom.items() if len(v) == 1}
        out = []
        for vals in itertools.product(*[sorted(self.domain(k)) for k in ks]):
            asg = dict(fixed)
            asg.update(zip(ks, vals))
            ok = True
            for d, op in self.cons:
                try:
                    if not _CMP[op](_lin_value(d, asg), 0):
                        ok = False
                        break
                except KeyError:
                    continue        # depends on a byte that is not fixed here: no restriction (over-approximation of the path)
            if ok:
                out.append(asg)
        return out

    def simp(self, lin):
        """replace atoms whose input bytes are all fixed on this path by their value"""
        if not lin.t:
            return lin
        out = None
        for s in list(lin.t):
            if isinstance(s, tuple) and s[0] in ('B', 'A', 'C'):
                bs, opq = set(), set()
                _sym_deps(s, bs, opq)
                if not opq and all(len(self.domain(k)) == 1 for k in bs):
                    asg = {k: next(iter(self.domain(k))) for k in bs}
                    if out is None:
                        out = Lin(lin.c, dict(lin.t))
                    out.c += out.t.pop(s) * _sym_value(s, asg)
        return out if out is not None else lin

    def bounds(self, lin):
        """(lo, hi) of a value by interval arithmetic over the atoms (None = unbounded)"""
        lo = hi = lin.c
        for s, c in lin.t.items():
            a, b = self.sym_bounds(s)
            if c < 0:
                a, b = b, a
            lo = None if lo is None or a is None else lo + c * a
            hi = None if hi is None or b is None else hi + c * b
        return lo, hi

    def sym_bounds(self, s):
        if isinstance(s, tuple) and s[0] == 'B':
            d = self.domain(s[1])
            return min(d), max(d)
        if isinstance(s, tuple) and s[0] in ('A', 'C'):
            # an atom over one or two input bytes: its exact range over the values the bytes can still have on this path
            bs, opq = set(), set()
            _sym_deps(s, bs, opq)
            if not opq and 1 <= len(bs) <= 2:
                doms = tuple((k, self.domain(k)) for k in sorted(bs))
                n = 1
                for _, d in doms:
                    n *= len(d)
                if n <= 4096:
                    ck = (s, doms)
                    if ck not in _ATOM_BOUNDS:
                        vals = [_sym_value(s, dict(zip([k for k, _ in doms], v))) for v in itertools.product(*[sorted(d) for _, d in doms])]
                        if len(_ATOM_BOUNDS) > 200000:
                            _ATOM_BOUNDS.clear()
                        _ATOM_BOUNDS[ck] = (min(vals), max(vals))
                    return _ATOM_BOUNDS[ck]
        if isinstance(s, tuple) and s[0] == 'M':
            return 0, 255
        if isinstance(s, tuple) and s[0] == 'C':
            a, b = self.bounds(Lin.of(s[2]))
            m = (1 << s[1]) - 1
            return (a, b) if a is not None and b is not None and 0 <= a and b <= m else (0, m)
        if isinstance(s, tuple) and s[0] == 'A':
            (a1, b1), (a2, b2) = self.bounds(Lin.of(s[2])), self.bounds(Lin.of(s[3]))
            op = s[1]
            nonneg = a1 is not None and a2 is not None and a1 >= 0 and a2 >= 0
            if op == '&' and nonneg:
                cands = [x for x in (b1, b2) if x is not None]
                return 0, (min(cands) if cands else None)
            if op in '|^' and nonneg and b1 is not None and b2 is not None:
                top = (1 << max(b1, b2).bit_length()) - 1
                return (max(a1, a2) if op == '|' else 0), top
            if op == '<<' and nonneg and a2 == b2 and b1 is not None:
                return a1 << a2, b1 << a2
            if op == '>>' and nonneg and a2 == b2 and b1 is not None:
                return a1 >> a2, b1 >> a2
            if op == '*' and nonneg and b1 is not None and b2 is not None:
                return a1 * a2, b1 * b2
            if op == '%' and nonneg and a2 == b2 and a2 > 0:
                return 0, a2 - 1
            if op == '/' and nonneg and a2 == b2 and a2 > 0 and b1 is not None:
                return a1 // a2, b1 // a2
        return None, None


import operator as _operator
_CMP = {'<': _operator.lt, '<=': _operator.le, '>': _operator.gt, '>=': _operator.ge, '==': _operator.eq, '!=': _operator.ne}
_NEG = {'<': '>=', '<=': '>', '>': '<=', '>=': '<', '==': '!=', '!=': '=='}
FALL, RET, BRK, CONT = 'fall', 'return', 'break', 'continue'


class TokenExec:
    """symbolic execution of one step of the decoder's token loop"""

    def __init__(self, fdecl, helpers=None):
        from ..engine.absint import c_walk
        self.fdecl = fdecl
        self.helpers = helpers or {}        # name -> FunctionDecl of routines of the same file, inlined where they are called as a statement
        self.params = [c['name'] for c in fdecl['inner'] if c.get('kind') == 'ParmVarDecl']
        if len(self.params) != 3:
            raise AnalysisError('decoder: expected the parameters (input, output, output size), found %s' % self.params)
        self.body = [c for c in fdecl['inner'] if c.get('kind') == 'CompoundStmt'][0]
        self.steps = 0
        self.fresh = 0
        self.unit = self._find_unit()

    # ---------------------------------------------------------------- structure
    def _refs(self, n):
        from ..engine.absint import c_walk
        return {(x.get('referencedDecl') or {}).get('name') for x in c_walk(n) if x.get('kind') == 'DeclRefExpr'}

    def _find_unit(self):
        """the innermost loop that refers to both the input and the output parameter: one step = one token"""
        from ..engine.absint import c_walk
        best = None

        def rec(n):
            nonlocal best
            for c in n.get('inner', []) or []:
                if isinstance(c, dict) and c:
                    rec(c)
            if n.get('kind') in ('WhileStmt', 'ForStmt', 'DoStmt') and best is None:
                r = self._refs(n)
                if self.params[0] in r and self.params[1] in r:
                    best = n
        rec(self.body)
        if best is None:
            raise AnalysisError('decoder: no loop that reads the input and writes the output found')
        return best

    @staticmethod
    def loop_parts(n):
        k, inner = n['kind'], n['inner']
        if k == 'WhileStmt':
            return None, inner[-2], None, inner[-1], False
        if k == 'DoStmt':
            return None, inner[1], None, inner[0], True
        init, _, cond, inc, body = inner
        return init or None, cond or None, inc or None, body, False

    def entry_state(self):
        from ..engine.absint import c_walk
        st = _TokState()
        st.env[self.params[0]] = Lin(0, {'S': 1})
        st.env[self.params[1]] = Lin(0, {'D': 1})
        st.env[self.params[2]] = Lin(0, {'L': 1})
        declared = {x.get('name') for x in c_walk(self.unit) if x.get('kind') == 'VarDecl'}
        for nm in self._refs(self.unit):
            if nm and nm not in st.env and nm not in declared and nm not in _COPY and nm not in _HINTS:
                st.env[nm] = Lin(0, {('V', nm): 1})
        return st

    # ---------------------------------------------------------------- expressions
    def tick(self):
        self.steps += 1
        if self.steps > 4000000:
            raise Unmodellable('the step budget is exhausted (a loop of the token step does not terminate?)')

    def new(self, kind):
        self.fresh += 1
        return (kind, self.fresh)

    @staticmethod
    def ctype(n):
        t = n.get('type') or {}
        return (t.get('desugaredQualType') or t.get('qualType') or '').replace('const ', '').strip(), (t.get('qualType') or '').replace('const ', '').strip()

    def cast(self, st, v, n):
        types = self.ctype(n)
        if any('*' in t for t in types):
            return v
        bits = signed = None
        for t in types:
            if t in _UNSIGNED:
                bits, signed = _UNSIGNED[t], False
            elif t in _SIGNED:
                bits, signed = _SIGNED[t], True
        if bits is None:
            if types[0] in ('void', '_Bool', 'bool'):
                return v
            raise Unmodellable('cast to the type %s' % types[1])
        if bits >= 64:
            return v
        v = st.simp(v)
        lo, hi = st.bounds(v)
        top = (1 << (bits - 1)) - 1 if signed else (1 << bits) - 1
        bot = -(1 << (bits - 1)) if signed else 0
        if lo is not None and hi is not None and bot <= lo and hi <= top:
            return v
        if any(isinstance(s, str) for s in v.t):
            raise Unmodellable('a pointer or dst_len is narrowed to %d bits' % bits)
        if signed:
            raise Unmodellable('a value that may not fit is converted to the signed type %s' % types[1])
        c = v.const()
        if c is not None:
            return Lin(c & top)
        return Lin(0, {('C', bits, v.key()): 1})

    def nonlinear(self, st, op, a, b):
        a, b = st.simp(a), st.simp(b)
        ca, cb = a.const(), b.const()
        if ca is not None and cb is not None:
            return Lin(_apply(op, ca, cb))
        if op == '*' and (ca is not None or cb is not None):
            return b.scale(ca) if ca is not None else a.scale(cb)
        for x in (a, b):
            if any(isinstance(s, str) for s in x.t):
                raise Unmodellable('`%s` applied to a pointer or to dst_len' % op)
        if op == '&' and cb is not None and cb >= 0 and (cb & (cb + 1)) == 0:
            lo, hi = st.bounds(a)
            if lo is not None and hi is not None and 0 <= lo and hi <= cb:
                return a            # the mask keeps every bit the value can have
        return Lin(0, {('A', op, a.key(), b.key()): 1})

    def address(self, st, n):
        """address denoted by an lvalue expression that is not a plain variable"""
        from ..engine.absint import c_strip
        n = c_strip(n)
        k = n.get('kind')
        if k == 'ArraySubscriptExpr':
            base, idx = self.ev(st, n['inner'][0]), self.ev(st, n['inner'][1])
            return base.add(idx)
        if k == 'UnaryOperator' and n.get('opcode') == '*':
            return self.ev(st, n['inner'][0])
        raise Unmodellable('lvalue of kind %s' % k)

    def load(self, st, addr, size=1):
        addr = st.simp(addr)
        if addr.t.get('S') == 1 and 'D' not in addr.t:
            if size != 1:
                raise Unmodellable('the input is read %d bytes at a time' % size)
            off = addr.add(Lin(0, {'S': 1}), -1)
            vs = [s for s in off.t if isinstance(s, tuple) and s[0] == 'V']
            if len(vs) != 1 or off.t[vs[0]] != 1 or len(off.t) != 1:
                raise Unmodellable('the input is read at %r, not at a constant distance from the input position' % off)
            if getattr(self, 'inpos', vs[0]) != vs[0]:
                raise Unmodellable('the input is indexed by %s and by %s' % (self.inpos[1], vs[0][1]))
            self.inpos = vs[0]
            if off.c < 0:
                raise Unmodellable('the input is read before the position of the token')
            st.src_read.add(off.c)
            return Lin(0, {('B', off.c): 1})
        if addr.t.get('D') == 1 and 'S' not in addr.t:
            m = self.new('M')
            st.mem[m] = addr.add(Lin(0, {'D': 1}), -1)
            return Lin(0, {m: 1})
        raise Unmodellable('memory is read at %r, which is neither in the input nor in the output' % addr)

    def store(self, st, addr, size, source, what):
        addr = st.simp(addr)
        if addr.t.get('D') == 1 and 'S' not in addr.t:
            st.writes.append((addr.add(Lin(0, {'D': 1}), -1), st.simp(size), source, what))
            return
        raise Unmodellable('memory is written at %r, which is not in the output' % addr)

    def ev(self, st, n):
        from ..engine.absint import c_name
        self.tick()
        k = n.get('kind')
        if k in ('ParenExpr', 'ConstantExpr'):
            return self.ev(st, n['inner'][-1])
        if k in ('ImplicitCastExpr', 'CStyleCastExpr'):
            ck = n.get('castKind')
            sub = n['inner'][-1]
            if ck == 'LValueToRValue':
                s2 = sub
                while s2.get('kind') == 'ParenExpr':
                    s2 = s2['inner'][-1]
                if s2.get('kind') == 'DeclRefExpr':
                    return self.var(st, s2)
                return self.load(st, self.address(st, s2), self.width(n))
            v = self.ev(st, sub)
            if ck == 'IntegralCast':
                return self.cast(st, v, n)
            if ck in ('NoOp', 'BitCast', 'ArrayToPointerDecay', 'FunctionToPointerDecay', 'IntegralToBoolean', 'ToVoid', 'NullToPointer'):
                return v
            raise Unmodellable('cast of kind %s' % ck)
        if k == 'IntegerLiteral':
            return Lin(int(n['value']))
        if k == 'CharacterLiteral':
            return Lin(int(n['value']))
        if k == 'DeclRefExpr':
            return self.var(st, n)
        if k == 'UnaryOperator':
            op, sub = n.get('opcode'), n['inner'][0]
            if op in ('++', '--'):
                nm = c_name(sub)
                if nm is None:
                    raise Unmodellable('%s applied to something that is not a variable' % op)
                old = self.var(st, sub)
                st.env[nm] = old.add(Lin(1 if op == '++' else -1))
                return old if n.get('isPostfix') else st.env[nm]
            if op == '*':
                return self.load(st, self.ev(st, sub), self.width(n))
            if op == '-':
                return self.ev(st, sub).scale(-1)
            if op == '+':
                return self.ev(st, sub)
            if op == '~':
                return self.ev(st, sub).scale(-1).add(Lin(-1))
            if op == '&':
                from ..engine.absint import c_strip
                tgt = c_strip(sub)
                if tgt.get('kind') == 'DeclRefExpr' and c_name(tgt) in st.env and c_name(tgt) not in self.params:
                    # the address of a local of the step: a scratch object that bytes are staged in (memcpy(&word, ...); memcpy(..., &word, ...))
                    nm = c_name(tgt)
                    if nm not in st.lsize:
                        st.lsize[nm] = self.type_size(tgt.get('type') or {})
                    return Lin(0, {('T', nm): 1})
                if tgt.get('kind') in ('ArraySubscriptExpr', 'UnaryOperator'):
                    return self.address(st, tgt)
                raise Unmodellable('the address of something that is neither a local nor an element of a buffer')
            raise Unmodellable('unary %s in a value' % op)
        if k == 'BinaryOperator':
            op = n.get('opcode')
            l, r = n['inner']
            if op == '=':
                v = self.ev(st, r)
                self.assign(st, l, v)
                return v
            if op == ',':
                self.ev(st, l)
                return self.ev(st, r)
            if op in ('+', '-'):
                a, b = self.ev(st, l), self.ev(st, r)
                return a.add(b, 1 if op == '+' else -1)
            if op in _NONLIN:
                a, b = self.ev(st, l), self.ev(st, r)
                return self.nonlinear(st, op, a, b)
            raise Unmodellable('the result of `%s` used as a value' % op)
        if k == 'CompoundAssignOperator':
            op = n.get('opcode')[:-1]
            l, r = n['inner']
            nm = c_name(l)
            if nm is None:
                raise Unmodellable('compound assignment to something that is not a variable')
            old, rv = self.var(st, l), self.ev(st, r)
            new = old.add(rv, 1 if op == '+' else -1) if op in '+-' else self.nonlinear(st, op, old, rv)
            new = self.cast(st, new, l)
            st.env[nm] = new
            return new
        if k == 'CallExpr':
            callee = c_name(n['inner'][0])
            args = n['inner'][1:]
            if callee in _HINTS and args:
                return self.ev(st, args[0])
            if callee in _COPY and len(args) == 3:
                d, s, sz = [self.ev(st, a) for a in args]
                s, d = st.simp(s), st.simp(d)
                dl, sl = self.scratch(d), self.scratch(s)
                if dl is not None or sl is not None:
                    return self.staged_copy(st, callee, d, s, st.simp(sz), dl, sl)
                if s.t.get('D') == 1 and 'S' not in s.t:
                    source = ('out', s.add(Lin(0, {'D': 1}), -1))
                elif s.t.get('S') == 1 and 'D' not in s.t:
                    c = st.simp(sz).const()
                    first = self.load(st, s)
                    source = ('in', first)
                    if c is None:
                        raise Unmodellable('a copy from the input of a size that is not constant')
                    for i in range(1, c):
                        self.load(st, s.add(Lin(i)))
                else:
                    raise Unmodellable('%s from %r' % (callee, s))
                self.store(st, d, sz, source, callee)
                return d
            if callee == 'memset' and len(args) == 3:
                d, v, sz = [self.ev(st, a) for a in args]
                self.store(st, d, sz, ('value', None), callee)
                return d
            raise Unmodellable('call of %s()' % callee)
        if k == 'UnaryExprOrTypeTraitExpr':
            if n.get('name') != 'sizeof':
                raise Unmodellable(str(n.get('name')))
            t = n.get('argType')
            if t is None:
                sub = [c for c in n.get('inner', []) if isinstance(c, dict) and c.get('kind')]
                if not sub:
                    raise Unmodellable('sizeof without an operand')
                while sub[0].get('kind') == 'ParenExpr':
                    sub = sub[0]['inner']
                t = sub[0].get('type')
            return Lin(self.type_size(t or {}))
        raise Unmodellable('expression of kind %s' % k)

    @staticmethod
    def scratch(addr):
        """name of the scratch object an address points into (None: not into one)"""
        ts = [k for k in addr.t if isinstance(k, tuple) and k[0] == 'T']
        if not ts:
            return None
        if len(ts) != 1 or addr.t[ts[0]] != 1 or len(addr.t) != 1:
            raise Unmodellable('arithmetic on the address of a local (%r)' % addr)
        return ts[0][1]

    def staged_copy(self, st, callee, d, s, sz, dl, sl):
        """memcpy into / out of a scratch object of the step (`uint64_t word; memcpy(&word, from, 8); memcpy(to, &word, 8);`): the second copy is a copy
        from where the first one read - all bytes are read before any is written (the semantics of memmove)"""
        if dl is not None and sl is not None:
            raise Unmodellable('a copy from one local into another (%s, %s)' % (sl, dl))
        lo_n, hi_n = st.bounds(sz)
        if lo_n is None or hi_n is None or lo_n < 0:
            raise Unmodellable('a copy through the local %s of a size without bounds (%r)' % (dl or sl, sz))
        if dl is not None:
            if d.c != 0:
                raise Unmodellable('a copy into the middle of the local %s' % dl)
            if hi_n > st.lsize.get(dl, 0):
                raise Unmodellable('up to %d bytes are copied into the local %s of %d bytes' % (hi_n, dl, st.lsize.get(dl, 0)))
            if s.t.get('D') == 1 and 'S' not in s.t:
                src = ('out', s.add(Lin(0, {'D': 1}), -1))
                st.reads.append((src[1], sz, '%s into the local %s' % (callee, dl)))
            elif s.t.get('S') == 1 and 'D' not in s.t:
                n = sz.const()
                if n is None:
                    raise Unmodellable('a copy from the input of a size that is not constant')
                src = ('in', self.load(st, s))
                for i in range(1, n):
                    self.load(st, s.add(Lin(i)))
            else:
                raise Unmodellable('%s from %r into the local %s' % (callee, s, dl))
            st.lcont[dl] = (sz, src)
            if dl in st.env and not self.scratch(st.env[dl]):
                st.env[dl] = Lin(0, {self.new('U'): 1})         # the value of the variable is what was copied into it: not tracked as a number
            return d
        if s.c != 0:
            raise Unmodellable('a copy out of the middle of the local %s' % sl)
        if sl not in st.lcont:
            raise Unmodellable('the local %s is copied to the output before anything was copied into it' % sl)
        have, src = st.lcont[sl]
        if sz.key() != have.key() and hi_n > (st.bounds(have)[0] or 0):
            raise Unmodellable('%r bytes are copied out of the local %s, which holds %r' % (sz, sl, have))
        self.store(st, d, sz, src, 'copy through the local %s' % sl)
        return d

    def var(self, st, n):
        from ..engine.absint import c_name
        nm = c_name(n)
        if nm not in st.env:
            raise Unmodellable('the variable %s is read before it is set' % nm)
        return st.env[nm]

    def assign(self, st, l, v):
        from ..engine.absint import c_strip, c_name
        nm = c_name(l) if c_strip(l).get('kind') == 'DeclRefExpr' and l.get('kind') in ('DeclRefExpr', 'ParenExpr') else None
        if nm is not None:
            st.env[nm] = v
            return
        v = st.simp(v)
        ms = [s for s in v.t if isinstance(s, tuple) and s[0] == 'M']
        if len(ms) == 1 and v.t[ms[0]] == 1 and len(v.t) == 1 and v.c == 0:
            source = ('out', st.mem[ms[0]])
        elif any(isinstance(s, tuple) and s[0] == 'B' for s in v.t):
            source = ('in', v)
        else:
            source = ('value', None)
        self.store(st, self.address(st, l), Lin(self.width(l)), source, 'store')

    @staticmethod
    def type_size(t):
        """sizeof of a clang type record: integer types, pointers, arrays of them"""
        for q in ((t.get('desugaredQualType') or ''), (t.get('qualType') or '')):
            q = q.replace('const ', '').replace('volatile ', '').strip()
            if not q:
                continue
            dims = re.findall(r'\[(\d+)\]', q)
            base = re.sub(r'\[\d+\]', '', q).strip()
            size = 8 if base.endswith('*') else (_UNSIGNED.get(base) or _SIGNED.get(base) or 0) // 8
            if size and '[]' not in q:
                for d in dims:
                    size *= int(d)
                return size
        raise Unmodellable('sizeof applied to the type %s' % (t.get('qualType') or '?'))

    def width(self, n):
        """size in bytes of the object an lvalue expression denotes (a store through a cast pointer writes the whole word)"""
        for t in self.ctype(n):
            if t in _UNSIGNED or t in _SIGNED:
                return (_UNSIGNED.get(t) or _SIGNED.get(t)) // 8
        raise Unmodellable('a store to an object of type %s' % self.ctype(n)[1])

    # ---------------------------------------------------------------- conditions
    def cond(self, st, n, in_loop=False):
        """-> [(state, truth)]; forks on input bytes (value sets split exactly) and on dst_len (constraint recorded)"""
        from ..engine.absint import c_name
        self.tick()
        k = n.get('kind')
        if k in ('ParenExpr', 'ConstantExpr'):
            return self.cond(st, n['inner'][-1], in_loop)
        if k in ('ImplicitCastExpr', 'CStyleCastExpr') and n.get('castKind') in ('IntegralCast', 'NoOp', 'IntegralToBoolean') and self.is_boolean(n['inner'][-1]):
            return self.cond(st, n['inner'][-1], in_loop)
        if k == 'CallExpr' and c_name(n['inner'][0]) in _HINTS and len(n['inner']) > 1:
            return self.cond(st, n['inner'][1], in_loop)
        if k == 'UnaryOperator' and n.get('opcode') == '!':
            return [(s, not t) for s, t in self.cond(st, n['inner'][0], in_loop)]
        if k == 'BinaryOperator' and n.get('opcode') in ('&&', '||'):
            out = []
            short = n['opcode'] == '||'
            for s, t in self.cond(st, n['inner'][0], in_loop):
                if t == short:
                    out.append((s, t))
                else:
                    out += self.cond(s, n['inner'][1], in_loop)
            return out
        if k == 'BinaryOperator' and n.get('opcode') in _CMP:
            a, b = self.ev(st, n['inner'][0]), self.ev(st, n['inner'][1])
            return self.decide(st, a.add(b, -1), n['opcode'], in_loop)
        return self.decide(st, self.ev(st, n), '!=', in_loop)

    def is_boolean(self, n):
        from ..engine.absint import c_name
        while n.get('kind') in ('ParenExpr', 'ConstantExpr'):
            n = n['inner'][-1]
        return (n.get('kind') == 'BinaryOperator' and (n.get('opcode') in _CMP or n.get('opcode') in ('&&', '||'))) or \
               (n.get('kind') == 'UnaryOperator' and n.get('opcode') == '!') or (n.get('kind') == 'CallExpr' and c_name(n['inner'][0]) in _HINTS)

    def decide(self, st, d, op, in_loop):
        d = st.simp(d)
        c = d.const()
        if c is not None:
            return [(st, _CMP[op](c, 0))]
        if 'D' in d.t or 'S' in d.t:
            raise Unmodellable('a condition on a pointer value (%r %s 0)' % (d, op))
        if 'L' in d.t:
            a, b = st.clone(), st
            a.lcons.append((d, op))
            b.lcons.append((d, _NEG[op]))
            a.trace += (('len', True),)
            b.trace += (('len', False),)
            return [(a, True), (b, False)]
        bs, opq = _deps(d)
        if opq:
            if in_loop:
                raise Unmodellable('a loop inside the token step runs while %r %s 0, which depends on %s' % (d, op, sorted(map(repr, opq))[0]))
            for (k2, op2), t2 in st.facts.items():
                if k2 == d.key() and op2 in (op, _NEG[op]):
                    return [(st, t2 if op2 == op else not t2)]
            a, b = st.clone(), st
            a.facts[(d.key(), op)] = True
            b.facts[(d.key(), op)] = False
            a.trace += (('state', repr(d), op, True),)
            b.trace += (('state', repr(d), op, False),)
            return [(a, True), (b, False)]
        lo, hi = st.bounds(d)
        for t in (True, False):
            o = op if t else _NEG[op]
            if (o == '>=' and lo is not None and lo >= 0) or (o == '>' and lo is not None and lo > 0) or (o == '<=' and hi is not None and hi <= 0) or \
                    (o == '<' and hi is not None and hi < 0) or (o == '!=' and ((lo is not None and lo > 0) or (hi is not None and hi < 0))):
                return [(st, t)]
        asgs = st.assignments(bs, 5000 if in_loop else 70000)
        if asgs is None:
            if in_loop:
                raise Unmodellable('a loop condition over %d input bytes with too many combinations (%r %s 0)' % (len(bs), d, op))
            # both outcomes are followed, the condition is kept for the enumerations at the end of the path (an over-approximation of the paths)
            a, b = st.clone(), st
            a.cons.append((d, op))
            b.cons.append((d, _NEG[op]))
            a.trace += (('data', True),)
            b.trace += (('data', False),)
            return [(a, True), (b, False)]
        if in_loop:
            # concretise: one state per value of the bytes the loop condition depends on
            out = []
            for asg in asgs:
                s2 = st.clone()
                for kk in bs:
                    s2.dom[kk] = frozenset([asg[kk]])
                out.append((s2, _CMP[op](_lin_value(d, asg), 0)))
            return out
        yes = [asg for asg in asgs if _CMP[op](_lin_value(d, asg), 0)]
        if len(yes) == len(asgs):
            return [(st, True)]
        if not yes:
            return [(st, False)]
        a, b = st.clone(), st
        if len(bs) == 1:
            kk = next(iter(bs))
            ys = frozenset(asg[kk] for asg in yes)
            a.dom[kk] = ys
            b.dom[kk] = frozenset(st.domain(kk)) - ys
        else:
            a.cons.append((d, op))
            b.cons.append((d, _NEG[op]))
        a.trace += (('data', True),)
        b.trace += (('data', False),)
        return [(a, True), (b, False)]

    # ---------------------------------------------------------------- statements
    def block(self, stmts, st):
        live, done = [st], []
        for s in stmts:
            nxt = []
            for cur in live:
                for s2, status in self.stmt(s, cur):
                    (nxt if status == FALL else done).append((s2, status))
            live = [x for x, _ in nxt]
            if not live:
                break
        return [(x, FALL) for x in live] + done

    def stmt(self, n, st):
        self.tick()
        k = n.get('kind')
        if k == 'CompoundStmt':
            return self.block([c for c in n.get('inner', []) if c], st)
        if k == 'NullStmt':
            return [(st, FALL)]
        if k == 'DeclStmt':
            for d in n.get('inner', []):
                if d.get('kind') == 'VarDecl':
                    init = [c for c in d.get('inner', []) if isinstance(c, dict) and c.get('kind')]
                    if re.search(r'\[\d+\]$', ((d.get('type') or {}).get('desugaredQualType') or (d.get('type') or {}).get('qualType') or '').strip()):
                        if init:
                            raise Unmodellable('a local array with an initialiser')
                        st.lsize[d['name']] = self.type_size(d.get('type') or {})       # a scratch buffer: its name stands for its address
                        st.lcont.pop(d['name'], None)
                        st.env[d['name']] = Lin(0, {('T', d['name']): 1})
                        continue
                    st.lcont.pop(d['name'], None)
                    st.env[d['name']] = self.ev(st, init[-1]) if init else Lin(0, {self.new('U'): 1})
                else:
                    raise Unmodellable('declaration of kind %s' % d.get('kind'))
            return [(st, FALL)]
        if k == 'IfStmt':
            inner = n['inner']
            out = []
            for s2, t in self.cond(st, inner[0]):
                if t:
                    out += self.stmt(inner[1], s2)
                elif len(inner) > 2 and inner[2]:
                    out += self.stmt(inner[2], s2)
                else:
                    out.append((s2, FALL))
            return out
        if k == 'ReturnStmt':
            st.returned = True
            st.retval = self.ev(st, n['inner'][0]) if n.get('inner') else None
            return [(st, RET)]
        if k == 'BreakStmt':
            return [(st, BRK)]
        if k == 'ContinueStmt':
            return [(st, CONT)]
        if k in ('WhileStmt', 'ForStmt', 'DoStmt'):
            return self.loop(n, st)
        if k in ('GotoStmt', 'SwitchStmt', 'LabelStmt'):
            raise Unmodellable('%s inside the token step' % k)
        from ..engine.absint import c_strip, c_name
        call = c_strip(n)
        if call.get('kind') == 'CallExpr' and c_name(call['inner'][0]) in self.helpers:
            return self.inline(self.helpers[c_name(call['inner'][0])], call['inner'][1:], st)
        self.ev(st, n)
        return [(st, FALL)]

    def inline(self, fdecl, args, st, depth=0):
        """a call statement of a routine whose body is known: executed in place (parameters bound to the argument values, own scope)"""
        if getattr(self, 'inlining', 0) > 4:
            raise Unmodellable('calls nested more than 4 deep')
        params = [c['name'] for c in fdecl['inner'] if c.get('kind') == 'ParmVarDecl']
        body = [c for c in fdecl['inner'] if c.get('kind') == 'CompoundStmt']
        if len(params) != len(args) or not body:
            raise Unmodellable('call of %s() with %d arguments' % (fdecl.get('name'), len(args)))
        vals = [self.ev(st, a) for a in args]
        saved, saved_ret = st.env, (st.returned, st.retval)
        st.env = dict(zip(params, vals))
        self.inlining = getattr(self, 'inlining', 0) + 1
        try:
            outs = self.stmt(body[0], st)
        finally:
            self.inlining -= 1
        res = []
        for s2, status in outs:
            if status not in (FALL, RET):
                raise Unmodellable('%s outside a loop in %s()' % (status, fdecl.get('name')))
            s2.env = dict(saved)
            s2.returned, s2.retval = saved_ret
            res.append((s2, FALL))
        return res

    def loop(self, n, st):
        init, cond, inc, body, post_test = self.loop_parts(n)
        if init:
            if init.get('kind') == 'DeclStmt':
                self.stmt(init, st)
            else:
                self.ev(st, init)
        out, live, first = [], [st], True
        rounds = 0
        while live:
            rounds += 1
            if rounds > 5000:
                raise Unmodellable('a loop inside the token step does not terminate')
            entering = []
            for cur in live:
                if first and post_test or cond is None:
                    entering.append(cur)
                    continue
                for s2, t in self.cond(cur, cond, in_loop=True):
                    if t:
                        entering.append(s2)
                    else:
                        out.append((s2, FALL))
            first = False
            live = []
            for cur in entering:
                for s2, status in self.stmt(body, cur):
                    if status in (FALL, CONT):
                        if inc:
                            self.ev(s2, inc)
                        live.append(s2)
                    elif status == BRK:
                        out.append((s2, FALL))
                    else:
                        out.append((s2, status))
            if len(live) > 20000:
                raise Unmodellable('too many states in a loop inside the token step')
        return out

    def run(self):
        """-> final states of one step (entry: start of the body of the token loop)"""
        st = self.entry_state()
        init, cond, inc, body, post_test = self.loop_parts(self.unit)
        finals = []
        for s2, status in self.stmt(body, st):
            if status in (FALL, CONT) and inc:
                self.ev(s2, inc)
            if status == BRK:
                raise Unmodellable('the token step leaves its loop with `break`')
            s2.exit = RET if status == RET else FALL
            finals.append(s2)
        return finals


_DECODER = '__pyx_lzss_decompress'
_PC_DECODER = '''
static size_t __pyx_lzss_decompress_sa_pc(const uint8_t* src, uint8_t* dst, size_t dst_len) {
    size_t pos = 0, out_pos = 0;
    while (1) {
        uint32_t flags = src[pos++] | 0xFF00;
        while (flags & 0x100) {
            if (flags & 1) {
                dst[out_pos++] = src[pos++];
            } else {
                uint32_t tok = src[pos++], off = tok >> 4, n = (tok & 0x0F) + 3;
                size_t from = out_pos - off - n;
                if (out_pos + n < dst_len) {
                    uint32_t k;
                    for (k = 0; k < n; k += 8) memcpy(dst + out_pos + k, dst + from + k, 8);
                } else {
                    memcpy(dst + out_pos, dst + from, n);
                }
                out_pos += n;
            }
            if (out_pos >= dst_len) return pos;
            flags >>= 1;
        }
    }
}
'''

_OK_DECODER = _PC_DECODER.replace('_sa_pc', '_sa_ok').replace('if (out_pos + n < dst_len) {', 'if (out_pos + n + 8 <= dst_len && off + n >= 8) {')


def _fold_sizeof(n):
    """sizeof(<integer type / pointer / array of them>) -> the integer literal it stands for (LP64, as everywhere in this model), in place"""
    for i, c in enumerate(n.get('inner', []) or []):
        if not isinstance(c, dict):
            continue
        if c.get('kind') == 'UnaryExprOrTypeTraitExpr' and c.get('name') == 'sizeof':
            t = c.get('argType')
            if t is None:
                sub = [x for x in c.get('inner', []) if isinstance(x, dict) and x.get('kind')]
                while sub and sub[0].get('kind') == 'ParenExpr':
                    sub = sub[0].get('inner', [])
                t = sub[0].get('type') if sub else None
            try:
                n['inner'][i] = {'kind': 'IntegerLiteral', 'value': str(TokenExec.type_size(t or {})), 'type': c.get('type'), 'valueCategory': 'prvalue', 'range': c.get('range'), 'id': c.get('id')}
                continue
            except Unmodellable:
                pass
        _fold_sizeof(c)


def _decoder_asts(ctx):
    """{function name: clang FunctionDecl} of the decoder shipped in StringTools.c and of the embedded positive example (one clang process)"""
    def build():
        import json, os, subprocess, tempfile
        decl = [d for d in ctx.cat.decls.get(_DECODER, []) if d.kind == 'func']
        if not decl:
            raise AnalysisError('%s not found' % _DECODER)
        head = 'static size_t %s(%s) ' % (_DECODER, ', '.join(decl[0].params))
        # helpers of the same utility file that the decoder calls (a copy routine split off): parsed along under a name the AST filter lets through, inlined by TokenExec
        helpers, todo, pre = [], [decl[0].body], ''
        while todo:
            for nm in re.findall(r'\b([A-Za-z_]\w*)\s*\(', todo.pop()):
                hd = [d for d in ctx.cat.decls.get(nm, []) if d.kind == 'func' and d.body and d.file == decl[0].file]
                if hd and nm != _DECODER and nm not in helpers and len(helpers) < 8:
                    helpers.append(nm)
                    todo.append(hd[0].body)
                    pre = '#define %s %s__H_%s\nstatic %s %s(%s) %s\n' % (nm, _DECODER, nm, re.sub(r'\b(static|CYTHON_\w+|inline)\b', '', hd[0].ret or 'void').strip() or 'void',
                                                                          nm, ', '.join(hd[0].params), hd[0].body) + pre
        text = ('#include <stdint.h>\n#include <string.h>\n#include <stddef.h>\n#define CYTHON_UNUSED\n#define CYTHON_SMALL_CODE\n#define CYTHON_INLINE\n' + pre + head + decl[0].body + '\n' + _PC_DECODER + _OK_DECODER)
        with tempfile.TemporaryDirectory(prefix='sa_clang_') as d:
            p = os.path.join(d, 't.c')
            with open(p, 'w') as f:
                f.write(text)
            try:
                res = subprocess.run(['clang', '-fsyntax-only', '-w', '-Xclang', '-ast-dump=json', '-Xclang', '-ast-dump-filter=' + _DECODER, p],
                                     stdout=subprocess.PIPE, stderr=subprocess.PIPE, text=True, timeout=60)
            except (OSError, subprocess.TimeoutExpired) as e:
                raise AnalysisError('clang not runnable: %s' % e)
            if res.returncode != 0:
                raise AnalysisError('clang cannot parse the decoder %s: %s' % (_DECODER, res.stderr[-400:]))
        dec, i, found, txt = json.JSONDecoder(), 0, {}, res.stdout
        while i < len(txt):
            j = txt.find('{', i)
            if j < 0:
                break
            try:
                d, k = dec.raw_decode(txt, j)
            except ValueError:
                i = j + 1
                continue
            i = k
            if d.get('kind') == 'FunctionDecl' and any(c.get('kind') == 'CompoundStmt' for c in d.get('inner', [])):
                _fold_sizeof(d)
                found[d.get('name')] = d
        if _DECODER not in found or _DECODER + '_sa_pc' not in found or _DECODER + '_sa_ok' not in found:
            raise AnalysisError('function %s not found in clang AST' % _DECODER)
        return found
    return ctx.memo('sC12.clang_decoders', build)


def _decoder_ast(ctx):
    return _decoder_asts(ctx)[_DECODER]


def _r_range(rcons, asg, adv):
    """smallest / largest room R = dst_len - out_pos the path admits for this token (R >= advance: the stream is the compressor's)"""
    lo, hi, ne = adv, None, set()
    for e, op in rcons:          # meaning: R op e
        b = _lin_value(e, asg)
        if op == '<':
            hi = b - 1 if hi is None else min(hi, b - 1)
        elif op == '<=':
            hi = b if hi is None else min(hi, b)
        elif op == '>':
            lo = max(lo, b + 1)
        elif op == '>=':
            lo = max(lo, b)
        elif op == '==':
            lo = max(lo, b)
            hi = b if hi is None else min(hi, b)
        else:
            ne.add(b)
    while lo in ne:
        lo += 1
    while hi is not None and hi in ne:
        hi -= 1
    return lo, hi


_FLIP = {'<': '>', '<=': '>=', '>': '<', '>=': '<=', '==': '==', '!=': '!='}


def _partial(st, lin, asg):
    """lin with every atom whose input bytes are all given by asg replaced by its value"""
    out = Lin(lin.c, dict(lin.t))
    for s in list(out.t):
        if isinstance(s, tuple) and s[0] in ('B', 'A', 'C'):
            bs, opq = set(), set()
            _sym_deps(s, bs, opq)
            if not opq and all(k in asg for k in bs):
                out.c += out.t.pop(s) * _sym_value(s, asg)
    return out


def _witness(st, lin, asg, pred):
    """a concrete token (values of the input bytes lin still depends on, consistent with the path) for which pred(value of lin) holds -> (value, assignment); None when
    there is none among the combinations tried (all of them when they are few, the corner values of each byte otherwise)"""
    bs, opq = _deps(lin)
    if opq:
        return None
    bs = sorted(bs)
    n = 1
    for k in bs:
        n *= len(st.domain(k))
    doms = [sorted(st.domain(k)) for k in bs] if n <= 70000 else [sorted({min(st.domain(k)), max(st.domain(k))}) for k in bs]
    for vals in itertools.product(*doms):
        full = dict(asg)
        full.update(zip(bs, vals))
        try:
            if not all(_CMP[op](_lin_value(d, full), 0) for d, op in st.cons if _deps(d)[0] <= set(full)):
                continue
            v = _lin_value(lin, full)
        except KeyError:
            continue
        if pred(v):
            return v, full
    return None


def token_footprint(fdecl, paths=None, names=None, helpers=None):
    """-> (classes, problems): classes = {class key: set of clauses evaluated}; problems = [(clause, token kind, message)] (first witness per clause and kind).
    With paths=[]: one (kind, advance, stores relative to the output position, exit) is appended per path."""
    ex = TokenExec(fdecl, helpers)
    finals = ex.run()
    if not finals:
        raise Unmodellable('the token step has no path')
    # the output position: the one start-of-step value the store addresses are relative to
    psyms = set()
    for st in finals:
        for off, n, src, what in st.writes:
            psyms |= {s for s in off.t if isinstance(s, tuple) and s[0] == 'V'}
    if not psyms:
        for st in finals:
            for d, op in st.lcons:
                psyms |= {s for s in d.t if isinstance(s, tuple) and s[0] == 'V'}
    if len(psyms) != 1:
        raise Unmodellable('the output position is not one variable (the stores of a token are relative to %s)' % (sorted(s[1] for s in psyms) or 'nothing'))
    P = next(iter(psyms))
    VP = Lin(0, {P: 1})
    Q = getattr(ex, 'inpos', None)
    if names is not None:
        names.update(outpos=P[1], inpos=Q[1] if Q else None)
    classes, problems, seen = {}, [], set()

    def problem(clause, kind, msg):
        if (clause, kind) not in seen:
            seen.add((clause, kind))
            problems.append((clause, kind, msg))

    def pure(lin, what):
        bs, opq = _deps(lin)
        if opq:
            raise Unmodellable('%s is %r, which depends on %s' % (what, lin, sorted(map(repr, opq))[0]))
        return bs

    # ---- per path: advance, conditions on the room R = dst_len - out_pos, stores relative to the output position
    groups = {}
    for st in finals:
        kind = 'literal' if any(src[0] == 'in' for _, _, src, _ in st.writes) else 'back-reference'
        if P[1] not in st.env:
            raise Unmodellable('the output position %s is not set at the end of the step' % P[1])
        adv = st.simp(st.env[P[1]].add(VP, -1))
        deps = set(pure(adv, 'the advance of the output position'))
        rcons = []
        for d, op in st.lcons:
            cl, cp = d.t.get('L', 0), d.t.get(P, 0)
            if cl + cp != 0 or abs(cl) != 1:
                raise Unmodellable('a condition compares dst_len with something that is not a distance from the output position (%r %s 0)' % (d, op))
            e = st.simp(Lin(d.c, {s: v for s, v in d.t.items() if s not in ('L', P)}))
            bound, bop = (e.scale(-1), op) if cl == 1 else (e, _FLIP[op])        # d = e + cl * R  op 0   ->   R op' bound
            eb = pure(e, 'a bound compared with dst_len')
            if len(deps | eb) > 2 and not eb <= deps:
                # the bound depends on more input bytes than can be tabulated together with the advance (a position that involves the offset fields is compared
                # with dst_len): the condition is weakened to the extreme values of the bound - more values of the room are admitted on the path, none is lost
                blo, bhi = st.bounds(bound)
                if bop in ('>', '>=', '==') and blo is not None:
                    rcons.append((Lin(blo), '>=' if bop == '==' else bop))
                if bop in ('<', '<=', '==') and bhi is not None:
                    rcons.append((Lin(bhi), '<=' if bop == '==' else bop))
                continue
            deps |= eb
            rcons.append((bound, bop))
        ws = []
        for off, n, src, what in st.writes:
            rel, n = st.simp(off.add(VP, -1)), st.simp(n)
            deps |= pure(rel, 'the offset of a store') | pure(n, 'the size of a copy')
            ws.append((rel, n, src, what, off))
        consumed = None
        if Q is not None and Q[1] in st.env:
            consumed = st.simp(st.env[Q[1]].add(Lin(0, {Q: 1}), -1)).const()
        if paths is not None:
            paths.append((kind, adv, [w[:4] for w in ws], st.exit))
        info = dict(st=st, kind=kind, adv=adv, rcons=rcons, ws=ws, deps=deps, consumed=consumed,
                    label='%s token of %d input byte(s)' % (kind, len(st.src_read)))
        info['clauses'] = classes.setdefault((kind, len(st.src_read), st.trace, st.exit), set())
        # paths that differ only in what they found out about the room belong to the same token: same decisions on input bytes and decoder state,
        # or one list of decisions continues the other (a decision taken on one side of a test of the room only)
        dkey = tuple(t for t in st.trace if t[0] != 'len')
        for k2 in list(groups):
            if k2[:len(dkey)] == dkey or dkey[:len(k2)] == k2:
                if k2 != dkey:
                    groups.setdefault(dkey, []).extend(groups.pop(k2))
        groups.setdefault(dkey, []).append(info)

    for gkey, infos in groups.items():
        deps = set()
        for i in infos:
            deps |= i['deps']
        by_asg = {}
        for i in infos:
            deps |= {k for k, v in i['st'].dom.items() if len(v) == 1}        # bytes fixed on a path (a copy loop was run for each value): siblings are matched per value
        for i in infos:
            asgs = i['st'].assignments(deps)
            if asgs is None:
                raise Unmodellable('the footprint of a %s depends on %d input bytes: too many combinations' % (i['label'], len(deps)))
            i['clauses'] |= {'write-extent', 'coverage', 'stop', 'advance'}
            for asg in asgs:
                lo, hi = _r_range(i['rcons'], asg, 1)
                by_asg.setdefault(tuple(asg.get(k) for k in sorted(deps)), []).append((i, asg, _lin_value(i['adv'], asg), lo, hi))
        for akey, rows0 in by_asg.items():
            # the advance of this token when room is plentiful is what the token denotes; the stream is the compressor's, so at least that much room is left
            rows = [(i, a, lo, hi) for i, asg, a, lo, hi in rows0]
            asg_of = {id(i): asg for i, asg, a, lo, hi in rows0}
            free = [a for i, a, lo, hi in rows if hi is None]
            if not free:
                raise Unmodellable('no path of a %s is taken when a lot of room is left in the output' % infos[0]['label'])
            true_adv = max(free)
            if true_adv < 1:
                problem('advance', infos[0]['kind'], 'a %s advances the output position by %d: the decoder makes no progress / steps back' % (infos[0]['label'], true_adv))
                continue
            for i, a, lo, hi in rows:
                st, kind, label, asg = i['st'], i['kind'], i['label'], asg_of[id(i)]
                lo_r = max(lo, true_adv)
                if hi is not None and lo_r > hi:
                    continue            # taken only when less room is left than the token needs: not with the compressor's streams
                if a != true_adv:
                    problem('advance', kind, 'a %s that denotes %d byte(s) advances the output by %d when %d byte(s) of room are left: the result depends on the room, not on the token' % (label, true_adv, a, lo_r))
                    continue
                if st.exit == RET:
                    i['clauses'].add('return-value')
                    want = st.env.get(Q[1]) if Q is not None else None
                    if st.retval is None or want is None or st.simp(st.retval).key() != st.simp(want).key():
                        problem('return-value', kind, 'after the %s that fills the output the decoder returns %s, which is not the position in the compressed input (%s): the caller compares '
                                'the result with compressed_length and rejects every stream' % (label, 'nothing' if st.retval is None else repr(st.retval), Q[1] if Q else '?'))
                if st.exit == RET and (hi is None or hi > a):
                    problem('stop', kind, 'after a %s that advances the output by %d the decoder returns although up to %s bytes of room were left (%d would be exactly full): '
                            'it stops before the output is complete' % (label, a, 'any number of' if hi is None else hi, a))
                if st.exit != RET and lo_r == a:
                    problem('stop', kind, 'after a %s that fills the output exactly (advance %d = room %d) the decoder does not return: the next token, or padding bits of the '
                            'last flag byte, are decoded past the end of the output buffer and of the input' % (label, a, a))
                covered = []
                for rel, n, src, what, off in i['ws']:
                    wlo, wn = _lin_value(rel, asg), _lin_value(n, asg)
                    if wn < 0:
                        problem('write-extent', kind, 'a %s makes a %s of %d bytes (a negative size is a huge size_t)' % (label, what, wn))
                        continue
                    if wn == 0:
                        continue
                    covered.append((wlo, wlo + wn))
                    if wlo < 0:
                        problem('write-extent', kind, 'a %s (advance %d) makes a %s at %d bytes before the output position: bytes that are already decoded are overwritten' % (label, a, what, -wlo))
                    elif wlo + wn > a and wlo + wn > lo_r:
                        problem('write-extent', kind, 'a %s that advances the output by %d makes a %s of %d byte(s) at offset %d from the output position, i.e. up to offset %d, while as '
                                'little as %d byte(s) of the output buffer are left on this path: %d byte(s) are written past the end of the buffer (nothing that dominates the %s bounds it by dst_len)'
                                % (label, a, what, wn, wlo, wlo + wn, lo_r, wlo + wn - lo_r, what))
                # copies out of the output read inside the buffer: [source, source + size) ends at or below dst_len for the smallest room the path admits
                # (a copy whose source lies below its destination satisfies this by itself; a word that is loaded whole for a short match does not)
                for srcoff, n, what in [(src[1], n, what) for rel, n, src, what, off in i['ws'] if src[0] == 'out'] + st.reads:
                    try:
                        wn = _lin_value(st.simp(n), asg)
                    except KeyError:
                        continue            # the size depends on bytes outside this table: undecided here
                    if wn <= 0:
                        continue
                    end = _partial(st, st.simp(srcoff.add(VP, -1)).add(Lin(wn)), asg)      # end of the source relative to the output position
                    lo_e, hi_e = st.bounds(end)
                    room = max(lo_r, a)
                    if hi_e is not None and hi_e <= room:
                        i['clauses'].add('read-extent')
                        continue
                    wit = _witness(st, end, asg, lambda v: v > room)
                    if wit is not None:
                        i['clauses'].add('read-extent')
                        problem('read-extent', kind, 'a %s that advances the output by %d makes a %s of %d byte(s) whose source ends %d byte(s) above the output position while as little as %d '
                                'byte(s) of the output buffer are left on this path: %d byte(s) are read behind the end of the buffer, e.g. for the token bytes %s (nothing that dominates the '
                                'copy keeps its source below dst_len)' % (label, a, what, wn, wit[0], room, wit[0] - room,
                                                                          ' '.join('%02X' % wit[1][k] if k in wit[1] else '..' for k in sorted(st.src_read))))
                    # neither bounded nor refuted by a concrete token: the clause stays undecided for this path (it is not counted)
                pos = 0
                for wlo, whi in sorted(covered):
                    if wlo > pos:
                        break
                    pos = max(pos, whi)
                if pos < a:
                    problem('coverage', kind, 'a %s advances the output by %d but its stores cover only the first %d byte(s) of that slice: the rest of the result is never written' % (label, a, max(pos, 0)))

    for infos in groups.values():
        for i in infos:
            st, kind, label, adv = i['st'], i['kind'], i['label'], i['adv']
            # input: only bytes that the step also consumes are read (the last token ends the input)
            if i['consumed'] is not None:
                i['clauses'].add('input-extent')
                over = [k for k in st.src_read if k >= i['consumed']]
                if over:
                    problem('input-extent', kind, 'a %s reads the input up to %d byte(s) behind the input position but advances the input position by %d only: for the last token of '
                            'the stream this is a read past the end of the compressed data' % (label, max(over) + 1, i['consumed']))
            # copies out of the output: one displacement, source below the destination
            disps = {}
            for rel, n, src, what, off in i['ws']:
                if src[0] != 'out':
                    continue
                i['clauses'] |= {'read-source', 'displacement'}
                disp = st.simp(src[1].add(off, -1))
                disps.setdefault(disp.key(), disp)
                # memcpy: source and destination must not overlap at all.  memmove / single stores: the bytes that land in the token's slice must come from below the destination
                us = [st.simp(disp.add(n))]
                if what not in ('memcpy', '__builtin_memcpy'):
                    us.append(st.simp(disp.add(adv).add(rel, -1)))
                if any(hi is not None and hi <= 0 for lo, hi in map(st.bounds, us)):
                    continue
                bs = set()
                for u in us:
                    b2, opq = _deps(u)
                    if opq:
                        raise Unmodellable('the source of a copy ends at %r relative to its destination, which depends on %s' % (u, sorted(map(repr, opq))[0]))
                    bs |= b2
                uas = st.assignments(bs, 300000)
                if uas is None:
                    # too many combinations to tabulate: a concrete witness among the corner values of the bytes still decides the clause (as violated)
                    corners = [dict(zip(sorted(bs), vals)) for vals in itertools.product(*[sorted({min(st.domain(k)), max(st.domain(k))}) for k in sorted(bs)])]
                    uas = []
                    for asg in corners:
                        try:
                            if all(_CMP[op2](_lin_value(d2, asg), 0) for d2, op2 in st.cons if _deps(d2)[0] <= set(asg)) and all(_lin_value(u, asg) > 0 for u in us):
                                uas.append(asg)
                        except KeyError:
                            pass
                    if not uas:
                        raise Unmodellable('the distance between source and destination of a copy depends on %d input bytes: too many combinations' % len(bs))
                for asg in uas:
                    vs = [_lin_value(u, asg) for u in us]
                    if all(v > 0 for v in vs):
                        nn = _lin_value(n, asg)
                        problem('read-source', kind, 'a %s makes a %s of %d byte(s) whose source starts %d byte(s) below its destination: the last %d byte(s) it reads are at or above the '
                                'destination (not yet decoded%s), e.g. for the token bytes %s' % (
                                    label, what, nn, nn - vs[0], vs[0], ' / overlapping, undefined for memcpy' if len(us) == 1 else '',
                                    ' '.join('%02X' % asg[k] if k in asg else '..' for k in sorted(st.src_read))))
                        break
            if len(disps) > 1:
                ds = sorted(disps.values(), key=repr)
                problem('displacement', kind, 'the copies of one %s use different distances between source and destination (%r and %r): parts of the match are taken from the wrong place' % (label, ds[0], ds[1]))
    return classes, problems


def _footprint(ctx):
    """(classes, problems, paths) of the shipped decoder, or the Unmodellable that stopped the symbolic execution"""
    def build():
        paths, names = [], {}
        try:
            asts = _decoder_asts(ctx)
            helpers = {k.split('__H_', 1)[1]: v for k, v in asts.items() if '__H_' in k}
            for k, v in list(helpers.items()):
                helpers[_DECODER + '__H_' + k] = v       # clang reports the name after macro replacement
            classes, problems = token_footprint(asts[_DECODER], paths, names, helpers)
        except Unmodellable as x:
            return x
        return classes, problems, paths, names
    res = ctx.memo('sC12.footprint', build)
    if isinstance(res, Unmodellable):
        raise res
    return res


def rule_extent(ctx):
    r = Rule('C12-EXTENT', 'memory footprint of one decoder token, for every token the format can express and every amount of room left in the output: stores stay inside the '
             "token's slice of the output or are bounded by dst_len through the conditions that dominate them, they cover the slice, copies read below their destination with one "
             'displacement, only input bytes that are consumed are read (symbolic execution of the token step on clang\'s AST; copy loops run for every value of the length bytes)', floor=48)
    asts = _decoder_asts(ctx)
    decl = [d for d in ctx.cat.decls.get(_DECODER, []) if d.kind == 'func']
    try:
        classes, problems = _footprint(ctx)[:2]
    except Unmodellable as x:
        raise AnalysisError('C12-EXTENT cannot model the token step of %s: %s' % (_DECODER, x))
    n = 0
    for (kind, nbytes, trace, ex), clauses in sorted(classes.items(), key=repr):
        n += 1
        for c in sorted(clauses):
            r.inst('path%d:%s' % (n, c), sample='%s of %d input byte(s), step %s: %s' % (kind, nbytes, 'returns' if ex == RET else 'continues', c))
    kinds = {k[0] for k in classes}
    if kinds != {'literal', 'back-reference'}:
        raise AnalysisError('C12-EXTENT: the token step of %s has paths for %s only (expected literal and back-reference tokens)' % (_DECODER, sorted(kinds)))
    for clause, kind, msg in problems:
        if clause not in ('return-value', 'stop'):        # reported by C12-LIT / C12-STRUCT
            r.violate('StringTools.%s:%s:%s' % (_DECODER, clause, kind), STC, decl[0].line, '%s: %s' % (_DECODER, msg))
    # positive control: a "wild copy" guarded only for the last token is reported, one whose guards leave room for the surplus (and keep source and destination apart) is not
    try:
        _, bad = token_footprint(asts[_DECODER + '_sa_pc'])
        _, good = token_footprint(asts[_DECODER + '_sa_ok'])
    except Unmodellable as x:
        raise AnalysisError('C12-EXTENT: embedded examples cannot be modelled: %s' % x)
    r.positive_control(any(c == 'write-extent' for c, _, _ in bad) and any(c == 'read-source' for c, _, _ in bad) and not good,
                       'a copy in blocks of 8 guarded by `out_pos + n < dst_len` writes past the buffer; guarded by `out_pos + n + 8 <= dst_len && off + n >= 8` it is accepted')
    return r
