"""C39 helpers: C preprocessor structure of the utility code (no compiler is run).

* `parse_expr` / `evaluate`: the #if expression language (defined(), !, &&, ||, comparisons, integer arithmetic).
* `Sat`: satisfiability / implication of #if conditions by enumeration over small value domains: an identifier ranges over
  {0, 1} and the neighbourhood of every constant it is compared with, `defined(X)` is a boolean tied to X (an undefined
  macro evaluates to 0), function-like tests (`__has_builtin(..)`) are opaque booleans.
* `cpp_lines`: logical preprocessor lines of a C text (comments removed, continuation lines joined) with their line number.
* `cond_stacks`: for every physical line the stack of enclosing conditional groups.
* `must_defined`: forward must-analysis "macro is certainly #defined" over a conditional tree, using what a taken / not
  taken #if condition implies about defined()-ness.
"""
import itertools, re

from ..core import AnalysisError
from ..engine.cutil import strip_c_comments

DIRECTIVE = re.compile(r'^[ \t]*#[ \t]*(if|ifdef|ifndef|elif|else|endif|define|undef)\b(.*)$', re.S)
TOKEN = re.compile(r'\s*(?:(0[xX][0-9a-fA-F]+|\d+)[uUlL]*|([A-Za-z_]\w*)|(&&|\|\||==|!=|<=|>=|<<|>>|[-+*/%!~<>()?:,&|^])|(\'(?:\\.|[^\'])\'))')


class CondError(Exception):
    pass


# ---------------------------------------------------------------------------------------------- expressions
def tokenize(s):
    out, i = [], 0
    s = s.strip()
    while i < len(s):
        m = TOKEN.match(s, i)
        if not m or m.end() == i:
            raise CondError('cannot tokenize %r at %d' % (s, i))
        if m.group(1) is not None:
            out.append(('num', int(m.group(1), 0) if not (m.group(1).startswith('0') and m.group(1).isdigit() and len(m.group(1)) > 1) else int(m.group(1), 8)))
        elif m.group(2) is not None:
            out.append(('id', m.group(2)))
        elif m.group(3) is not None:
            out.append(('op', m.group(3)))
        else:
            out.append(('num', ord(m.group(4)[1:-1][-1])))
        i = m.end()
    return out


BINPREC = [('||',), ('&&',), ('|',), ('^',), ('&',), ('==', '!='), ('<', '<=', '>', '>='), ('<<', '>>'), ('+', '-'), ('*', '/', '%')]


class _P:
    def __init__(self, toks):
        self.t, self.i = toks, 0

    def peek(self):
        return self.t[self.i] if self.i < len(self.t) else (None, None)

    def eat(self, kind=None, val=None):
        k, v = self.peek()
        if k is None or (kind and k != kind) or (val is not None and v != val):
            raise CondError('unexpected token %r' % (v,))
        self.i += 1
        return v

    def expr(self):
        c = self.binary(0)
        if self.peek() == ('op', '?'):
            self.eat()
            a = self.expr()
            self.eat('op', ':')
            b = self.expr()
            return ('tern', c, a, b)
        return c

    def binary(self, lvl):
        if lvl == len(BINPREC):
            return self.unary()
        a = self.binary(lvl + 1)
        while self.peek()[0] == 'op' and self.peek()[1] in BINPREC[lvl]:
            op = self.eat()
            b = self.binary(lvl + 1)
            a = ('bin', op, a, b)
        return a

    def unary(self):
        k, v = self.peek()
        if k == 'op' and v in ('!', '~', '-', '+'):
            self.eat()
            return ('un', v, self.unary())
        if k == 'op' and v == '(':
            self.eat()
            e = self.expr()
            self.eat('op', ')')
            return e
        if k == 'num':
            self.eat()
            return ('num', v)
        if k == 'id':
            self.eat()
            if v == 'defined':
                if self.peek() == ('op', '('):
                    self.eat()
                    n = self.eat('id')
                    self.eat('op', ')')
                else:
                    n = self.eat('id')
                return ('defined', n)
            if self.peek() == ('op', '('):
                # function-like macro test: opaque atom keyed by its text
                depth, parts = 0, [v]
                while True:
                    k2, v2 = self.peek()
                    if k2 is None:
                        raise CondError('unbalanced call')
                    self.eat()
                    parts.append(str(v2))
                    if (k2, v2) == ('op', '('):
                        depth += 1
                    elif (k2, v2) == ('op', ')'):
                        depth -= 1
                        if depth == 0:
                            break
                return ('call', ''.join(parts))
            return ('id', v)
        raise CondError('unexpected token %r' % (v,))


_CACHE = {}


def parse_expr(s):
    s = ' '.join(s.split())
    if s not in _CACHE:
        p = _P(tokenize(s))
        e = p.expr()
        if p.i != len(p.t):
            raise CondError('trailing tokens in %r' % s)
        _CACHE[s] = e
    return _CACHE[s]


def walk(e):
    yield e
    for x in e[1:]:
        if isinstance(x, tuple):
            yield from walk(x)


def evaluate(e, env):
    k = e[0]
    if k == 'num':
        return e[1]
    if k == 'id':
        return env.get(e[1], 0)
    if k == 'defined':
        return 1 if env.get('defined(%s)' % e[1], 0) else 0
    if k == 'call':
        return 1 if env.get(e[1], 0) else 0
    if k == 'un':
        a = evaluate(e[2], env)
        return {'!': int(not a), '~': ~a, '-': -a, '+': a}[e[1]]
    if k == 'tern':
        return evaluate(e[2], env) if evaluate(e[1], env) else evaluate(e[3], env)
    op = e[1]
    if op == '&&':
        return int(bool(evaluate(e[2], env)) and bool(evaluate(e[3], env)))
    if op == '||':
        return int(bool(evaluate(e[2], env)) or bool(evaluate(e[3], env)))
    a, b = evaluate(e[2], env), evaluate(e[3], env)
    if op in ('/', '%'):
        if b == 0:
            return 0
        return int(a / b) if op == '/' else a - b * int(a / b)
    return int({'==': a == b, '!=': a != b, '<': a < b, '<=': a <= b, '>': a > b, '>=': a >= b}[op]) if op in ('==', '!=', '<', '<=', '>', '>=') else \
        {'+': a + b, '-': a - b, '*': a * b, '&': a & b, '|': a | b, '^': a ^ b, '<<': a << min(b, 64) if b >= 0 else 0, '>>': a >> min(b, 64) if b >= 0 else 0}[op]


def implied_defined(e, truth):
    """Macros that are certainly defined when expression e has the given truth value."""
    k = e[0]
    if k == 'defined':
        return {e[1]} if truth else set()
    if k == 'un' and e[1] == '!':
        return implied_defined(e[2], not truth)
    if k == 'bin' and e[1] == '&&':
        a, b = implied_defined(e[2], truth), implied_defined(e[3], truth)
        return a | b if truth else a & b
    if k == 'bin' and e[1] == '||':
        a, b = implied_defined(e[2], truth), implied_defined(e[3], truth)
        return a & b if truth else a | b
    return set()


def branch_expr(kind, rest):
    """AST of the condition of one `#if/#ifdef/#ifndef/#elif` line."""
    rest = rest.strip()
    if kind == 'ifdef':
        return ('defined', rest.split()[0])
    if kind == 'ifndef':
        return ('un', '!', ('defined', rest.split()[0]))
    return parse_expr(rest)


def conj(exprs):
    exprs = list(exprs)
    if not exprs:
        return ('num', 1)
    e = exprs[0]
    for x in exprs[1:]:
        e = ('bin', '&&', e, x)
    return e


def disj(exprs):
    exprs = list(exprs)
    if not exprs:
        return ('num', 0)
    e = exprs[0]
    for x in exprs[1:]:
        e = ('bin', '||', e, x)
    return e


def neg(e):
    return ('un', '!', e)


class Sat:
    """Enumeration-based decision procedure for small #if conditions."""
    LIMIT = 60000

    def __init__(self, exprs):
        ids, defs, calls = {}, set(), set()
        for e in exprs:
            for n in walk(e):
                if n[0] == 'id':
                    ids.setdefault(n[1], {0, 1})
                elif n[0] == 'defined':
                    defs.add(n[1])
                elif n[0] == 'call':
                    calls.add(n[1])
                if n[0] == 'bin' and n[1] in ('==', '!=', '<', '<=', '>', '>='):
                    for a, b in ((n[2], n[3]), (n[3], n[2])):
                        if a[0] == 'id' and b[0] == 'num':
                            ids.setdefault(a[1], {0, 1}).update({b[1] - 1, b[1], b[1] + 1})
                        elif a[0] == 'id':
                            for c in walk(b):
                                if c[0] == 'num':
                                    ids.setdefault(a[1], {0, 1}).update({c[1] - 1, c[1], c[1] + 1})
        self.vars = []
        for k in sorted(ids):
            self.vars.append((k, sorted(ids[k])))
        for d in sorted(defs):
            self.vars.append(('defined(%s)' % d, [0, 1]))
        for c in sorted(calls):
            self.vars.append((c, [0, 1]))
        self.defs = defs
        n = 1
        for _, dom in self.vars:
            n *= len(dom)
        self.size = n

    def decidable(self):
        return self.size <= self.LIMIT

    def models(self):
        names = [k for k, _ in self.vars]
        for vals in itertools.product(*[d for _, d in self.vars]):
            env = dict(zip(names, vals))
            # an undefined macro evaluates to 0
            if any(not env['defined(%s)' % d] and env.get(d, 0) != 0 for d in self.defs):
                continue
            yield env

    def find(self, e):
        """A model of e, or None."""
        for env in self.models():
            if evaluate(e, env):
                return env
        return None


def show_env(env):
    return ', '.join('%s=%s' % (k, hex(v) if isinstance(v, int) and abs(v) > 4096 else v) for k, v in sorted(env.items()) if v) or 'everything 0/undefined'


# ---------------------------------------------------------------------------------------------- lines
def cpp_lines(text):
    """[(line number (1-based, first physical line), directive kind, rest)] of a C text; comments removed, continuations joined."""
    text = strip_c_comments(text)
    phys = text.split('\n')
    out, i = [], 0
    while i < len(phys):
        ln, start = phys[i], i
        while ln.rstrip().endswith('\\') and i + 1 < len(phys):
            i += 1
            ln = ln.rstrip()[:-1] + ' ' + phys[i]
        m = DIRECTIVE.match(ln)
        if m:
            out.append((start + 1, m.group(1), ' '.join(m.group(2).split())))
        i += 1
    return out


def cond_stacks(text):
    """For each physical line index (0-based): tuple of groups, a group = tuple of (kind, rest) branches seen so far
    (the last one is the active branch).  Tempita/percent templates in a condition are kept as text."""
    n = text.count('\n') + 1
    at = [()] * n
    stack = []
    events = {ln: (k, r) for ln, k, r in cpp_lines(text)}
    for i in range(n):
        ev = events.get(i + 1)
        if ev:
            k, r = ev
            if k in ('if', 'ifdef', 'ifndef'):
                stack.append([(k, r)])
            elif k in ('elif', 'else'):
                if stack:
                    stack[-1].append((k, r))
            elif k == 'endif':
                if stack:
                    stack.pop()
        at[i] = tuple(tuple(g) for g in stack)
    return at


def stack_expr(stack):
    """Condition under which a line with this stack of groups is active."""
    parts = []
    for g in stack:
        for k, r in g[:-1]:
            parts.append(neg(branch_expr(k, r)))
        k, r = g[-1]
        if k != 'else':
            parts.append(branch_expr(k, r))
    return conj(parts)


def stack_text(stack):
    return ' / '.join('; '.join(('#%s %s' % (k, r)).strip() for k, r in g) for g in stack) or 'unconditional'


# ---------------------------------------------------------------------------------------------- conditional tree
class Group:
    """One #if ... #endif group: branches = [(kind, rest, line, items)], items = ('define'|'undef', name, line) | Group."""
    def __init__(self, line):
        self.line = line
        self.branches = []


def cond_tree(lines):
    """lines: output of cpp_lines -> list of top-level items."""
    top = []
    stack = [top]
    groups = []
    for ln, k, r in lines:
        if k in ('if', 'ifdef', 'ifndef'):
            g = Group(ln)
            stack[-1].append(g)
            g.branches.append((k, r, ln, []))
            groups.append(g)
            stack.append(g.branches[-1][3])
        elif k in ('elif', 'else'):
            if not groups:
                raise AnalysisError('#%s without #if at line %d' % (k, ln))
            stack.pop()
            groups[-1].branches.append((k, r, ln, []))
            stack.append(groups[-1].branches[-1][3])
        elif k == 'endif':
            if not groups:
                raise AnalysisError('#endif without #if at line %d' % ln)
            stack.pop()
            groups.pop()
        else:
            m = re.match(r'([A-Za-z_]\w*)', r)
            if m:
                stack[-1].append((k, m.group(1), ln))
    if groups:
        raise AnalysisError('unterminated #if at line %d' % groups[-1].line)
    return top


def must_defined(items, state):
    """Set of macros certainly defined after executing `items` starting from `state` (a set)."""
    state = set(state)
    for it in items:
        if isinstance(it, Group):
            outs = []
            known_false = set()      # defined-facts from earlier branch conditions being false
            has_else = False
            for k, r, ln, sub in it.branches:
                if k == 'else':
                    has_else = True
                    outs.append(must_defined(sub, state | known_false))
                    continue
                try:
                    e = branch_expr(k, r)
                except CondError:
                    e = ('call', r)
                outs.append(must_defined(sub, state | known_false | implied_defined(e, True)))
                known_false |= implied_defined(e, False)
            if not has_else:
                outs.append(state | known_false)
            st = outs[0]
            for o in outs[1:]:
                st = st & o
            state = st
        elif it[0] == 'define':
            state.add(it[1])
        elif it[0] == 'undef':
            state.discard(it[1])
    return state


def may_defined(items):
    out = set()
    for it in items:
        if isinstance(it, Group):
            for _, _, _, sub in it.branches:
                out |= may_defined(sub)
        elif it[0] == 'define':
            out.add(it[1])
    return out


# ---------------------------------------------------------------------------------------------- value tests of macros
def value_ids(e, known, out):
    """Identifiers whose *value* expression e reads while they are not known to be defined -> appended to out."""
    k = e[0]
    if k == 'id':
        if e[1] not in known:
            out.append(e[1])
    elif k == 'bin' and e[1] in ('&&', '||'):
        value_ids(e[2], known, out)
        value_ids(e[3], known | implied_defined(e[2], e[1] == '&&'), out)
    elif k == 'tern':
        value_ids(e[1], known, out)
        value_ids(e[2], known | implied_defined(e[1], True), out)
        value_ids(e[3], known | implied_defined(e[1], False), out)
    elif k in ('un', 'bin'):
        for x in e[2:] if k == 'un' else e[2:]:
            if isinstance(x, tuple):
                value_ids(x, known, out)


def unguarded_value_tests(items, state, out, bad):
    """Walks a conditional tree like must_defined and records (macro, line, '#if text') for every identifier whose value
    an #if/#elif reads at a point where it is not certainly defined (by an earlier #define of the same text or by a
    defined()-guard in the same or an enclosing condition).  Unparsable conditions (templates) are appended to `bad`."""
    state = set(state)
    for it in items:
        if isinstance(it, Group):
            outs, known_false, has_else = [], set(), False
            for k, r, ln, sub in it.branches:
                if k == 'else':
                    has_else = True
                    outs.append(unguarded_value_tests(sub, state | known_false, out, bad))
                    continue
                try:
                    e = branch_expr(k, r)
                except (CondError, IndexError):
                    bad.append((ln, r))
                    e = ('call', r)
                ids = []
                value_ids(e, state | known_false, ids)
                for m in ids:
                    out.append((m, ln, '#%s %s' % (k, r)))
                outs.append(unguarded_value_tests(sub, state | known_false | implied_defined(e, True), out, bad))
                known_false |= implied_defined(e, False)
            if not has_else:
                outs.append(state | known_false)
            st = outs[0]
            for o in outs[1:]:
                st = st & o
            state = st
        elif it[0] == 'define':
            state.add(it[1])
        elif it[0] == 'undef':
            state.discard(it[1])
    return state
