"""C01, a rule written from a deviation of the unmodified tree in the boolean operators (`not` of a cascaded comparison).

  C01-NEGCMP   *What does a transform put in the place of `not X`?*  Every tree transform whose dispatch selects a handler written for
               UnopNode / NotNode (not the generic visit_Node / visit_ExprNode) is run, by the tree-builder interpreter of rules/pC01.py, on the
               symbolic node `not X` for a COMPLETE partition of the operand X:
                 * one comparison `a OP b` for each of the ten comparison operators,
                 * a cascade `a OP1 b OP2 c` for every pair of operators (100) and `a OP1 b OP2 c OP3 d` over one operator of each family,
                 * `a and b`, `a or b`, a plain operand.
               The node the handler returns (the same node, possibly with changed attributes, a copy, or a built tree) is given the reference
               semantics of NotNode / PrimaryCmpNode + CascadedCmpNode / BoolBinopNode / BoolNode and compared with `not X` for EVERY outcome of
               the comparisons involved: same truth value, same operand evaluations and same rich comparisons / containment tests in the same
               order.  The outcome domain is exact for object operands: `in` / `not_in` are one test and its negation, `is` / `is_not` likewise
               (and have no side effect), `==`, `!=`, `<`, `<=`, `>`, `>=` are six independent tests (rich comparison methods are unrelated).
               Deviation: ConstantFolding._handle_NotNode replaced the first operator of `not (a in b in c)` by its negation and kept the
               cascade: `a not_in b in c` = `(a not in b) and (b in c)` instead of `(a not in b) or (b not in c)`.

Repository *code* is interpreted by the checker's own evaluator (nothing is imported or executed); a construct the evaluator does not model is an
ANALYSIS-ERROR for the constant folder (which is known to rewrite `not`) and an info line for any other transform, never a verdict.

Assumptions (not decided here): calls of `self.visit...(built node)` / `visitchildren` from inside the handler give back a node with the meaning of
their argument (the handler for the built node is another obligation); `_calculate_const` only annotates; `node.has_constant_result()` is unknown
(both ways) for the symbolic operands, which are not literals.  Typed (C) comparisons have the same truth tables with dependent atoms, so every
rewrite that is right for objects is right for them; the converse rewrites (`not a == b` -> `a != b` for C operands) would need the operand
types and are reported as not decided only if a handler ever asks for them.

No rule for the second deviation of the session (`(a or b) and c` asks for the truth of `a` once, CPython 3.12 twice): the number of truth tests of one
operand is not fixed by the language - CPython 2.7 .. 3.11 test once like the generated code, 3.12+ twice in value context and once in a condition -
so it is not a necessary condition of C01; what is fixed (order of operand evaluation, operand returned) is decided by C01-SKEL.

Mutants (stored with patch and outcome in /tmp/defects/D9/mutants/<name>/, relative to the repaired tree), all in Cython/Compiler/Optimize.py:
  reported   negcmp-cascade-unguarded (cascade test dropped), negcmp-guard-inverted (`is not None`), negcmp-cascade-all-negated (every operator of the chain
             negated, chain kept), negcmp-table-eq ('==' <-> '!=' added to the table), negcmp-table-lt ('<' -> '>='), negcmp-table-cross ('is' -> 'not_in'),
             negcmp-table-same ('not_in' -> 'not_in': the `not` is lost), negcmp-inplace-keepnot (operator negated in place, NotNode kept),
             negcmp-boolop-demorgan (`not (a and b)` -> `a or b`), negcmp-operands-swapped (`b is not a`: evaluation order)
  silent     ok-negcmp-early-return (renamed locals, early returns, if-chain for the table), ok-negcmp-helper (rewrite extracted into a helper, table
             used with `in` + subscript), ok-negcmp-built-node (PrimaryCmpNode constructor instead of copy.copy, truth test of .cascade)

Registration: in props/C01.py `from ..rules import dD9` and `dD9.rule_negcmp(ctx)` in the list run() returns.
"""
import ast

from ..core import Rule, AnalysisError
from .pC01 import TB, SNode, BNode, Opaque, Closure, Env, BoundMethod, TBGiveUp, _Fork, _Raise, _Break, _Continue, self_node, node_src

MAX_PATHS = 256


# ====================================================================================================================== evaluator glue
class _Owner:
    """all methods / class attributes a transform class sees (own and inherited), in the form the tree-builder interpreter expects"""

    def __init__(self, ix, cls):
        self.name = cls.name
        self.methods, self.attrs = {}, {}
        for k in reversed(ix.mro(cls)):
            self.methods.update(k.methods)
            for a, v in k.attrs.items():
                self.methods.pop(a, None)
                self.attrs[a] = v
            for a in k.methods:
                self.attrs.pop(a, None)


class _MiniOwner(_Owner):
    def __init__(self, cdef):
        self.name = cdef.name
        self.methods = {s.name: s for s in cdef.body if isinstance(s, ast.FunctionDef)}
        self.attrs = {}
        for s in cdef.body:
            if isinstance(s, ast.Assign) and len(s.targets) == 1 and isinstance(s.targets[0], ast.Name):
                self.attrs[s.targets[0].id] = s.value


class TB9(TB):
    """pC01.TB + shallow `copy.copy(node)`, class-level tables of the visitor (`_negate_operator = {...}.get`), while loops"""

    def getattr(self, v, attr, text=''):
        if isinstance(v, SNode) and v.cls == '<self>' and self.owner is not None and attr not in self.owner.methods and attr not in v.facts \
                and attr in getattr(self.owner, 'attrs', {}):
            val = self.owner.attrs[attr]
            if isinstance(val, ast.AST):
                return self.ev(val, Env())
        return TB.getattr(self, v, attr, text)

    def _is_stdlib_copy(self):
        imp = getattr(self.module, 'imports', {}).get('copy')
        return imp is None or (imp[0] == 'module' and imp[1] == 'copy')

    def call(self, f, args, kw, n):
        if isinstance(f, Opaque) and f.what in ('copy.copy', 'copy') and len(args) == 1 and not kw and self._is_stdlib_copy():
            src = args[0]
            if isinstance(src, SNode):
                s = SNode(src.label + "'", src.facts, src.cls)       # SNode() copies the dictionary: a shallow copy, children are shared
                s.copy_of = src
                return s
            if isinstance(src, BNode):
                b = BNode(src.cls, src.fields, src.args, src.lineno)
                b.copy_of = src
                return b
            raise TBGiveUp('copy of %r' % (src,))
        return TB.call(self, f, args, kw, n)

    def stmt(self, s, env):
        if isinstance(s, ast.While):
            n = 0
            broke = False
            while self.truth(self.ev(s.test, env), node_src(s.test, 80)):
                n += 1
                if n > 50:
                    raise TBGiveUp('while loop does not end on the symbolic input')
                try:
                    self.block(s.body, env)
                except _Break:
                    broke = True
                    break
                except _Continue:
                    continue
            if not broke:
                self.block(s.orelse, env)
            return
        return TB.stmt(self, s, env)


def _identity(tb, args, kw):
    return args[0] if args else None


def _none(tb, args, kw):
    return None


def _stubs(owner, entry):
    st = {}
    for name in owner.methods:
        if name == 'visit' or (name.startswith('visit_') and name != entry) or name in ('visitchild',):
            st[name] = _identity
    for name in ('visitchildren', '_process_children', '_calculate_const', 'recurse_to_children'):
        st[name] = _none
    st['visit'] = _identity
    return st


def explore9(ix, module, owner, fn, make_args, stubs, limit=MAX_PATHS):
    """like pC01.explore, with the extended interpreter; the symbolic input is rebuilt for every path"""
    out, todo, n = [], [dict()], 0
    while todo:
        d = todo.pop()
        n += 1
        if n > limit:
            raise TBGiveUp('%s: more than %d paths' % (fn.name, limit))
        tb = TB9(ix, module, d, owner, stubs)
        args, kw = make_args()
        try:
            v = tb.invoke(Closure(fn, Env(), owner), args, kw)
            out.append((d, ('return', v)))
        except _Fork as f:
            for b in (True, False):
                d2 = dict(d)
                d2[f.key] = b
                todo.append(d2)
        except _Raise as r:
            out.append((d, ('raise', r.name)))
    return out


# ====================================================================================================================== the operand domain
CMP_OPERATORS = ('==', '!=', '<', '<=', '>', '>=', 'is', 'is_not', 'in', 'not_in')
# operator -> (test that is performed, result is the negation of the test, the test can run user code)
CMP_TEST = {'==': ('==', False, True), '!=': ('!=', False, True), '<': ('<', False, True), '<=': ('<=', False, True), '>': ('>', False, True),
            '>=': ('>=', False, True), 'is': ('is', False, False), 'is_not': ('is', True, False), 'in': ('in', False, True), 'not_in': ('in', True, True)}
FAMILY_REPRESENTATIVES = ('in', 'is_not', '==', '<')
SOURCE_OP = {'is_not': 'is not', 'not_in': 'not in'}


def _leaf(name):
    return SNode(name, {'leaf9': name, 'is_literal': False, 'cascade': None}, cls='NameNode')


def _cmp_operand(ops):
    """a OP1 b OP2 c ...  as the parser builds it: PrimaryCmpNode(operand1, operator, operand2, cascade=CascadedCmpNode(operator, operand2, cascade))"""
    names = 'abcdefgh'
    leaves = [_leaf(names[i]) for i in range(len(ops) + 1)]
    cascade = None
    for i in range(len(ops) - 1, 0, -1):
        cascade = SNode('cascade%d' % i, {'operator': ops[i], 'operand2': leaves[i + 1], 'cascade': cascade, 'is_literal': False}, cls='CascadedCmpNode')
    return SNode('cmp', {'operator': ops[0], 'operand1': leaves[0], 'operand2': leaves[1], 'cascade': cascade, 'is_literal': False}, cls='PrimaryCmpNode')


def _boolop_operand(op):
    return SNode('boolop', {'operator': op, 'operand1': _leaf('a'), 'operand2': _leaf('b'), 'is_literal': False}, cls='BoolBinopNode')


def operand_shapes():
    """-> [(kind, text, builder)]: the complete partition of operands of `not`"""
    out = []
    for op in CMP_OPERATORS:
        out.append(('single', 'a %s b' % SOURCE_OP.get(op, op), lambda op=op: _cmp_operand([op])))
    for op1 in CMP_OPERATORS:
        for op2 in CMP_OPERATORS:
            out.append(('cascade', 'a %s b %s c' % (SOURCE_OP.get(op1, op1), SOURCE_OP.get(op2, op2)), lambda o=(op1, op2): _cmp_operand(list(o))))
    for op1 in FAMILY_REPRESENTATIVES:
        for op2 in FAMILY_REPRESENTATIVES:
            for op3 in FAMILY_REPRESENTATIVES:
                out.append(('cascade', 'a %s b %s c %s d' % tuple(SOURCE_OP.get(o, o) for o in (op1, op2, op3)), lambda o=(op1, op2, op3): _cmp_operand(list(o))))
    for op in ('and', 'or'):
        out.append(('boolop', 'a %s b' % op, lambda op=op: _boolop_operand(op)))
    out.append(('plain', 'a', lambda: _leaf('a')))
    return out


def _not_node(operand):
    return SNode('not', {'operator': '!', 'operand': operand, 'is_literal': False}, cls='NotNode')


# ====================================================================================================================== reference semantics
class Undecidable(Exception):
    pass


class BadTree(Exception):
    """the built tree is not a well-formed expression (a finding, not an analysis error)"""


class _Need(Exception):
    def __init__(self, key):
        self.key = key


class Sem:
    """truth value of a (built or symbolic) expression tree under one outcome of its tests + the trace of observable steps"""

    def __init__(self, outcome):
        self.outcome = outcome
        self.trace = []

    def atom(self, key):
        if key not in self.outcome:
            raise _Need(key)
        return self.outcome[key]

    @staticmethod
    def cls_of(v):
        return v.cls if isinstance(v, (SNode, BNode)) else None

    @staticmethod
    def field(v, name, default=None):
        d = v.facts if isinstance(v, SNode) else v.fields
        return d.get(name, default)

    def value(self, v):
        """evaluate an operand expression -> its identity (label)"""
        if isinstance(v, SNode) and 'leaf9' in v.facts:
            self.trace.append(('eval', v.facts['leaf9']))
            return v.facts['leaf9']
        raise Undecidable('operand %r of a comparison is not one of the symbolic operands' % (v,))

    def compare(self, op, x, y):
        if not isinstance(op, str) or op not in CMP_TEST:
            raise BadTree('comparison operator %r' % (op,))
        test, negated, effect = CMP_TEST[op]
        if effect:
            self.trace.append(('test', test, x, y))
        r = self.atom((test,) + (tuple(sorted((x, y))) if test == 'is' else (x, y)))       # identity is symmetric
        return (not r) if negated else r

    def truth(self, v):
        c = self.cls_of(v)
        if isinstance(v, SNode) and 'leaf9' in v.facts:
            x = self.value(v)
            self.trace.append(('bool', x))
            return self.atom(('bool', x))
        if c == 'NotNode':
            return not self.truth(self.field(v, 'operand'))
        if c == 'PrimaryCmpNode':
            left = self.value(self.field(v, 'operand1'))
            node = v
            seen = 0
            while node is not None:
                seen += 1
                if seen > 12:
                    raise BadTree('the comparison cascade is cyclic')
                if self.cls_of(node) not in ('PrimaryCmpNode', 'CascadedCmpNode'):
                    raise BadTree('%r in a comparison cascade' % (node,))
                right = self.value(self.field(node, 'operand2'))
                if not self.compare(self.field(node, 'operator'), left, right):
                    return False
                left = right
                node = self.field(node, 'cascade')
            return True
        if c == 'BoolBinopNode':
            op = self.field(v, 'operator')
            if op not in ('and', 'or'):
                raise BadTree('boolean operator %r' % (op,))
            t = self.truth(self.field(v, 'operand1'))
            if (op == 'and') != t:
                return t
            return self.truth(self.field(v, 'operand2'))
        if c == 'BoolNode' and isinstance(self.field(v, 'value'), bool):
            return self.field(v, 'value')
        if c == 'CondExprNode':
            return self.truth(self.field(v, 'true_val') if self.truth(self.field(v, 'test')) else self.field(v, 'false_val'))
        if v is None:
            raise BadTree('None in the place of an expression')
        raise Undecidable('node %r is outside the modelled classes (NotNode, PrimaryCmpNode, CascadedCmpNode, BoolBinopNode, BoolNode, CondExprNode)' % (v,))


def _outcomes(run):
    """run(Sem) for every outcome of the tests it asks for -> [(outcome, result)]"""
    out, todo = [], [dict()]
    while todo:
        d = todo.pop()
        if len(out) + len(todo) > 4096:
            raise Undecidable('too many outcomes')
        try:
            out.append((d, run(d)))
        except _Need as k:
            for b in (False, True):
                d2 = dict(d)
                d2[k.key] = b
                todo.append(d2)
    return out


def _show_trace(tr):
    parts = []
    for t in tr:
        if t[0] == 'eval':
            parts.append(t[1])
        elif t[0] == 'bool':
            parts.append('bool(%s)' % t[1])
        else:
            parts.append('%s %s %s' % (t[2], t[1], t[3]))
    return ', '.join(parts)


def _show_outcome(d):
    return ', '.join('%s is %s' % ('bool(%s)' % k[1] if k[0] == 'bool' else '(%s %s %s)' % (k[1], k[0], k[2]), v) for k, v in sorted(d.items(), key=repr)) or 'any'


def negation_problems(original_operand, result):
    """compare `result` with `not original_operand` -> [(kind, message)]   kind: value | order | tree"""
    def run(outcome):
        ref = Sem(outcome)
        want = not ref.truth(original_operand)
        got_sem = Sem(outcome)
        try:
            got = got_sem.truth(result)
        except BadTree as e:
            return ('tree', str(e), None, None)
        return (want, ref.trace, got, got_sem.trace)
    probs = {}
    for d, res in _outcomes(run):
        if res[0] == 'tree':
            probs.setdefault('tree', 'the replacement is not a well-formed expression: %s' % res[1])
            continue
        want, rtrace, got, gtrace = res
        if want != got:
            probs.setdefault('value', 'when %s the replacement is %s, `not ...` is %s' % (_show_outcome(d), got, want))
        elif rtrace != gtrace:
            probs.setdefault('order', 'when %s the replacement performs [%s], the source performs [%s]' % (_show_outcome(d), _show_trace(gtrace), _show_trace(rtrace)))
    return sorted(probs.items())


# ====================================================================================================================== the rule
def _not_handlers(ix):
    """(transform class, node class the handler is written for, owner class of the handler, FunctionDef) for every transform whose dispatch for a
    NotNode selects a handler below ExprNode"""
    notnode = ix.cls('ExprNodes', 'NotNode')
    root = ix.cls('Visitor', 'VisitorTransform')     # only a transform puts what its handler returns into the tree
    generic = {'Node', 'ExprNode', 'object'}
    out = []
    for vis in [root] + ix.subclasses(root):
        if not vis.module.name.startswith('Cython.Compiler'):
            continue
        h = ix.visitor_handler(vis, notnode)
        if h is None:
            continue
        for_cls, owner, fn = h
        if for_cls.name in generic:
            continue
        out.append((vis, for_cls, owner, fn))
    return out


def _check_handler(r, ix, vis, owner_info, fn, module, rel, shapes, strict, reported):
    """-> number of operand shapes the handler rewrote"""
    owner = owner_info
    stubs = _stubs(owner, fn.name)
    rewritten = 0
    for kind, text, build in shapes:
        key = '%s.%s:not(%s)' % (vis, fn.name, text)
        holder = {}

        def make_args():
            holder['operand'] = build()
            holder['node'] = _not_node(holder['operand'])
            return [self_node(), holder['node']], {}
        try:
            outs = explore9(ix, module, owner, fn, make_args, stubs, MAX_PATHS if strict else 64)
        except TBGiveUp as e:
            if strict:
                raise AnalysisError('%s: %s.%s leaves the modelled subset of the tree-builder interpreter for `not (%s)`: %s' % (r.id, vis, fn.name, text, e))
            msg = '%s.%s is not decided (first at `not (%s)`): %s' % (vis, fn.name, text, e)
            if msg not in r.infos:
                r.info(msg)
            return rewritten
        changed = 0
        for d, (okind, v) in outs:
            # the input of THIS path: rebuild and re-run is not needed, explore9 hands every path its own fresh input; the operand the
            # reference is computed from is a fresh one of the same shape (labels are equal, attributes untouched)
            fkind = None
            if okind == 'raise':
                fkind, msg = 'raises', 'raises %s (compiler crash)' % v
            elif v is None:
                fkind, msg = 'none', 'returns None: the expression disappears from the tree'
            elif isinstance(v, Opaque):
                if strict:
                    raise AnalysisError('%s: %s.%s returns %r for `not (%s)`: not a tree the checker can read' % (r.id, vis, fn.name, v, text))
                r.info('%s.%s is not decided for `not (%s)`: returns %r' % (vis, fn.name, text, v))
                continue
            else:
                try:
                    probs = negation_problems(build(), v)
                except Undecidable as e:
                    if strict:
                        raise AnalysisError('%s: the node %s.%s returns for `not (%s)` cannot be read: %s' % (r.id, vis, fn.name, text, e))
                    r.info('%s.%s is not decided for `not (%s)`: %s' % (vis, fn.name, text, e))
                    continue
                if not (isinstance(v, SNode) and v.label == 'not'):
                    changed += 1
                for pk, pmsg in probs:
                    fkey = '%s.%s:%s:%s' % (vis, fn.name, kind, pk)
                    if fkey not in reported:
                        reported.add(fkey)
                        r.violate(fkey, rel, fn.lineno, '%s.%s replaces `not (%s)` by %s: %s' % (vis, fn.name, text, _describe(v), pmsg))
                continue
            fkey = '%s.%s:%s:%s' % (vis, fn.name, kind, fkind)
            if fkey not in reported:
                reported.add(fkey)
                r.violate(fkey, rel, fn.lineno, '%s.%s %s for `not (%s)`' % (vis, fn.name, msg, text))
        rewritten += 1 if changed else 0
        r.inst(key, sample='%s: %d path(s), %d replace the node' % (key, len(outs), changed), nontrivial=True)
    return rewritten


def _describe(v, depth=0):
    if depth > 8:
        return '...'
    if isinstance(v, SNode) and 'leaf9' in v.facts:
        return v.facts['leaf9']
    c = Sem.cls_of(v)
    f = lambda n: Sem.field(v, n)
    if c == 'NotNode':
        return 'not (%s)' % _describe(f('operand'), depth + 1)
    if c == 'PrimaryCmpNode':
        s = _describe(f('operand1'), depth + 1)
        node = v
        n = 0
        while node is not None and Sem.cls_of(node) in ('PrimaryCmpNode', 'CascadedCmpNode') and n < 8:
            n += 1
            op = Sem.field(node, 'operator')
            s += ' %s %s' % (SOURCE_OP.get(op, op), _describe(Sem.field(node, 'operand2'), depth + 1))
            node = Sem.field(node, 'cascade')
        return '`%s`' % s if depth == 0 else s
    if c == 'BoolBinopNode':
        return '(%s %s %s)' % (_describe(f('operand1'), depth + 1), f('operator'), _describe(f('operand2'), depth + 1))
    if c == 'BoolNode':
        return repr(f('value'))
    return repr(v)


PC_NEGCMP = '''
class K:
    _flip = {'in': 'not_in', 'not_in': 'in', 'is': 'is_not', 'is_not': 'is'}.get
    def visit_UnopNode(self, node):
        if node.operator == '!' and isinstance(node.operand, ExprNodes.PrimaryCmpNode):
            flipped = self._flip(node.operand.operator)
            if flipped:
                node = copy.copy(node.operand)
                node.operator = flipped
        return node
'''


def rule_negcmp(ctx, rid='C01-NEGCMP', floor=150):
    r = Rule(rid, 'what a tree transform puts in the place of `not X` (X: every comparison operator, every two-operator cascade, three-operator cascades over the '
             'operator families, and / or, a plain operand) has the truth value of `not X` and performs the same operand evaluations and tests in the same order, for '
             'every outcome of the tests', floor)
    ix = ctx.index
    shapes = operand_shapes()
    handlers = _not_handlers(ix)
    if not any(vis.name == 'ConstantFolding' for vis, _, _, _ in handlers):
        raise AnalysisError('%s: ConstantFolding has no handler for NotNode / UnopNode any more (anchor of the rule)' % rid)
    reported = set()
    seen_fn = {}
    for vis, for_cls, owner, fn in sorted(handlers, key=lambda h: (h[0].module.name, h[0].name)):
        # a handler inherited unchanged by several transforms is one construct: evaluated once, for the class that defines it - unless a subclass
        # overrides something it calls (then the subclass is evaluated as well)
        merged = _Owner(ix, vis)
        called = _called_self_methods(fn, merged)
        sig = (id(fn), tuple(sorted((n, id(merged.methods[n])) for n in called)))
        if sig in seen_fn:
            continue
        seen_fn[sig] = vis.name
        strict = vis.name == 'ConstantFolding'
        n = _check_handler(r, ix, owner.name, merged, fn, owner.module, owner.module.rel, shapes, strict, reported)
        if strict and n == 0:
            r.info('ConstantFolding.%s rewrites no `not X` any more' % fn.name)
    # positive control: the rewrite without the look at the cascade
    pc = _MiniOwner(ast.parse(PC_NEGCMP).body[0])
    rp = Rule(rid + '-pc', '', 0)
    _check_handler(rp, ix, 'K', pc, pc.methods['visit_UnopNode'], ix.mod('Optimize'), '<embedded>', [s for s in shapes if s[1] in ('a in b in c', 'a is b', 'a not in b')], True, set())
    keys = {f.construct for f in rp.findings}
    r.positive_control('K.visit_UnopNode:cascade:value' in keys and not any(':single:' in k for k in keys), '`not (a in b in c)` -> `a not in b in c` is reported, `not (a is b)` -> `a is not b` is not (found: %s)' % sorted(keys))
    return r


def _called_self_methods(fn, owner, depth=0, seen=None):
    seen = set() if seen is None else seen
    for n in ast.walk(fn):
        if isinstance(n, ast.Attribute) and isinstance(n.value, ast.Name) and n.value.id == 'self' and n.attr in owner.methods and n.attr not in seen:
            seen.add(n.attr)
            if depth < 3:
                _called_self_methods(owner.methods[n.attr], owner, depth + 1, seen)
    return seen
