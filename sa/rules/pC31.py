"""Rules for C31 — match statements (MatchCaseNodes.py / MatchCase.c / FlowControl.visit_MatchNode).

C31-L7    abstract hooks of PatternNode are overridden (with a compatible arity) in every pattern class the parser creates
C31-TEMPS every pattern class with sub-patterns forwards the three subject-temp hooks to all of its sub-pattern lists
C31-FWD   variadic forwarding macros of MatchCase.c: passed + injected arguments == parameters of the real function, categories agree
C31-SEC   every __Pyx_MatchCase_* helper called through PythonCapiCallNode is declared by the utility section attached to that call
C31-CFA   control-flow analysis of match statements: case classes are dispatched, capture targets are not visited as reads,
          bindings/guard/body are visited in the order they are generated
"""
import ast, re

from ..core import Rule, AnalysisError, node_src
from ..engine.pyindex import walk_no_nested, is_self_attr
from . import typed
from .iface import local_env

MOD = 'MatchCaseNodes'
PREFIX = '__Pyx_MatchCase_'


def _nodoc(fn):
    return [s for s in fn.body if not (isinstance(s, ast.Expr) and isinstance(s.value, ast.Constant))]


def _is_abstract(fn):
    """Body ends in `raise NotImplementedError` and otherwise only reports an error."""
    body = _nodoc(fn)
    if not body or not isinstance(body[-1], ast.Raise) or body[-1].exc is None:
        return False
    if 'NotImplementedError' not in ast.unparse(body[-1].exc):
        return False
    return all(isinstance(s, ast.Expr) and isinstance(s.value, ast.Call) for s in body[:-1])


def _returns_const(fn, value):
    body = _nodoc(fn)
    return len(body) == 1 and isinstance(body[0], ast.Return) and isinstance(body[0].value, ast.Constant) and body[0].value.value is value


def pattern_classes(ctx):
    """(PatternNode, [concrete subclasses the parser instantiates])."""
    ix = ctx.index
    base = ix.cls(MOD, 'PatternNode')
    subs = {c.name: c for c in ix.subclasses(base)}
    if len(subs) < 4:
        raise AnalysisError('PatternNode has only %d subclasses' % len(subs))
    pm = ix.mod('Parsing')
    made = set()
    for n in ast.walk(pm.tree):
        if isinstance(n, ast.Call):
            nm = n.func.attr if isinstance(n.func, ast.Attribute) else n.func.id if isinstance(n.func, ast.Name) else None
            if nm in subs:
                made.add(nm)
    if len(made) < 4:
        raise AnalysisError('Parsing.py instantiates only %d PatternNode subclasses (%s)' % (len(made), sorted(made)))
    return base, [subs[n] for n in sorted(made)]


def _accepts(fn, npos, kwnames=()):
    a = fn.args
    params = [x.arg for x in a.posonlyargs + a.args][1:]
    if npos > len(params) and a.vararg is None:
        return False
    required = len(params) - len(a.defaults)
    given = set(params[:npos]) | set(kwnames)
    if any(k not in params and k not in [x.arg for x in a.kwonlyargs] for k in kwnames) and a.kwarg is None:
        return False
    return all(p in given for p in params[:required])


# ====================================================================================== C31-L7
def rule_hooks(ctx):
    ix = ctx.index
    base, concrete = pattern_classes(ctx)
    m = ix.mod(MOD)
    r = Rule('C31-L7', 'abstract hooks of PatternNode (raise NotImplementedError) are overridden, with an arity the polymorphic call sites can use, '
             'in every pattern class the parser instantiates', floor=75)
    abstract = {name for name, fn in base.methods.items() if _is_abstract(fn)}
    if len(abstract) < 3:
        raise AnalysisError('PatternNode has only %d abstract hooks (%s)' % (len(abstract), sorted(abstract)))
    case = m.classes.get('MatchCaseNode')
    if case is None:
        raise AnalysisError('MatchCaseNodes.MatchCaseNode vanished')
    # hooks the case node calls on its pattern unconditionally (through non-abstract template methods of the base)
    called = set()
    for fn in case.methods.values():
        for n in walk_no_nested(fn):
            if isinstance(n, ast.Call) and isinstance(n.func, ast.Attribute) and is_self_attr(n.func.value) and n.func.value.attr == 'pattern':
                called.add(n.func.attr)
    required, todo, seen = set(), list(called), set()
    while todo:
        h = todo.pop()
        if h in seen:
            continue
        seen.add(h)
        if h in abstract:
            required.add(h)
        elif h in base.methods:
            for n in walk_no_nested(base.methods[h]):
                if isinstance(n, ast.Call) and is_self_attr(n.func):
                    todo.append(n.func.attr)
    if not required:
        raise AnalysisError('MatchCaseNode no longer calls an abstract PatternNode hook on self.pattern')
    # conditional hooks: guarded by a predicate at their polymorphic call sites  `if c.P(): ... c.pattern.H(...)`
    guards = {}
    for qn, owner, fn in ix.functions_of(m):
        for i in walk_no_nested(fn):
            if not isinstance(i, ast.If):
                continue
            preds = [c.func.attr for c in ast.walk(i.test) if isinstance(c, ast.Call) and isinstance(c.func, ast.Attribute) and not c.args]
            if not preds:
                continue
            for s in i.body:
                for c in ast.walk(s):
                    if isinstance(c, ast.Call) and isinstance(c.func, ast.Attribute) and c.func.attr in abstract - required and \
                            not (isinstance(c.func.value, ast.Name) and c.func.value.id == 'self'):
                        guards.setdefault(c.func.attr, set()).update(preds)
    for h in sorted(abstract):
        for c in concrete:
            impl = ix.find_method(c, h)
            key = 'MatchCaseNodes.%s.%s' % (c.name, h)
            if h in required:
                r.inst(key, sample='%s -> %s' % (key, impl[0].name if impl else None))
                if impl is None or _is_abstract(impl[1]):
                    r.violate(key, c.module.rel, c.node.lineno,
                              'pattern class %s (created by the parser) does not override PatternNode.%s, which raises NotImplementedError: '
                              'every match statement using this kind of pattern crashes the compiler' % (c.name, h))
            else:
                preds = [p for p in guards.get(h, ()) if p in base.methods and _returns_const(base.methods[p], False)]
                if not preds:
                    r.info('%s: no guarding predicate found for conditional hook %s' % (key, h))
                    continue
                enabled = [p for p in preds if not _returns_const(ix.find_method(c, p)[1], False)]
                r.inst(key, sample='%s guarded by %s (%s)' % (key, preds, 'can be true' if enabled else 'always False'), nontrivial=bool(enabled))
                if enabled and (impl is None or _is_abstract(impl[1])):
                    r.violate(key, c.module.rel, c.node.lineno,
                              'pattern class %s overrides %s() so that it can return True, but inherits the abstract PatternNode.%s that is called exactly then: '
                              'NotImplementedError inside the compiler' % (c.name, enabled[0], h))
    # arity at polymorphic call sites
    for qn, owner, fn in ix.functions_of(m):
        for n in walk_no_nested(fn):
            if isinstance(n, ast.Call) and isinstance(n.func, ast.Attribute) and n.func.attr in abstract and \
                    not (isinstance(n.func.value, ast.Call) and isinstance(n.func.value.func, ast.Name) and n.func.value.func.id == 'super'):
                if any(isinstance(a, ast.Starred) for a in n.args) or any(k.arg is None for k in n.keywords):
                    continue
                self_call = isinstance(n.func.value, ast.Name) and n.func.value.id == 'self'
                targets = [owner] if (self_call and owner is not None and owner in concrete) else ([] if self_call else concrete)
                for c in targets:
                    impl = ix.find_method(c, n.func.attr)
                    if impl is None or _is_abstract(impl[1]):
                        continue
                    key = 'MatchCaseNodes.%s.%s@%s/%d' % (c.name, n.func.attr, qn, len(n.args))
                    r.inst(key, sample=key)
                    if not _accepts(impl[1], len(n.args), [k.arg for k in n.keywords]):
                        r.violate(key, m.rel, n.lineno,
                                  '%s calls %s with %d positional argument(s)%s but %s.%s%s does not accept that: TypeError inside the compiler for this pattern kind' % (
                                      qn, node_src(n.func, 50), len(n.args), (' and keywords %s' % [k.arg for k in n.keywords]) if n.keywords else '',
                                      impl[0].name, n.func.attr, '(%s)' % ', '.join(a.arg for a in impl[1].args.args)))
    pc = ast.parse("def get_main_pattern_targets(self):\n    # exclude as target\n    raise NotImplementedError\n").body[0]
    pc2 = ast.parse("def get_comparison_node(self, subject_node):\n    return None\n").body[0]
    r.positive_control(_is_abstract(pc) and not _accepts(pc2, 2), 'inherited abstract hook / override with too few parameters')
    return r


# ====================================================================================== C31-TEMPS
def _loops_over_self_attrs(fn):
    """[(set of self attrs mentioned in the iterable, set of loop variable names, body nodes)] for for-loops and comprehensions."""
    out = []
    for n in walk_no_nested(fn):
        if isinstance(n, ast.For):
            attrs = {x.attr for x in ast.walk(n.iter) if is_self_attr(x)}
            names = {x.id for x in ast.walk(n.target) if isinstance(x, ast.Name)}
            out.append((attrs, names, n.body, n))
        elif isinstance(n, (ast.ListComp, ast.GeneratorExp, ast.SetComp)):
            for g in n.generators:
                attrs = {x.attr for x in ast.walk(g.iter) if is_self_attr(x)}
                names = {x.id for x in ast.walk(g.target) if isinstance(x, ast.Name)}
                out.append((attrs, names, [n.elt], n))
    return out


def _attrs_forwarded(fn, hook, subscript_ok=True):
    """self attrs A such that fn calls <elem>.hook(...) for the elements of self.A (loop / comprehension / self.A[i])."""
    got = set()
    for attrs, names, body, node in _loops_over_self_attrs(fn):
        for b in body:
            for c in ast.walk(b):
                if isinstance(c, ast.Call) and isinstance(c.func, ast.Attribute) and c.func.attr == hook:
                    v = c.func.value
                    if isinstance(v, ast.Name) and v.id in names:
                        got |= attrs
                    elif isinstance(v, ast.Subscript) and is_self_attr(v.value):
                        got.add(v.value.attr)
    return got


def rule_temps(ctx):
    ix = ctx.index
    base, concrete = pattern_classes(ctx)
    m = ix.mod(MOD)
    r = Rule('C31-TEMPS', 'pattern classes with sub-patterns forward allocate/release/dispose of subject temporaries to every sub-pattern list '
             '(the lists their analyse_pattern_expressions recurses into)', floor=12)
    case = m.classes.get('MatchCaseNode')
    gen = case.methods.get('generate_execution_code') if case else None
    if gen is None:
        raise AnalysisError('MatchCaseNode.generate_execution_code vanished')
    hooks = []
    for n in walk_no_nested(gen):
        if isinstance(n, ast.Call) and isinstance(n.func, ast.Attribute) and is_self_attr(n.func.value) and n.func.value.attr == 'pattern':
            h = n.func.attr
            if h in base.methods and h not in hooks:
                hooks.append(h)
    if len(hooks) < 2:
        raise AnalysisError('MatchCaseNode.generate_execution_code calls %d temp hooks on self.pattern' % len(hooks))
    rec_hook = 'analyse_pattern_expressions'
    if rec_hook not in base.methods:
        raise AnalysisError('PatternNode.analyse_pattern_expressions vanished')
    n_sub = 0
    for c in concrete:
        impl = ix.find_method(c, rec_hook)
        if impl is None:
            continue
        ch = ix.class_list_attr(c, 'child_attrs')
        kids = set(ch[1] or []) if ch else set()
        sub_attrs = _attrs_forwarded(impl[1], rec_hook) & kids
        for a in sorted(sub_attrs):
            n_sub += 1
            for h in hooks:
                key = 'MatchCaseNodes.%s.%s:%s' % (c.name, h, a)
                hi = ix.find_method(c, h)
                fw = _attrs_forwarded(hi[1], h) if hi else set()
                r.inst(key, sample='%s forwards %s to self.%s' % (c.name, h, a))
                if a not in fw:
                    r.violate(key, c.module.rel, (hi[1].lineno if hi and hi[0] is c else c.node.lineno),
                              '%s.%s does not call %s() on the sub-patterns in self.%s (analyse_pattern_expressions recurses into them): temporaries of nested patterns are '
                              'never %s, the generated C uses undeclared/unreleased temps' % (c.name, h, h, a, h.split('_')[0] + 'd'))
    if n_sub < 3:
        raise AnalysisError('only %d sub-pattern lists found in the pattern classes' % n_sub)
    pc = ast.parse("def release_subject_temps(self, code):\n    for temp in self.subject_temps:\n        temp.release(code)\n").body[0]
    r.positive_control('patterns' not in _attrs_forwarded(pc, 'release_subject_temps'), 'hook that releases its own temps but not the sub-patterns')
    return r


# ====================================================================================== typed call sites of the module
SENT = '\x00%s\x00'


def _sev(node, env, binding, depth=0):
    """Set of strings an expression can denote with variables of `binding` fixed; unknown names -> sentinel token. None = not a string expr."""
    if isinstance(node, ast.Constant):
        return {node.value} if isinstance(node.value, str) else ({None} if node.value is None else None)
    if isinstance(node, ast.Name):
        if node.id in binding:
            return {binding[node.id]}
        if env and node.id in env and depth < 4:
            out = set()
            for v in env[node.id]:
                s = _sev(v, env, binding, depth + 1)
                if s is None:
                    return {SENT % node.id}
                out |= s
            return out
        return {SENT % node.id}
    if isinstance(node, ast.IfExp):
        a, b = _sev(node.body, env, binding, depth), _sev(node.orelse, env, binding, depth)
        return None if a is None or b is None else a | b
    if isinstance(node, ast.BinOp) and isinstance(node.op, ast.Add):
        a, b = _sev(node.left, env, binding, depth), _sev(node.right, env, binding, depth)
        if a is None or b is None or None in a or None in b:
            return None
        return {x + y for x in a for y in b}
    if isinstance(node, ast.BinOp) and isinstance(node.op, ast.Mod):
        a = _sev(node.left, env, binding, depth)
        parts = node.right.elts if isinstance(node.right, ast.Tuple) else [node.right]
        pv = [_sev(p, env, binding, depth) for p in parts]
        if a is None or any(p is None or None in p for p in pv) or None in a:
            return None
        import itertools
        out = set()
        for t in a:
            for combo in itertools.product(*pv):
                try:
                    out.add(t % combo)
                except Exception:
                    return None
        return out
    if isinstance(node, ast.JoinedStr):
        import itertools
        parts = []
        for v in node.values:
            if isinstance(v, ast.Constant):
                parts.append({v.value})
            else:
                s = _sev(v.value, env, binding, depth)
                if s is None or None in s:
                    return None
                parts.append(s)
        return {''.join(c) for c in itertools.product(*parts)}
    if isinstance(node, ast.Attribute):
        return {SENT % ast.unparse(node)}
    return None


def _names_in(node, env, depth=0):
    out = set()
    for x in ast.walk(node):
        if isinstance(x, ast.Name):
            out.add(x.id)
            if env and x.id in env and depth < 3:
                for v in env[x.id]:
                    out |= _names_in(v, env, depth + 1)
    return out


def _is_loader(call):
    return isinstance(call, ast.Call) and isinstance(call.func, ast.Attribute) and call.func.attr in ('load', 'load_cached') and len(call.args) >= 2


def capi_sites(ctx):
    """PythonCapiCallNode sites of MatchCaseNodes: (qualname, owner, fn, call, cname expr, functype expr, args expr, utility expr, env)."""
    ix = ctx.index
    m = ix.mod(MOD)
    out = []
    for qn, owner, fn in ix.functions_of(m):
        env = None
        for n in walk_no_nested(fn):
            if isinstance(n, ast.Call) and ((isinstance(n.func, ast.Attribute) and n.func.attr == 'PythonCapiCallNode') or
                                            (isinstance(n.func, ast.Name) and n.func.id == 'PythonCapiCallNode')):
                kw = {k.arg: k.value for k in n.keywords if k.arg}
                cn = n.args[1] if len(n.args) > 1 else kw.get('function_name')
                ft = n.args[2] if len(n.args) > 2 else kw.get('func_type')
                if cn is None:
                    continue
                if env is None:
                    env = local_env(fn)
                out.append((qn, owner, fn, n, cn, ft, kw.get('args'), kw.get('utility_code'), env))
    if len(out) < 8:
        raise AnalysisError('only %d PythonCapiCallNode sites in MatchCaseNodes.py' % len(out))
    return out


def _section_decl_names(ctx, file, section, context):
    """C names declared by the closure of a utility section, Tempita {{var}} substituted from `context` (dict var -> str)."""
    cat = ctx.cat
    if not cat.has_section(file, section):
        return None
    names = set()
    secs = cat.closure(file, section)
    wanted = {(f, s) for f, s in secs}
    if file.endswith(('.pyx', '.pxd', '.pxi')):
        for f, s in wanted:
            for sec in cat.files.get(f, {}).get(s, {}).values():
                for mm in re.finditer(r'@cname\(\s*["\']([^"\']+)["\']\s*\)', sec.raw):
                    names.add(mm.group(1))
    for cname, decls in cat.decls.items():
        for d in decls:
            if d.section is not None and (d.section.file, d.section.name) in wanted:
                names.add(cname)
    out = set()
    for nm in names:
        def sub(mm):
            k = mm.group(1).strip()
            return context.get(k, SENT % ('tpl:' + k))
        out.add(re.sub(r'\{\{([^}]*)\}\}', sub, nm))
    return out


def _load_specs(expr, env, fn, cname_var=None):
    """Loader calls an expression (utility_code=...) can denote: list of Call nodes (None entries for `None`)."""
    if expr is None:
        return []
    if _is_loader(expr):
        return [expr]
    if isinstance(expr, ast.Constant) and expr.value is None:
        return [None]
    if isinstance(expr, ast.Name) and env and expr.id in env:
        out = []
        for v in env[expr.id]:
            out += _load_specs(v, None, fn)
        return out
    return []


def rule_sections(ctx):
    ix, cat = ctx.index, ctx.cat
    m = ix.mod(MOD)
    r = Rule('C31-SEC', 'every __Pyx_MatchCase_* helper called through PythonCapiCallNode is declared by (the closure of) the utility section attached to the same call, '
             'for every value of the name-building variables (tag, util_code_name, suffix)', floor=13)
    for qn, owner, fn, call, cn, ft, an, uc, env in capi_sites(ctx):
        if uc is None:
            continue
        # candidate pairs (cname expr, loader call): paired through if/elif branches when both are locals
        pairs = []
        if isinstance(cn, ast.Name) and isinstance(uc, ast.Name) and cn.id in env and uc.id in env and len(env[cn.id]) > 1:
            for va, vb in typed.paired_values(fn, cn.id, uc.id):
                if vb is not None and _is_loader(vb):
                    pairs.append((va, vb))
        if not pairs:
            for ld in _load_specs(uc, env, fn):
                if ld is not None:
                    pairs.append((cn, ld))
        for cexpr, ld in pairs:
            sec_expr, file_expr = ld.args[0], ld.args[1]
            ctx_kw = next((k.value for k in ld.keywords if k.arg == 'context'), None)
            # variables shared between the C name and the section name / template context: enumerate them together
            shared = _names_in(cexpr, env) & (_names_in(sec_expr, env) | (_names_in(ctx_kw, env) if ctx_kw is not None else set()))
            shared = [v for v in sorted(shared) if v in env]
            bindings = [{}]
            for v in shared:
                vals = set()
                for e in env[v]:
                    s = _sev(e, None, {})
                    vals |= s if s else {SENT % v}
                bindings = [dict(b, **{v: x}) for b in bindings for x in sorted(vals, key=str) if x is not None]
            for b in bindings:
                cnames = _sev(cexpr, env, b)
                secs = _sev(sec_expr, env, b)
                files = _sev(file_expr, env, b)
                if not cnames or not secs or not files:
                    continue
                tctx = {}
                if isinstance(ctx_kw, ast.Dict):
                    for k, v in zip(ctx_kw.keys, ctx_kw.values):
                        if isinstance(k, ast.Constant):
                            vs = _sev(v, env, b)
                            if vs and len(vs) == 1 and None not in vs:
                                tctx[k.value] = next(iter(vs))
                            else:
                                tctx[k.value] = SENT % ('ctx:' + str(k.value))
                for cname in sorted(x for x in cnames if x is not None):
                    if not cname.startswith('__Pyx_'):
                        continue
                    for sec in sorted(x for x in secs if x is not None):
                        for file in sorted(x for x in files if x is not None):
                            key = 'MatchCaseNodes.%s:%s<-%s::%s' % (qn, cname.replace('\x00', '$'), file, sec)
                            r.inst(key, sample=key)
                            declared = _section_decl_names(ctx, file, sec, tctx)
                            if declared is None:
                                r.violate(key + ':missing-section', m.rel, ld.lineno, '%s loads utility section %s::%s, which does not exist' % (qn, file, sec))
                            elif cname not in declared:
                                r.violate(key, m.rel, call.lineno,
                                          '%s calls C helper %s but attaches utility section %s::%s, whose closure declares only %s: the helper is undeclared in the '
                                          'generated C file (compile error) whenever this is its only use' % (
                                              qn, cname.replace('\x00', '$'), file, sec, sorted(x.replace('\x00', '$') for x in declared if x.startswith(PREFIX))[:6]))
    d = _section_decl_names(ctx, 'MatchCase.c', 'IsSequence', {})
    r.positive_control(d is not None and '__Pyx_MatchCase_IsSequence' in d and '__Pyx_MatchCase_IsMapping' not in d, 'IsMapping helper is not declared by section IsSequence')
    return r


# ====================================================================================== C31-FWD
def _fwd_problem(passed, injected, nparams):
    return passed + injected != nparams


def variadic_forwarders(ctx, prefix=PREFIX):
    """name -> [(decl, callee, injected count)] for `#define NAME(...) CALLEE(x, __VA_ARGS__)`."""
    cat = ctx.cat
    out = {}
    for name, decls in cat.decls.items():
        if not name.startswith(prefix):
            continue
        for d in decls:
            if d.kind == 'macro' and d.params is not None and len(d.params) == 1 and d.params[0].strip() == '...':
                fw = cat.forwarding(d)
                if not fw:
                    continue
                args = [a.strip() for a in fw[1]]
                if '__VA_ARGS__' not in args or args[-1] != '__VA_ARGS__':
                    continue
                out.setdefault(name, []).append((d, fw[0], len(args) - 1))
    return out


def rule_forwarders(ctx):
    ix, cat = ctx.index, ctx.cat
    m = ix.mod(MOD)
    r = Rule('C31-FWD', 'variadic forwarding macros __Pyx_MatchCase_X(...) -> __Pyx__MatchCase_X(refnanny, __VA_ARGS__): all #if variants forward alike; at every typed call '
             'site passed + injected arguments == parameters of the real function; declared argument/return categories match the shifted C parameters', floor=10)
    fwd = variadic_forwarders(ctx)
    if len(fwd) < 3:
        raise AnalysisError('only %d variadic forwarding macros with prefix %s in the utility code' % (len(fwd), PREFIX))
    info = {}
    for name, lst in sorted(fwd.items()):
        key = 'MatchCase.c:%s' % name
        shapes = {(callee, inj) for d, callee, inj in lst}
        r.inst(key + ':variants', sample='%s -> %s' % (name, sorted(shapes)))
        if len(shapes) != 1:
            r.violate(key + ':variants', 'Cython/Utility/' + lst[0][0].file, lst[0][0].line,
                      'the #if variants of macro %s forward differently: %s — one build configuration calls the helper with a shifted argument list' % (name, sorted(shapes)))
            continue
        callee, inj = next(iter(shapes))
        protos = [d for d in cat.lookup(callee) if d.kind in ('func', 'proto')]
        r.inst(key + ':callee', sample='%s forwards to %s (%d decls)' % (name, callee, len(protos)))
        if not protos:
            r.violate(key + ':callee', 'Cython/Utility/' + lst[0][0].file, lst[0][0].line, 'macro %s forwards to %s, which no utility section defines' % (name, callee))
            continue
        ar = {d.nparams for d in protos}
        if len(ar) != 1:
            r.violate(key + ':callee', 'Cython/Utility/' + protos[0].file, protos[0].line, 'prototype and definition of %s disagree on the parameter count: %s' % (callee, sorted(ar)))
            continue
        info[name] = (callee, inj, protos[0])
    ftypes = typed.collect_functypes(ix, m)
    n_sites = 0
    for qn, owner, fn, call, cn, ft, an, uc, env in capi_sites(ctx):
        cnames = _sev(cn, env, {})
        if not cnames:
            continue
        for cname in sorted(x for x in cnames if x in info):
            callee, inj, proto = info[cname]
            plens = typed.passed_lengths(fn, an, call)
            key = 'MatchCaseNodes.%s:%s' % (qn, cname)
            n_sites += 1
            r.inst(key, sample='%s passes %s + %d injected to %s/%d' % (key, sorted(plens) if plens else '?', inj, callee, proto.nparams))
            if plens is None:
                r.info('%s: argument count not resolved' % key)
                continue
            for p in sorted(plens):
                if _fwd_problem(p, inj, proto.nparams):
                    r.violate(key + ':arity', m.rel, call.lineno,
                              '%s passes %d argument(s) to %s(...), the macro prepends %d and calls %s, which takes %d: the generated C does not compile' % (
                                  qn, p, cname, inj, callee, proto.nparams))
            decls = typed.resolve_functype(ix, m, owner, ftypes, ft, env, fn, call) if ft is not None else []
            if len(decls) != 1 or decls[0].args is None:
                continue
            d = decls[0]
            ptypes = proto.param_types()
            for i in range(min(max(plens), len(d.args))):
                if i + inj >= len(ptypes):
                    break
                pc = typed.py_category(d.args[i][1]) if d.args[i][1] else None
                cc = typed.c_category(ptypes[i + inj])
                if pc and cc and pc != cc and not (pc == 'pointer' and cc == 'object'):
                    r.violate(key + ':arg%d' % i, m.rel, call.lineno,
                              'argument %d of %s is declared as %s (%s) but reaches parameter %d of %s, which is %r (%s)' % (
                                  i, cname, d.args[i][1], pc, i + inj, callee, ptypes[i + inj], cc))
            pc, cc = typed.py_category(d.ret), typed.c_category(proto.ret)
            if pc and cc and pc != cc:
                r.violate(key + ':ret', m.rel, call.lineno, 'return type of %s is declared as %s (%s) but %s returns %r (%s)' % (cname, d.ret, pc, callee, proto.ret, cc))
            ev = d.exception_value
            if ev is not None and cc is not None and ev.strip('"\'') == '-1' and cc != 'int':
                r.violate(key + ':excval', m.rel, call.lineno, 'exception_value=-1 declared for %s but %s returns %r' % (cname, callee, proto.ret))
    if n_sites < 3:
        raise AnalysisError('only %d typed call sites of variadic forwarding macros found in MatchCaseNodes.py' % n_sites)
    r.positive_control(_fwd_problem(4, 1, 6), 'one argument short after the injected refnanny pointer')
    return r


# ====================================================================================== C31-CFA
def _case_protocol(ctx):
    """Methods MatchNode calls on the elements of self.cases, and the classes of the module implementing all of them."""
    ix = ctx.index
    m = ix.mod(MOD)
    mn = m.classes.get('MatchNode')
    if mn is None:
        raise AnalysisError('MatchCaseNodes.MatchNode vanished')
    proto = set()
    for name in ('analyse_declarations', 'analyse_expressions', 'generate_execution_code'):
        fn = mn.methods.get(name)
        if fn is None:
            raise AnalysisError('MatchNode.%s vanished' % name)
        for attrs, names, body, node in _loops_over_self_attrs(fn):
            if 'cases' not in attrs:
                continue
            for b in body:
                for c in ast.walk(b):
                    if isinstance(c, ast.Call) and isinstance(c.func, ast.Attribute) and isinstance(c.func.value, ast.Name) and c.func.value.id in names:
                        proto.add(c.func.attr)
    if len(proto) < 2:
        raise AnalysisError('MatchNode calls %d methods on its cases' % len(proto))
    classes = []
    for c in m.classes.values():
        have = {p for p in proto if ix.find_method(c, p)}
        if have == proto and not ix.subclasses(c):
            classes.append(c)
    if len(classes) < 2:
        raise AnalysisError('fewer than two case classes implement the case protocol %s' % sorted(proto))
    return proto, classes


def _visit_sequence(stmts, var):
    """[(attr, lineno, col)] of self._visit(var.attr) / self.visit(var.attr) calls in source order."""
    out = []
    for s in stmts:
        for n in ast.walk(s):
            if isinstance(n, ast.Call) and is_self_attr(n.func) and n.func.attr in ('_visit', 'visit', 'visitchildren') and n.args:
                a = n.args[0]
                if isinstance(a, ast.Attribute) and isinstance(a.value, ast.Name) and a.value.id == var:
                    out.append((a.attr, n.lineno, n.col_offset))
    return sorted(out, key=lambda x: x[1:])


def _order_problems(cfa_order, gen_order, attrs):
    probs = []
    attrs = [a for a in attrs if a in cfa_order and a in gen_order]
    for i, a in enumerate(attrs):
        for b in attrs[i + 1:]:
            if (cfa_order.index(a) < cfa_order.index(b)) != (gen_order.index(a) < gen_order.index(b)):
                probs.append((a, b))
    return probs


def pattern_target_attrs(ctx):
    """(class, child attr) pairs whose NameNodes are assignment targets: lhs of the SingleAssignmentNodes the pattern classes create."""
    ix = ctx.index
    base, concrete = pattern_classes(ctx)
    out = set()
    for c in [base] + ix.subclasses(base):
        ch = ix.class_list_attr(c, 'child_attrs')
        kids = set(ch[1] or []) if ch else set()
        for fn in c.methods.values():
            loopvars = {}
            for attrs, names, body, node in _loops_over_self_attrs(fn):
                if len(attrs) == 1:
                    for nm in names:
                        loopvars[nm] = next(iter(attrs))
            for n in walk_no_nested(fn):
                if isinstance(n, ast.Call) and ((isinstance(n.func, ast.Attribute) and n.func.attr == 'SingleAssignmentNode') or
                                                (isinstance(n.func, ast.Name) and n.func.id == 'SingleAssignmentNode')):
                    lhs = next((k.value for k in n.keywords if k.arg == 'lhs'), None)
                    if lhs is None:
                        continue
                    if isinstance(lhs, ast.Call) and isinstance(lhs.func, ast.Attribute) and lhs.func.attr == 'clone_node':
                        lhs = lhs.func.value
                    a = None
                    if is_self_attr(lhs):
                        a = lhs.attr
                    elif isinstance(lhs, ast.Name) and lhs.id in loopvars:
                        a = loopvars[lhs.id]
                    if a and a in kids:
                        out.add((c, a))
    return out


def _pattern_targets_rule(ctx, r, cfa, concrete):
    ix = ctx.index
    # ---- (b) capture targets are excluded by the pattern handler
    targets = pattern_target_attrs(ctx)
    if len(targets) < 2:
        raise AnalysisError('only %d capture-target child attributes found in the pattern classes' % len(targets))
    for c in concrete:
        ph = ix.visitor_handler(cfa, c)
        if ph is None:
            raise AnalysisError('no handler resolves for %s' % c.name)
        pfn = ph[2]
        pparam = pfn.args.args[1].arg
        visited_all, attrs_only, excluded = False, None, set()
        for n in walk_no_nested(pfn):
            if isinstance(n, ast.Call) and is_self_attr(n.func) and n.func.attr == 'visitchildren' and n.args and isinstance(n.args[0], ast.Name) and n.args[0].id == pparam:
                kw = {k.arg: k.value for k in n.keywords}
                av = n.args[1] if len(n.args) > 1 else kw.get('attrs')
                ev = n.args[2] if len(n.args) > 2 else kw.get('exclude')
                try:
                    avv = ast.literal_eval(av) if av is not None else None
                    evv = ast.literal_eval(ev) if ev is not None else None
                except Exception:
                    raise AnalysisError('%s: visitchildren attrs/exclude are not literals' % pfn.name)
                if avv is None:
                    visited_all = True
                    excluded = set(evv or ())
                else:
                    attrs_only = set(avv) | (attrs_only or set())
        ch = ix.class_list_attr(c, 'child_attrs')
        kids_c = set(ch[1] or []) if ch else set()
        for tc, a in sorted(targets, key=lambda x: (x[0].name, x[1])):
            if a not in kids_c or not any(k is tc for k in ix.mro(c)):
                continue
            key = 'ControlFlowAnalysis.%s:target:%s.%s' % (pfn.name, c.name, a)
            r.inst(key, sample='%s.%s is a capture target; handler %s excludes %s' % (c.name, a, pfn.name, sorted(excluded)))
            seen = (visited_all and a not in excluded) or (attrs_only is not None and a in attrs_only) or \
                any(isinstance(x, ast.Attribute) and x.attr == a and isinstance(x.value, ast.Name) and x.value.id == pparam and
                    any(isinstance(cc, ast.Call) and is_self_attr(cc.func) and cc.func.attr in ('_visit', 'visit') and cc.args and cc.args[0] is x for cc in walk_no_nested(pfn))
                    for x in walk_no_nested(pfn))
            if seen:
                r.violate(key, cfa.module.rel, pfn.lineno,
                          '%s visits %s.%s, the capture target of the pattern, as an ordinary child: the name is recorded as a READ before its binding '
                          '("local variable referenced before assignment" for every capture pattern)' % (pfn.name, c.name, a))


def rule_cfa(ctx):
    ix = ctx.index
    m = ix.mod(MOD)
    cfa = ix.cls('FlowControl', 'ControlFlowAnalysis')
    r = Rule('C31-CFA', 'control-flow analysis of match statements: every case class is dispatched in visit_MatchNode; capture targets of patterns are not visited as reads; '
             'bindings, guard and body of a case are visited in the order MatchCaseNode generates them', floor=10)
    base, concrete = pattern_classes(ctx)
    # ---- (a) case classes
    proto, classes = _case_protocol(ctx)
    mn = m.classes['MatchNode']
    h = ix.visitor_handler(cfa, mn)
    if h is None or h[0].name in ('Node', 'StatNode'):
        r.inst('ControlFlowAnalysis:MatchNode', sample='no specific handler')
        r.violate('ControlFlowAnalysis:MatchNode', cfa.module.rel, cfa.node.lineno,
                  'ControlFlowAnalysis has no handler for MatchNode: cases would be analysed as one straight-line block (names bound in one case count as bound after the statement, '
                  'the comparison node and the bindings are visited in child order, not in execution order)')
        for c in classes:
            r.inst('ControlFlowAnalysis.<generic>:case-class:%s' % c.name)
        _pattern_targets_rule(ctx, r, cfa, concrete)
        r.positive_control(True, 'missing MatchNode handler reported')
        return r
    hfn = h[2]
    node_param = hfn.args.args[1].arg
    case_loops = [lp for lp in walk_no_nested(hfn) if isinstance(lp, ast.For) and isinstance(lp.iter, ast.Attribute) and
                  isinstance(lp.iter.value, ast.Name) and lp.iter.value.id == node_param and lp.iter.attr == 'cases' and isinstance(lp.target, ast.Name)]
    if len(case_loops) != 1:
        raise AnalysisError('%s: expected one loop over %s.cases, found %d' % (hfn.name, node_param, len(case_loops)))
    loop = case_loops[0]
    cvar = loop.target.id
    arms = {}
    for n in ast.walk(loop):
        if isinstance(n, ast.If) and isinstance(n.test, ast.Call) and isinstance(n.test.func, ast.Name) and n.test.func.id == 'isinstance' and \
                len(n.test.args) == 2 and isinstance(n.test.args[0], ast.Name) and n.test.args[0].id == cvar:
            t = n.test.args[1]
            for e in (t.elts if isinstance(t, ast.Tuple) else [t]):
                arms[e.attr if isinstance(e, ast.Attribute) else getattr(e, 'id', None)] = n
    for c in classes:
        key = 'ControlFlowAnalysis.%s:case-class:%s' % (hfn.name, c.name)
        r.inst(key, sample='%s handled by an isinstance arm: %s' % (c.name, sorted(a for a in arms if a)))
        if arms and not any(k.name in arms for k in ix.mro(c)):
            r.violate(key, cfa.module.rel, loop.lineno,
                      'case class %s (implements the case protocol %s of MatchNode) is matched by no isinstance arm of %s (arms: %s): the analysis asserts/ignores the case, '
                      'its bindings and body are not in the control-flow graph' % (c.name, sorted(proto), hfn.name, sorted(a for a in arms if a)))
    # ---- (c) order of bindings / guard / body inside the arm for the class that has a pattern
    case = m.classes.get('MatchCaseNode')
    gen = case.methods.get('generate_execution_code') if case else None
    if gen is None:
        raise AnalysisError('MatchCaseNode.generate_execution_code vanished')
    ch = ix.class_list_attr(case, 'child_attrs')
    kids = ch[1] if ch and ch[1] else []
    gen_order = []
    for n in sorted((x for x in walk_no_nested(gen) if isinstance(x, ast.Call) and isinstance(x.func, ast.Attribute) and is_self_attr(x.func.value)
                     and x.func.attr.startswith('generate_') and x.func.value.attr in kids), key=lambda x: (x.lineno, x.col_offset)):
        if n.func.value.attr not in gen_order and n.func.attr in ('generate_execution_code', 'generate_evaluation_code'):
            gen_order.append(n.func.value.attr)
    arm = next((a for k, a in arms.items() if k == case.name), None)
    stmts = arm.body if arm is not None else loop.body
    seq = _visit_sequence(stmts, cvar)
    cfa_order = []
    for a, ln, col in seq:
        if a not in cfa_order:
            cfa_order.append(a)
    executed = [a for a in kids if a in gen_order]
    parser_given = {k.arg for n in ast.walk(ix.mod('Parsing').tree) if isinstance(n, ast.Call) and
                    (n.func.attr if isinstance(n.func, ast.Attribute) else getattr(n.func, 'id', None)) == case.name for k in n.keywords if k.arg}
    for a in [k for k in kids if k in executed or k in parser_given]:
        # children created only after the analysis (comparison node) cannot be visited
        created_later = not any(isinstance(n, ast.keyword) and n.arg == a for n in ast.walk(ix.mod('Parsing').tree)) and \
            not any(isinstance(t, ast.Attribute) and t.attr == a and isinstance(t.ctx, ast.Store) for f in [case.methods.get('analyse_case_declarations')] if f for t in ast.walk(f))
        key = 'ControlFlowAnalysis.%s:visits:%s' % (hfn.name, a)
        r.inst(key, sample='MatchCaseNode.%s: generated at position %s, visited at %s%s' % (a, gen_order.index(a) if a in gen_order else '-', cfa_order.index(a) if a in cfa_order else None,
                                                                                            ' (created after the analysis)' if created_later else ''), nontrivial=not created_later)
        if not created_later and a not in cfa_order:
            r.violate(key, cfa.module.rel, loop.lineno,
                      '%s never visits %s.%s although MatchCaseNode executes it: assignments and references inside it are invisible to the definedness analysis' % (hfn.name, cvar, a))
    for a, b in _order_problems(cfa_order, gen_order, executed):
        key = 'ControlFlowAnalysis.%s:order:%s/%s' % (hfn.name, a, b)
        r.inst(key)
        r.violate(key, cfa.module.rel, loop.lineno,
                  '%s visits %s and %s in the opposite order to MatchCaseNode.generate_execution_code (%s): names captured by the pattern are seen as unbound in the '
                  'guard/body (or the reverse)' % (hfn.name, a, b, ' -> '.join(gen_order)))
    r.inst('ControlFlowAnalysis.%s:order' % hfn.name, sample='analysis order %s; generation order %s' % (cfa_order, gen_order))
    _pattern_targets_rule(ctx, r, cfa, concrete)
    pc_cfa = ['pattern', 'guard', 'target_assignments', 'body']
    r.positive_control(bool(_order_problems(pc_cfa, ['pattern', 'target_assignments', 'guard', 'body'], ['target_assignments', 'guard', 'body'])), 'guard analysed before the bindings')
    return r
