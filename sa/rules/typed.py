"""I3 — typed helper calls: PythonCapiCallNode / _substitute_method_call / PythonCapiFunctionNode sites.

For each site the C name(s), the declared CFuncType, the number of arguments passed and the C prototype
(utility catalogue, or the installed CPython headers for C-API names) are resolved and compared.
"""
import ast, re, collections

from ..core import Rule, AnalysisError, node_src
from ..engine.pyindex import walk_no_nested, is_self_attr
from ..engine import tables
from .iface import const_strs, local_env

SITES = {
    # callee name -> (index of cname, index of func_type, args kw/pos index)
    'PythonCapiCallNode': (1, 2, None),
    '_substitute_method_call': (2, 3, 6),
    'PythonCapiFunctionNode': (2, 3, None),
}

INT_C = re.compile(r'^(?:const\s+)?(?:unsigned\s+|signed\s+)?(?:int|long|long long|short|char|size_t|Py_ssize_t|Py_UCS4|Py_UNICODE|Py_hash_t|uint\w+|int\w+_t|__Pyx_PySendResult|enum\s+\w+)$')


def c_category(t):
    t = ' '.join(t.replace('CYTHON_INLINE', '').replace('static', '').replace('CYTHON_UNUSED', '').replace('CYTHON_SMALL_CODE', '').split())
    t = re.sub(r'\bconst\b', '', t).strip()
    t = ' '.join(t.split())
    if t.endswith('*'):
        base = t.rstrip('* ').strip()
        if base in ('PyObject', 'PyTypeObject', 'PyListObject', 'PyDictObject', 'PyTupleObject', 'struct _object', 'PyLongObject', 'PyUnicodeObject') and t.count('*') == 1:
            return 'object'
        return 'pointer'
    if t in ('double', 'float', 'long double'):
        return 'double'
    if t == 'void':
        return 'void'
    if INT_C.match(t):
        return 'int'
    return None


def py_category(expr_src):
    """Category of a PyrexTypes/Builtin type expression used in a CFuncType declaration."""
    s = expr_src
    last = s.rsplit('.', 1)[-1]
    if last in ('py_object_type',) or last in (
            'dict_type', 'list_type', 'tuple_type', 'set_type', 'frozenset_type', 'unicode_type', 'bytes_type', 'bytearray_type',
            'str_type', 'float_type', 'int_type', 'long_type', 'bool_type', 'type_type', 'complex_type', 'memoryview_type', 'slice_type'):
        return 'object'
    if last in ('c_double_type', 'c_float_type', 'c_longdouble_type'):
        return 'double'
    if last in ('c_void_type', 'c_returncode_type'):
        return 'void' if last == 'c_void_type' else 'int'
    if re.match(r'c_(?:u?int|u?long|u?longlong|u?short|u?char|bint|py_ssize_t|size_t|py_ucs4|py_unicode|py_hash_t|ssize_t|schar|uchar|char|int)_type$', last) or last == 'c_bint_type':
        return 'int'
    if last.endswith('_ptr_type') or last.endswith('_ptr_ptr_type') or 'c_ptr_type(' in s or 'CPtrType' in s:
        return 'pointer'
    return None


class FuncTypeDecl:
    def __init__(self, call, where):
        self.call, self.where = call, where
        self.ret = ast.unparse(call.args[0]) if call.args else None
        self.args = None
        if len(call.args) > 1 and isinstance(call.args[1], ast.List):
            self.args = []
            for e in call.args[1].elts:
                if isinstance(e, ast.Call) and e.args and len(e.args) >= 2:
                    nm = e.args[0].value if isinstance(e.args[0], ast.Constant) else None
                    self.args.append((nm, ast.unparse(e.args[1])))
                else:
                    self.args.append((None, None))
        self.kw = {k.arg: k.value for k in call.keywords if k.arg}

    @property
    def exception_value(self):
        v = self.kw.get('exception_value')
        return None if v is None else ast.unparse(v)

    @property
    def has_varargs(self):
        v = self.kw.get('has_varargs')
        return isinstance(v, ast.Constant) and bool(v.value)


def _is_cfunctype(n):
    return isinstance(n, ast.Call) and ((isinstance(n.func, ast.Attribute) and n.func.attr == 'CFuncType') or
                                        (isinstance(n.func, ast.Name) and n.func.id == 'CFuncType'))


def collect_functypes(ix, m):
    """(scope, name) -> [FuncTypeDecl] for module-level ('') and class-level (class name) `X = CFuncType(...)`."""
    out = {}

    def scan(stmts, scope):
        for n in stmts:
            if isinstance(n, ast.Assign) and _is_cfunctype(n.value):
                for t in n.targets:
                    if isinstance(t, ast.Name):
                        out.setdefault((scope, t.id), []).append(FuncTypeDecl(n.value, (m.rel, n.lineno)))
            elif isinstance(n, ast.ClassDef):
                scan(n.body, n.name)
            elif isinstance(n, (ast.If, ast.Try)):
                scan(n.body, scope)
                scan(getattr(n, 'orelse', []), scope)
    scan(m.tree.body, '')
    return out


def resolve_functype(ix, m, owner, ftypes, expr, env, fn, at):
    """-> list of FuncTypeDecl the expression can denote at call node `at`."""
    if _is_cfunctype(expr):
        return [FuncTypeDecl(expr, (m.rel, expr.lineno))]
    if isinstance(expr, ast.Attribute) and isinstance(expr.value, ast.Name) and expr.value.id in ('self', 'cls') and owner is not None:
        for k in ix.mro(owner):
            d = ftypes.get((k.name, expr.attr)) if k.module is m else None
            if d is None and k.module is not m:
                d = collect_functypes(ix, k.module).get((k.name, expr.attr))
            if d:
                return d
        return []
    if isinstance(expr, ast.Attribute) and isinstance(expr.value, ast.Name):
        # ClassName.X
        d = ftypes.get((expr.value.id, expr.attr))
        return d or []
    if isinstance(expr, ast.Name):
        if env is not None and expr.id in env:
            out = []
            for v in env[expr.id]:
                out += resolve_functype(ix, m, owner, ftypes, v, None, fn, at)
            return out
        return ftypes.get(('', expr.id), [])
    return []


def paired_values(fn, name_a, name_b):
    """For two locals assigned in if/elif chains (cname / func_type pairs): list of (value_a, value_b) where
    value_b is the assignment to name_b that governs the assignment of name_a (same block, else nearest
    preceding assignment in an enclosing block)."""
    pairs = []

    def walk(stmts, cur_b):
        for s in stmts:
            if isinstance(s, ast.Assign) and len(s.targets) == 1 and isinstance(s.targets[0], ast.Name):
                if s.targets[0].id == name_b:
                    cur_b = s.value
                    # re-pair earlier a-assignments of this same block
                    for i, (va, vb, blk) in enumerate(pairs):
                        if blk is stmts:
                            pairs[i] = (va, cur_b, blk)
                elif s.targets[0].id == name_a:
                    pairs.append((s.value, cur_b, stmts))
            for fld in ('body', 'orelse', 'finalbody'):
                sub = getattr(s, fld, None)
                if isinstance(sub, list) and sub and isinstance(sub[0], ast.stmt):
                    walk(sub, cur_b)
            for h in getattr(s, 'handlers', []) or []:
                walk(h.body, cur_b)
        return cur_b
    walk(fn.body, None)
    return [(a, b) for a, b, _ in pairs]


LEN_UNIVERSE = tuple(range(0, 10))


def _len_of(expr, name):
    return isinstance(expr, ast.Call) and isinstance(expr.func, ast.Name) and expr.func.id == 'len' and len(expr.args) == 1 \
        and isinstance(expr.args[0], ast.Name) and expr.args[0].id == name


def _eval_len_test(test, name, k):
    """Truth of `test` when len(name) == k; None if the test does not (only) depend on it."""
    if isinstance(test, ast.UnaryOp) and isinstance(test.op, ast.Not):
        v = _eval_len_test(test.operand, name, k)
        return None if v is None else not v
    if isinstance(test, ast.BoolOp):
        vals = [_eval_len_test(v, name, k) for v in test.values]
        if isinstance(test.op, ast.And):
            if any(v is False for v in vals):
                return False
            return True if all(v is True for v in vals) else None
        if any(v is True for v in vals):
            return True
        return False if all(v is False for v in vals) else None
    if isinstance(test, ast.Compare):
        operands = [test.left] + list(test.comparators)
        vals = []
        for o in operands:
            if _len_of(o, name):
                vals.append(k)
            else:
                lit = tables.literal(o)
                if isinstance(lit, (int, tuple, list, set)) and not isinstance(lit, bool):
                    vals.append(lit)
                else:
                    return None
        if not any(_len_of(o, name) for o in operands):
            return None
        res = True
        for (x, op, y) in zip(vals, test.ops, vals[1:]):
            try:
                if isinstance(op, ast.Eq): ok = x == y
                elif isinstance(op, ast.NotEq): ok = x != y
                elif isinstance(op, ast.Lt): ok = x < y
                elif isinstance(op, ast.LtE): ok = x <= y
                elif isinstance(op, ast.Gt): ok = x > y
                elif isinstance(op, ast.GtE): ok = x >= y
                elif isinstance(op, ast.In): ok = x in y
                elif isinstance(op, ast.NotIn): ok = x not in y
                else: return None
            except TypeError:
                return None
            res = res and ok
        return res
    if isinstance(test, ast.Name) and test.id == name:
        return k > 0
    return None


def passed_lengths(fn, node, at=None):
    """Possible lengths of the argument-list expression `node` at call `at` inside fn — the finite length domain:
    a forward analysis over fn with one abstract state per candidate length, refined by len() guards and
    updated by append/insert/concatenation.  None = unknown."""
    from ..engine import pyflow
    if node is None:
        return None
    if isinstance(node, (ast.List, ast.Tuple)):
        if any(isinstance(e, ast.Starred) for e in node.elts):
            return None
        return {len(node.elts)}
    if isinstance(node, ast.BinOp) and isinstance(node.op, ast.Add):
        a, b = passed_lengths(fn, node.left, at), passed_lengths(fn, node.right, at)
        if a is None or b is None:
            return None
        return {x + y for x in a for y in b}
    if isinstance(node, ast.Call) and isinstance(node.func, ast.Name) and node.func.id in ('list', 'tuple') and len(node.args) == 1:
        return passed_lengths(fn, node.args[0], at)
    if isinstance(node, ast.IfExp):
        a, b = passed_lengths(fn, node.body, at), passed_lengths(fn, node.orelse, at)
        return None if a is None or b is None else a | b
    if not isinstance(node, ast.Name) or at is None:
        return None
    name = node.id
    seen = set()
    UNK = '?'

    def getk(state):
        for f in state:
            if isinstance(f, tuple) and f[0] == 'len':
                return f[1]
        return UNK

    def setk(state, k):
        return frozenset([f for f in state if not (isinstance(f, tuple) and f[0] == 'len')] + [('len', k)])

    def static_len(v, k):
        if isinstance(v, (ast.List, ast.Tuple)) and not any(isinstance(e, ast.Starred) for e in v.elts):
            return len(v.elts)
        if isinstance(v, ast.Name) and v.id == name:
            return k
        if isinstance(v, ast.Call) and isinstance(v.func, ast.Name) and v.func.id in ('list', 'tuple') and len(v.args) == 1:
            return static_len(v.args[0], k)
        if isinstance(v, ast.Subscript) and isinstance(v.value, ast.Name) and v.value.id == name and isinstance(v.slice, ast.Slice) \
                and v.slice.lower is None and v.slice.upper is None and v.slice.step is None:
            return k
        if isinstance(v, ast.BinOp) and isinstance(v.op, ast.Add):
            a, b = static_len(v.left, k), static_len(v.right, k)
            if a == UNK or b == UNK:
                return UNK
            return a + b
        return UNK

    def transfer(n, state):
        k = getk(state)
        if any(c is at for c in pyflow.calls_in(n)):
            seen.add(k)
        if isinstance(n, ast.Assign):
            for t in n.targets:
                if isinstance(t, ast.Name) and t.id == name:
                    return setk(state, static_len(n.value, k))
                if any(isinstance(x, ast.Name) and x.id == name and isinstance(x.ctx, ast.Store) for x in ast.walk(t)):
                    return setk(state, UNK)
        elif isinstance(n, ast.AugAssign) and isinstance(n.target, ast.Name) and n.target.id == name:
            add = static_len(n.value, k)
            return setk(state, UNK if UNK in (add, k) else k + add)
        elif isinstance(n, (ast.For, ast.comprehension)):
            pass
        for c in pyflow.calls_in(n):
            if isinstance(c.func, ast.Attribute) and isinstance(c.func.value, ast.Name) and c.func.value.id == name:
                if c.func.attr in ('append', 'insert'):
                    k = UNK if k == UNK else k + 1
                elif c.func.attr in ('extend', 'pop', 'remove', 'clear'):
                    k = UNK
        return setk(state, k)

    def refine(test, truth, state):
        k = getk(state)
        if k == UNK:
            return state
        v = _eval_len_test(test, name, k)
        if v is not None and v != truth:
            return None
        return state

    params = [a.arg for a in fn.args.args + fn.args.kwonlyargs]
    if name in params:
        inits = [frozenset([('len', k)]) for k in LEN_UNIVERSE]
    else:
        inits = [frozenset([('len', UNK)])]
    flow = pyflow.Flow(transfer, refine=refine, correlate=False)
    try:
        for st in inits:
            flow.block(fn.body, {st})
    except pyflow.TooManyStates:
        return None
    if not seen or UNK in seen:
        return None
    if name in params and max(seen) >= LEN_UNIVERSE[-1] - 1:
        return None   # unbounded above
    return seen


def c_prototypes(ctx, cname):
    """-> list of (source, ret text, [param type texts] or None, [names], decl|None) for a C name."""
    cat = ctx.cat
    out = []
    for d in cat.lookup(cname):
        if d.kind in ('func', 'proto'):
            out.append(('utility %s:%s' % (d.file, d.line), d.ret, d.param_types(), d.param_names(), d))
        elif d.kind == 'macro' and d.params is not None:
            fw = cat.forwarding(d)
            if fw and fw[0] != cname:
                # follow a forwarding macro: positions map through parameter names
                for src, ret, ptypes, pnames, dd in c_prototypes(ctx, fw[0]):
                    if ptypes is None:
                        continue
                    types = []
                    for mp in d.params:
                        mp = mp.strip()
                        idx = [i for i, a in enumerate(fw[1]) if re.fullmatch(r'\(?\s*(?:\([^)]*\)\s*)?%s\s*\)?' % re.escape(mp), a.strip())]
                        types.append(ptypes[idx[0]] if idx and idx[0] < len(ptypes) else None)
                    out.append(('macro %s:%s -> %s' % (d.file, d.line, fw[0]), ret, types, [p.strip() for p in d.params], d))
            else:
                out.append(('macro %s:%s' % (d.file, d.line), None, [None] * len(d.params), [p.strip() for p in d.params], d))
    if not out and re.match(r'_?Py[A-Z_]', cname):
        api = tables.cpython_api()
        if cname in api:
            ret, params = api[cname]
            types = []
            for p in params:
                p2 = re.sub(r'\b[a-z_]\w*\s*$', '', p) if re.search(r'[\*\s][a-z_]\w*\s*$', p) and not re.fullmatch(r'(?:const\s+)?(?:unsigned\s+)?\w+', p.strip()) else p
                types.append(' '.join(p2.replace('*', ' * ').split()))
            out.append(('CPython header', ret, types, [None] * len(types), None))
    return out


def rule_I3(ctx, modules=('Optimize', 'Builtin', 'ExprNodes', 'ParseTreeTransforms', 'Nodes', 'MatchCaseNodes', 'UtilNodes', 'Dataclass'), floor=55):
    ix = ctx.index
    r = Rule('I3', 'typed helper calls (PythonCapiCallNode/_substitute_method_call): passed arity == C arity <= declared arity; '
             'declared argument/return categories and exception_value agree with the C prototype', floor)
    unresolved = collections.Counter()
    for ms in modules:
        m = ix.mod(ms)
        ftypes = collect_functypes(ix, m)
        for qn, owner, fn in ix.functions_of(m):
            env = None
            for n in walk_no_nested(fn):
                if not isinstance(n, ast.Call):
                    continue
                callee = n.func.attr if isinstance(n.func, ast.Attribute) else getattr(n.func, 'id', None)
                if callee not in SITES:
                    continue
                ci, fi, ai = SITES[callee]
                kw = {k.arg: k.value for k in n.keywords if k.arg}
                cn = n.args[ci] if len(n.args) > ci else kw.get('function_name') or kw.get('cname') or kw.get('name')
                ft = n.args[fi] if len(n.args) > fi else kw.get('func_type')
                an = kw.get('args')
                if an is None and ai is not None and len(n.args) > ai:
                    an = n.args[ai]
                if cn is None or ft is None:
                    continue
                if env is None:
                    env = local_env(fn)
                cnames = const_strs(cn, env)
                if cnames is None:
                    unresolved['cname'] += 1
                    continue
                decls = resolve_functype(ix, m, owner, ftypes, ft, env, fn, n)
                pair_map = None
                if isinstance(cn, ast.Name) and isinstance(ft, ast.Name) and cn.id in env and ft.id in env and len(env[ft.id]) > 1:
                    pair_map = {}
                    for va, vb in paired_values(fn, cn.id, ft.id):
                        for nm in (const_strs(va, env) or ()):
                            if vb is not None:
                                pair_map.setdefault(nm, []).extend(resolve_functype(ix, m, owner, ftypes, vb, None, fn, n))
                if not decls:
                    unresolved['functype'] += 1
                    continue
                plens = passed_lengths(fn, an, n)
                for cname in sorted(cnames):
                    protos = c_prototypes(ctx, cname)
                    key = '%s.%s:%s' % (m.short, qn, cname)
                    if not protos:
                        unresolved['noproto'] += 1
                        if cname.startswith(('__Pyx_', '__pyx_')):
                            r.inst(key, sample='%s -> %s (no C declaration!)' % (key, cname))
                            r.violate(key + ':undeclared', m.rel, n.lineno,
                                      'typed call to %s, but no utility section declares a C function or macro of that name' % cname)
                        continue
                    r.inst(key, sample='%s calls %s with func type %s, passing %s args' % (m.short + '.' + qn, cname, node_src(ft, 50), sorted(plens) if plens else '?'))
                    dl = decls
                    if pair_map is not None and pair_map.get(cname):
                        dl = pair_map[cname]
                    uniq = []
                    for d in dl:
                        if not any(d.call is u.call for u in uniq):
                            uniq.append(d)
                    for d in uniq:
                        _check_site(r, m, n, key, cname, d, plens, protos, len(uniq) > 1)
    r.info('unresolved (never alarms): %s' % dict(unresolved))
    return r


def _check_site(r, m, n, key, cname, d, plens, protos, ambiguous):
    if d.args is None:
        return
    D = len(d.args)
    c_ar = {len(p[2]) for p in protos if p[2] is not None}
    variadic = any(p[4] is not None and p[4].variadic for p in protos) or d.has_varargs
    if plens is not None and not variadic:
        if max(plens) > D:
            # not a necessary condition: PythonCapiCallNode emits all passed arguments and only uses the declared
            # types of the positions that exist (MatchCaseNodes passes 3 args with a 2-arg func type and works)
            r.info('%s passes up to %d arguments but its CFuncType declares only %d (information only)' % (key, max(plens), D))
        if c_ar and not (plens & c_ar) and not ambiguous:
            r.violate(key + ':arity', m.rel, n.lineno,
                      'call to %s passes %s argument(s) but the C declaration takes %s' % (cname, sorted(plens), sorted(c_ar)))
        elif c_ar and not plens <= c_ar and len(c_ar) == 1 and len(plens) == 1 and not ambiguous:
            r.violate(key + ':arity', m.rel, n.lineno,
                      'call to %s passes %s argument(s) but the C declaration takes %s' % (cname, sorted(plens), sorted(c_ar)))
    elif plens is None and not variadic and c_ar and not ambiguous:
        if D not in c_ar and all(D < c for c in c_ar):
            r.violate(key + ':declared<C', m.rel, n.lineno,
                      'CFuncType for %s declares %d arguments but the C declaration takes %s' % (cname, D, sorted(c_ar)))
    if ambiguous:
        return
    # categories per passed position and return
    npos = max(plens) if plens else D
    for src, ret, ptypes, pnames, decl in protos:
        if ptypes is None or (not variadic and len(ptypes) < npos):
            continue
        for i in range(min(npos, len(ptypes), D)):
            pc = py_category(d.args[i][1]) if d.args[i][1] else None
            cc = c_category(ptypes[i]) if ptypes[i] else None
            if pc and cc and pc != cc and not (pc == 'pointer' and cc == 'object') and not (pc == 'object' and cc == 'pointer' and 'PyObject' in (ptypes[i] or '') and ptypes[i].count('*') == 1):
                r.violate(key + ':arg%d' % i, m.rel, n.lineno,
                          'argument %d of %s is declared as %s (%s) but the C parameter is %r (%s) [%s]' % (
                              i, cname, d.args[i][1], pc, ptypes[i], cc, src))
        if ret:
            pc, cc = py_category(d.ret), c_category(ret)
            if pc and cc and pc != cc and not (pc == 'void' or cc == 'void'):
                r.violate(key + ':ret', m.rel, n.lineno,
                          'return type of %s is declared as %s (%s) but the C function returns %r (%s) [%s]' % (cname, d.ret, pc, ret, cc, src))
            ev = d.exception_value
            if ev is not None and cc == 'object' and ev not in ('"NULL"', "'NULL'", 'None'):
                r.violate(key + ':excval', m.rel, n.lineno, 'exception_value=%s declared for %s which returns an object' % (ev, cname))


# ------------------------------------------------------------------------------------ I4 builtin tables
SIG_CAT = {'O': 'object', 'T': 'object', '?': 'object', 'i': 'int', 'b': 'int', 'l': 'int', 'h': 'int', 'z': 'int', 'r': 'int',
           'd': 'double', 'f': 'double', 's': 'pointer', 'S': 'pointer', 'p': 'pointer', 'P': 'pointer', 'I': 'pointer',
           'Z': 'pointer', 'B': 'pointer', 'v': 'void'}


def rule_I4(ctx, floor=50):
    """Rows of the builtin override tables in Builtin.py: signature string <-> C prototype of the C name."""
    ix = ctx.index
    m = ix.mod('Builtin')
    r = Rule('I4', 'BuiltinFunction/BuiltinMethod table rows: the signature string (O z i b r T ...) agrees with the C prototype of the row\'s C function in arity and argument/return categories', floor)
    unknown = 0
    for n in ast.walk(m.tree):
        if not (isinstance(n, ast.Call) and isinstance(n.func, ast.Name) and n.func.id in ('BuiltinFunction', 'BuiltinMethod')):
            continue
        if len(n.args) < 4:
            continue
        pyname, args, ret, cname = (tables.literal(a) for a in n.args[:4])
        if not (isinstance(args, str) and isinstance(ret, str) and isinstance(cname, str) and isinstance(pyname, str)):
            unknown += 1
            continue
        if '*' in args or '-' in args:
            unknown += 1
            continue
        protos = c_prototypes(ctx, cname)
        if not protos:
            unknown += 1
            continue
        key = 'Builtin:%s:%s(%s)->%s' % (pyname, cname, args, ret)
        r.inst(key, sample=key)
        ars = {len(p[2]) for p in protos if p[2] is not None}
        if ars and len(args) not in ars:
            r.violate(key + ':arity', m.rel, n.lineno, 'builtin %r is declared with %d argument(s) (%r) but C function %s takes %s' % (pyname, len(args), args, cname, sorted(ars)))
            continue
        for src, cret, ptypes, pnames, decl in protos:
            if ptypes is None or len(ptypes) != len(args):
                continue
            for i, ch in enumerate(args):
                cc = c_category(ptypes[i]) if ptypes[i] else None
                pc = SIG_CAT.get(ch)
                if cc and pc and cc != pc and not (pc == 'object' and cc == 'pointer' and 'Object' in ptypes[i]):
                    r.violate(key + ':arg%d' % i, m.rel, n.lineno, "argument %d of builtin %r has signature char %r (%s) but C parameter of %s is %r (%s) [%s]" % (i, pyname, ch, pc, cname, ptypes[i], cc, src))
            if cret:
                cc, pc = c_category(cret), SIG_CAT.get(ret[:1])
                if cc and pc and cc != pc and 'void' not in (cc, pc):
                    r.violate(key + ':ret', m.rel, n.lineno, 'builtin %r return signature %r (%s) but C function %s returns %r (%s) [%s]' % (pyname, ret, pc, cname, cret, cc, src))
    r.info('%d rows without constant signature/C prototype (libc functions, generated names) are not checked' % unknown)
    return r
