"""C07-TRISTATE: an explicitly given cpow value is final - only the unset state may be replaced by a guess.

PowNode.is_cpow is a tri-state: None (directive not given - the 3.x default), False, True.  `coerce_to` may "guess the user intent" and re-analyse
`a ** b` with C semantics when the node is assigned to a C variable - but only while the directive is UNSET; with an explicit cpow=False the
documented table (column cpow==False) is binding.  Obligations, all over the COMPLETE domain {None, False, True} of the attribute:

  (A) override stores.  For every store `R.is_cpow = V` (any function of the compiler; V not the directive read itself) the path condition of the
      store - if/elif nesting, early exits, and/or short circuit (rules/pC02.path_conditions), single-assignment locals and one-expression helper
      methods inlined, and for a private helper the path conditions of its call sites - is evaluated for R.is_cpow in {None, False, True} and every
      valuation of the remaining opaque tests.  A satisfiable valuation with R.is_cpow explicit (False / True) and a stored value different from
      it is the finding: the explicit setting is silently replaced.
  (B) the writer keeps the states apart: the value stored from directives['cpow'] is not None when the directive is False (otherwise (A)'s
      `is None` guards treat an explicit False as unset), and the class default of is_cpow is None (the state "not read yet").
  (C) (in props/C07, C07-TAB) compute_c_result_type gives the unset state the documented default column (cpow==False).
NOT decided: what the re-analysis does for the unset state (it is documented only by the warning it emits)."""
import ast, copy

from ..core import Rule, AnalysisError, node_src
from ..engine.pyindex import walk_no_nested
from . import pC02 as P

RID = 'C07-TRISTATE'
ATTR = 'is_cpow'
DOMAIN = [None, False, True]


def _strip_txt(tree):
    for n in ast.walk(tree):
        if hasattr(n, '_sa_txt'):
            try:
                del n._sa_txt
            except AttributeError:
                pass
    return tree


def _is_directive_read(v):
    return any(isinstance(n, ast.Subscript) and isinstance(n.slice, ast.Constant) and isinstance(n.slice.value, str) for n in ast.walk(v))


def stores_of(fn):
    """[(assign stmt, receiver text)] for `R.is_cpow = V` in fn (nested functions excluded)"""
    out = []
    for s in walk_no_nested(fn):
        if isinstance(s, (ast.Assign, ast.AugAssign, ast.AnnAssign)):
            tgts = s.targets if isinstance(s, ast.Assign) else [s.target]
            for t in tgts:
                for x in ([t] if not isinstance(t, (ast.Tuple, ast.List)) else t.elts):
                    if isinstance(x, ast.Attribute) and x.attr == ATTR:
                        out.append((s, ast.unparse(x.value)))
    return out


def nested_store(fn):
    for d in ast.walk(fn):
        if d is not fn and isinstance(d, (ast.FunctionDef, ast.AsyncFunctionDef, ast.Lambda)):
            for n in ast.walk(d):
                if isinstance(n, ast.Attribute) and n.attr == ATTR and isinstance(n.ctx, ast.Store):
                    return True
    return False


class _Inline(ast.NodeTransformer):
    """replace single-assignment locals and calls of one-expression methods of the receiver by their defining expression"""

    def __init__(self, fn, ix, cls, depth=0):
        self.ix, self.cls, self.depth = ix, cls, depth
        self.selfname = fn.args.args[0].arg if fn.args.args else None
        params = {a.arg for a in fn.args.args + fn.args.kwonlyargs + fn.args.posonlyargs}
        counts, vals = {}, {}
        for n in walk_no_nested(fn):
            if isinstance(n, ast.Name) and isinstance(n.ctx, (ast.Store, ast.Del)):
                counts[n.id] = counts.get(n.id, 0) + 1
            if isinstance(n, ast.Assign) and len(n.targets) == 1 and isinstance(n.targets[0], ast.Name):
                vals[n.targets[0].id] = n.value
        self.locals = {k: v for k, v in vals.items() if counts.get(k) == 1 and k not in params}
        self.busy = set()

    def visit_Name(self, n):
        if isinstance(n.ctx, ast.Load) and n.id in self.locals and n.id not in self.busy and len(self.busy) < 4:
            self.busy.add(n.id)
            v = self.visit(copy.deepcopy(self.locals[n.id]))
            self.busy.discard(n.id)
            return v
        return n

    def visit_Call(self, n):
        self.generic_visit(n)
        f = n.func
        if (self.cls is not None and self.depth < 2 and not n.args and not n.keywords and isinstance(f, ast.Attribute)
                and isinstance(f.value, ast.Name) and f.value.id == self.selfname):
            hit = self.ix.find_method(self.cls, f.attr)
            if hit is not None:
                m = hit[1]
                body = [s for s in m.body if not (isinstance(s, ast.Expr) and isinstance(s.value, ast.Constant))]
                if len(m.args.args) == 1 and len(body) == 1 and isinstance(body[0], ast.Return) and body[0].value is not None:
                    e = copy.deepcopy(body[0].value)
                    other = m.args.args[0].arg
                    if other != self.selfname:
                        for x in ast.walk(e):
                            if isinstance(x, ast.Name) and x.id == other:
                                x.id = self.selfname
                    return _Inline(m, self.ix, self.cls, self.depth + 1).visit(e)
        return n

    def visit_Lambda(self, n):
        return n


def _inlined(conds, fn, ix, cls):
    out = []
    inl = _Inline(fn, ix, cls)
    for t, truth in conds:
        t2 = inl.visit(copy.deepcopy(t))
        ast.fix_missing_locations(t2)
        out.append((_strip_txt(t2), truth))
    return out


def admitted(conds, key):
    """the values of `key` (text of R.is_cpow) for which the conjunction of conds is satisfiable, with one witness valuation each"""
    tests = [t for t, _ in conds]
    ok = {}
    for subst, atoms, vals in P.truth_table(tests, {key: list(DOMAIN)}):
        if P.conj_holds(conds, vals) and subst[key] not in ok:
            ok[subst[key]] = dict(atoms)
    return ok


def _same(a, b):
    return a is b or (type(a) is type(b) and a == b)


def store_problem(fn, stmt, recv, ix, cls):
    """None, or (explicit value overridden, stored value text, guard text) for an override store"""
    key = '%s.%s' % (recv, ATTR)
    pcs = P.path_conditions(fn, lambda n: n is stmt.value)
    if not pcs:
        raise AnalysisError('%s: no path condition for %s' % (RID, node_src(stmt, 60)))
    conds = _inlined(pcs[0][1], fn, ix, cls)
    adm = admitted(conds, key)
    guard = ' and '.join(('' if tr else 'not ') + '(' + ast.unparse(t) + ')' for t, tr in conds) or '<unconditional>'
    for cur in (False, True):
        if cur not in adm:
            continue
        v = stmt.value
        if isinstance(stmt, ast.AugAssign):
            return cur, ast.unparse(stmt), guard
        if ast.unparse(v) == key:
            continue
        try:
            val = P.Ev(subst={key: cur}).ev(v)
        except P.Unknown:
            return cur, ast.unparse(v), guard
        if not _same(val, cur):
            return cur, repr(val), guard
    return None


def call_sites(ix, classes, name):
    """[(class, fn, call)] for self.<name>(...) in the methods of the classes"""
    out = []
    for c in classes:
        for fn in c.methods.values():
            sn = fn.args.args[0].arg if fn.args.args else None
            for n in ast.walk(fn):
                if isinstance(n, ast.Call) and isinstance(n.func, ast.Attribute) and n.func.attr == name and isinstance(n.func.value, ast.Name) and n.func.value.id == sn:
                    out.append((c, fn, n))
    return out


def guarded_by_callers(ix, cone, cls, fn, cur, depth=0):
    """True if fn is a private helper of the cone (no base class above the cone defines it) and every call site lies on a path that excludes
    R.is_cpow == cur"""
    if depth > 2:
        return False
    for k in ix.mro(cls):
        if k not in cone and fn.name in k.methods:
            return False        # an override of an inherited entry point: called from outside the class
    sites = call_sites(ix, cone, fn.name)
    if not sites:
        return False
    for c, caller, call in sites:
        if any(call is n or any(call is x for x in ast.walk(n)) for n in ast.walk(caller) if n is not caller and isinstance(n, (ast.FunctionDef, ast.Lambda))):
            return False        # called from a nested function: no path condition
        pcs = P.path_conditions(caller, lambda n: n is call)
        if not pcs:
            return False
        conds = _inlined(pcs[0][1], caller, ix, c)
        adm = admitted(conds, 'self.%s' % ATTR if caller.args.args and caller.args.args[0].arg == 'self' else '%s.%s' % (caller.args.args[0].arg, ATTR))
        if cur in adm and not guarded_by_callers(ix, cone, c, caller, cur, depth + 1):
            return False
    return True


def writer_problem(stmt):
    """the directive-read store: value for directive False must not be None"""
    reads = [n for n in ast.walk(stmt.value) if isinstance(n, ast.Subscript) and isinstance(n.slice, ast.Constant) and n.slice.value == 'cpow']
    if len(reads) != 1:
        return None             # shape is C07-CPOW's business
    txt = ast.unparse(reads[0])
    out = {}
    for d in DOMAIN:
        try:
            out[d] = P.Ev(subst={txt: d}).ev(_strip_txt(copy.deepcopy(stmt.value)))
        except P.Unknown:
            return None         # C07-CPOW reports non-evaluable writers
    if out[False] is None:
        return 'stores None when the directive is explicitly False (%s): an explicit cpow=False cannot be told from "not given", and every `is_cpow is None` test ' \
               '(coerce_to\'s fall-back to C semantics) treats it as unset' % ast.unparse(stmt.value)
    if out[None]:
        return 'stores %r for an unset directive: the documented default column (cpow==False) is not used' % (out[None],)
    return None


POSITIVE = '''
class PowNode:
    is_cpow = None
    def coerce_to(self, dst_type, env):
        if dst_type == self.type:
            return self
        guess = not self.is_cpow
        if guess and self.type_was_inferred:
            self._retype(env)
        return self

    def _retype(self, env):
        self.is_cpow = True
        return self.analyse_types(env)

    def ok(self, env):
        if self.is_cpow is not None:
            return self
        if self.type_was_inferred:
            self.is_cpow = True
        return self
'''


class _PcIndex:
    def __init__(self, cls):
        self.c = cls

    def find_method(self, c, name):
        return (c, c.methods[name]) if name in c.methods else None

    def mro(self, c):
        return [c]


class _PcClass:
    def __init__(self, node):
        self.qual = self.name = node.name
        self.methods = {f.name: f for f in node.body if isinstance(f, ast.FunctionDef)}


def check_function(ix, cone, cls, fn, qual, r, rel):
    n = 0
    if nested_store(fn):
        raise AnalysisError('%s: %s assigns %s inside a nested function; no path condition can be computed' % (RID, qual, ATTR))
    for stmt, recv in stores_of(fn):
        if not isinstance(stmt, ast.AugAssign) and _is_directive_read(stmt.value):
            key = '%s:%s=directive' % (qual, ATTR)
            if r is not None:
                r.inst(key, sample='%s: %s' % (key, node_src(stmt, 70)))
            n += 1
            msg = writer_problem(stmt)
            if msg and r is not None:
                r.violate(key + ':collapsed', rel, stmt.lineno, '%s %s' % (qual, msg))
            continue
        key = '%s:%s=%s' % (qual, ATTR, ast.unparse(stmt.value)[:40])
        n += 1
        prob = store_problem(fn, stmt, recv, ix, cls)
        if prob is not None and cls is not None and guarded_by_callers(ix, cone, cls, fn, prob[0]):
            prob = None
        if r is not None:
            r.inst(key, sample='%s under %s' % (key, 'an `unset` guard' if prob is None else 'NO unset guard'))
            if prob is not None:
                cur, val, guard = prob
                r.violate(key, rel, stmt.lineno,
                          '%s stores %s into %s.%s on a path that is taken when %s.%s is %r (guard: %s): an explicit `cpow=%s` directive is silently replaced - with cpow=False '
                          '`cdef double r = a ** b` is re-typed as C pow() (nan instead of the complex value / TypeError of the documented soft-complex result, 2 ** -1 == 0 for C ints) '
                          'although only an UNSET directive (None) may be guessed' % (qual, val, recv, ATTR, recv, ATTR, cur, guard[:300], cur))
        elif prob is not None:
            return n, prob
    return n, None


def rule_tristate(ctx, floor=3):
    ix = ctx.index
    r = Rule(RID, 'an explicit cpow setting is final: every store to is_cpow other than the directive read is reachable only while is_cpow is None (path conditions over '
                  '{None, False, True}, helpers and locals inlined), the directive read keeps False apart from None, the class default is None', floor)
    cls = ix.cls('ExprNodes', 'PowNode')
    if cls is None:
        raise AnalysisError('%s: ExprNodes.PowNode vanished' % RID)
    cone = [cls] + [k for k in ix.subclasses(cls) if k is not cls]
    # class default
    d = ix.find_class_attr(cls, ATTR)
    key = '%s.%s:default' % (cls.qual, ATTR)
    r.inst(key, sample='%s = %s' % (key, ast.unparse(d[1]) if d else '<missing>'))
    if d is None:
        r.violate(key, cls.module.rel, cls.node.lineno, '%s has no class-level default for %s: reading it before type analysis raises AttributeError' % (cls.qual, ATTR))
    elif not (isinstance(d[1], ast.Constant) and d[1].value is None):
        r.violate(key, d[0].module.rel, d[1].lineno, '%s.%s defaults to %s instead of None: the state "directive not read yet" does not exist, so the method that reads '
                                                      'directives[\'cpow\'] only while the attribute is None never runs and `cpow=True` / `cpow=False` are ignored' % (cls.qual, ATTR, ast.unparse(d[1])))
    seen = 0
    for c in cone:
        for name, fn in sorted(c.methods.items()):
            n, _ = check_function(ix, cone, c, fn, '%s.%s' % (c.qual, name), r, c.module.rel)
            seen += n
    # stores from outside the class (a transform that re-types a PowNode)
    for m in ix.modules.values():
        if ('.' + ATTR) not in m.src:
            continue
        for qual, owner, fn in ix.functions_of(m):
            if owner is not None and owner in cone and fn.name in owner.methods and owner.methods[fn.name] is fn:
                continue
            n, _ = check_function(ix, cone, None, fn, '%s.%s' % (m.short, qual), r, m.rel)
            seen += n
    if not seen:
        raise AnalysisError('%s: no store to %s found' % (RID, ATTR))
    pcc = _PcClass(ast.parse(POSITIVE).body[0])
    pix = _PcIndex(pcc)
    _n1, p1 = check_function(pix, [pcc], pcc, pcc.methods['_retype'], 'PowNode._retype', None, '')
    _n2, p2 = check_function(pix, [pcc], pcc, pcc.methods['ok'], 'PowNode.ok', None, '')
    r.positive_control(p1 is not None and p1[0] is False and p2 is None,
                       'helper called under `not self.is_cpow` through a local (fires for False) next to an early-return `is not None` guard (silent)')
    return r
