"""C23-UNDEL: __Pyx__Coroutine_Throw raises into the generator's own frame (label throw_here) only with the delegation cleared.

Reaching `throw_here` while gen->yieldfrom is still set makes the body resume after the exception with a stale sub-iterator:
the next send()/next() is forwarded to the already finished/failed delegate instead of running the generator body."""
import re

from ..core import Rule, AnalysisError
from ..engine.cutil import strip_c_comments
from ..engine.cguard import dominators, _match_brace


def sites(text, fname='__Pyx__Coroutine_Throw', label='throw_here', clear='__Pyx_Coroutine_Undelegate'):
    m = re.search(r'^static[^;{}]*\b%s\s*\([^;{}]*\)\s*\{' % re.escape(fname), text, re.M)
    if not m:
        raise AnalysisError('%s not found' % fname)
    b0 = m.end() - 1
    b1 = _match_brace(text, b0)
    body = text[b0:b1 + 1]
    if not re.search(r'^\s*%s\s*:' % label, body, re.M):
        raise AnalysisError('label %s not found in %s' % (label, fname))
    out = []
    for g in re.finditer(r'\bgoto\s+%s\s*;' % label, body):
        doms = dominators(body, g.start())
        # statements executed since the delegate was read
        start = 0
        for i, d in enumerate(doms):
            if re.match(r'\s*\w+\s*=\s*gen->yieldfrom\s*;', d):
                start = i
        cleared = any(re.match(r'\s*%s\s*\(\s*gen\s*\)\s*;' % clear, d) for d in doms[start:])
        line = text.count('\n', 0, b0 + g.start()) + 1
        out.append((line, cleared, len(doms)))
    return out


def rule_undelegate(ctx, floor=2):
    rel = 'Cython/Utility/Coroutine.c'
    r = Rule('C23-UNDEL', 'every jump to throw_here in __Pyx__Coroutine_Throw is dominated by __Pyx_Coroutine_Undelegate(gen): the exception is raised '
             'inside the generator body only after the delegation to the sub-iterator has been cleared', floor)
    text = strip_c_comments(ctx.read(rel))
    for i, (line, cleared, n) in enumerate(sites(text)):
        key = 'Coroutine.c:__Pyx__Coroutine_Throw:goto-throw_here#%d' % i
        r.inst(key, sample='%s line %d: %d dominating statements, undelegated=%s' % (key, line, n, cleared))
        if not cleared:
            r.violate(key, rel, line, 'goto throw_here at line %d is reached with gen->yieldfrom still set (no __Pyx_Coroutine_Undelegate(gen) on the way): '
                      'after the exception is handled inside the generator, the next send() is forwarded to the stale delegate' % line)
    pc = ('static PyObject *__Pyx__Coroutine_Throw(PyObject *self) {\n yf = gen->yieldfrom;\n if (yf) {\n  if (a) {\n   __Pyx_Coroutine_Undelegate(gen);\n   goto throw_here;\n  }\n'
          '  if (!meth) {\n   Py_DECREF(yf);\n   goto throw_here;\n  }\n }\nthrow_here:\n return 0;\n}\n')
    got = [c for _, c, _ in sites(pc)]
    r.positive_control(got == [True, False], 'goto without undelegate recognised')
    return r
