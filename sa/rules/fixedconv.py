"""C05-FIXED: the hand-named conversion functions of the fixed C integer types (size_t, Py_ssize_t, Py_hash_t, Py_UCS4, ...) take /
return a C type that can hold every value of the type they convert (same signedness class, at least the width)."""
import ast, re

from ..core import Rule, AnalysisError
from ..engine import tables

# (signed?, width class) of the C type names involved; width classes are ordered: 8 < 16 < 32 < 'long' <= 'ptr' < 64ll
# Source: C standard minimum widths + CPython's pyport.h (Py_ssize_t / Py_hash_t are signed, pointer sized; size_t unsigned pointer sized)
TYPES = {
    'size_t': (False, 4), 'Py_ssize_t': (True, 4), 'Py_hash_t': (True, 4), 'Py_uhash_t': (False, 4), 'ssize_t': (True, 4),
    'Py_UCS4': (False, 2), 'Py_UNICODE': (False, 2), 'int': (True, 2), 'unsigned int': (False, 2), 'long': (True, 3), 'unsigned long': (False, 3),
    'long long': (True, 5), 'unsigned long long': (False, 5), 'PY_LONG_LONG': (True, 5), 'unsigned PY_LONG_LONG': (False, 5),
    'short': (True, 1), 'unsigned short': (False, 1), 'char': (True, 0), 'unsigned char': (False, 0), 'wchar_t': (False, 2),
}


def norm_type(t):
    t = re.sub(r'\b(const|CYTHON_INLINE|static|CYTHON_UNUSED|register)\b', ' ', t or '')
    t = re.sub(r'\b[a-z_]\w*$', lambda m: m.group(0) if m.group(0) in ('int', 'long', 'short', 'char', 't', 'size_t', 'ssize_t', 'wchar_t') or m.group(0).endswith('_t') else '', t.strip())
    return ' '.join(t.split())


def holds(container, value):
    """Can C type `container` represent every value of C type `value`?"""
    if container not in TYPES or value not in TYPES:
        return None
    cs, cw = TYPES[container]
    vs, vw = TYPES[value]
    if cs == vs:
        return cw >= vw
    if cs and not vs:
        return cw > vw
    return False


def class_constants(ctx):
    """class name -> dict(sign_and_name=<literal>, to_py_function=<literal>, from_py_function=<literal>, line)"""
    tree = ctx.parse('Cython/Compiler/PyrexTypes.py')
    out = {}
    for c in tree.body:
        if not isinstance(c, ast.ClassDef):
            continue
        d = {'line': c.lineno}
        for s in c.body:
            if isinstance(s, ast.Assign) and len(s.targets) == 1 and isinstance(s.targets[0], ast.Name) and s.targets[0].id in ('to_py_function', 'from_py_function') \
                    and isinstance(s.value, ast.Constant) and isinstance(s.value.value, str):
                d[s.targets[0].id] = (s.value.value, s.lineno)
            if isinstance(s, ast.FunctionDef) and s.name == 'sign_and_name':
                rets = [x for x in ast.walk(s) if isinstance(x, ast.Return)]
                if len(rets) == 1 and isinstance(rets[0].value, ast.Constant) and isinstance(rets[0].value.value, str):
                    d['sign_and_name'] = rets[0].value.value
        if 'sign_and_name' in d and ('to_py_function' in d or 'from_py_function' in d):
            out[c.name] = d
    return out


def prototype(ctx, fname, _depth=0):
    """-> (return type, [param types]) from the utility-code catalogue or the CPython headers"""
    ds = [d for d in ctx.cat.lookup(fname) if d.kind in ('func', 'proto') and d.params is not None]
    if ds:
        d = ds[0]
        return norm_type(d.ret), [norm_type(p) for p in d.param_types()]
    for d in ctx.cat.lookup(fname):
        if d.kind == 'macro' and _depth < 3:
            body = (d.body or '').strip()
            if re.fullmatch(r'[A-Za-z_]\w*', body):
                return prototype(ctx, body, _depth + 1)
            m = re.fullmatch(r'([A-Za-z_]\w*)\s*\(\s*(\w+)\s*\)', body)
            if m and d.params and [m.group(2)] == [x.strip() for x in d.params]:
                return prototype(ctx, m.group(1), _depth + 1)
    api = tables.cpython_api()
    if fname in api:
        ret, params = api[fname]
        return norm_type(ret), [norm_type(re.sub(r'\b[a-z_]\w*$', '', p) if len(p.split()) > 1 and not p.strip().endswith(('_t', 'int', 'long')) else p) for p in params]
    return None


def rule_fixed(ctx, floor=7):
    r = Rule('C05-FIXED', 'hand-named to_py/from_py functions of the fixed C integer types take / return a C type that holds every value of the converted type '
             '(same signedness class, at least the width)', floor)
    rel = 'Cython/Compiler/PyrexTypes.py'
    consts = class_constants(ctx)
    if len(consts) < 5:
        raise AnalysisError('only %d fixed integer type classes with constant conversion functions found' % len(consts))
    for cname, d in sorted(consts.items()):
        t = d['sign_and_name']
        if t not in TYPES:
            r.info('%s: C type %r not in the width table' % (cname, t))
            continue
        for attr in ('to_py_function', 'from_py_function'):
            if attr not in d:
                continue
            fname, line = d[attr]
            key = 'PyrexTypes.%s.%s' % (cname, attr)
            pr = prototype(ctx, fname)
            if pr is None:
                r.info('%s = %s: no prototype found (macro?)' % (key, fname))
                continue
            ret, params = pr
            if attr == 'to_py_function':
                if not params:
                    r.info('%s = %s: no parameters' % (key, fname))
                    continue
                ok = holds(params[0], t)
                r.inst(key, sample='%s = %s(%s) converts %s' % (key, fname, params[0], t))
                if ok is False:
                    r.violate(key, rel, line, '%s.to_py_function = %s takes a %s, which cannot hold every %s value: large/negative values are converted to a different Python int' % (cname, fname, params[0], t))
                elif ok is None:
                    r.info('%s: parameter type %r unknown' % (key, params[0]))
            else:
                ok = holds(t, ret) if ret in TYPES else None
                r.inst(key, sample='%s = %s returns %s, stored in %s' % (key, fname, ret, t))
                # the function result is assigned to a variable of type t: the result type must not exceed t, unless the function itself range-checks (not decidable here)
                if ret in TYPES and TYPES[ret][0] != TYPES[t][0] and ret != t:
                    r.violate(key, rel, line, '%s.from_py_function = %s returns %s but the target type is %s (signedness differs): values wrap silently' % (cname, fname, ret, t))
    r.positive_control(holds('Py_ssize_t', 'size_t') is False and holds('size_t', 'size_t') is True and holds('long', 'Py_UCS4') is True, 'size_t does not fit Py_ssize_t')
    return r
