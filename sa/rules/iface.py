"""IFACE rule family: the Python <-> C interface (utility sections, helper names, arities, argument order)."""
import ast, re, collections

from ..core import Rule, AnalysisError, node_src, norm_stmt
from ..engine.pyindex import walk_no_nested
from ..engine.cutil import split_args, match_paren

LOADERS = ('load', 'load_cached', 'load_as_string')


def const_strs(node, env=None, depth=0):
    """Finite set of string values an expression can take, or None if unknown.
    Handles constants, IfExp, `a % b` / f-strings over finite parts, + concatenation, names bound once in env."""
    if isinstance(node, ast.Constant) and isinstance(node.value, str):
        return {node.value}
    if isinstance(node, ast.IfExp):
        a, b = const_strs(node.body, env, depth), const_strs(node.orelse, env, depth)
        return None if a is None or b is None else a | b
    if isinstance(node, ast.BoolOp) and isinstance(node.op, ast.Or):
        vals = [const_strs(v, env, depth) for v in node.values]
        if all(v is not None for v in vals):
            return set().union(*vals)
        return None
    if isinstance(node, ast.Name) and env and node.id in env and depth < 4:
        vals = [const_strs(v, env, depth + 1) for v in env[node.id]]
        if all(v is not None for v in vals):
            return set().union(*vals)
        return None
    if isinstance(node, ast.BinOp) and isinstance(node.op, ast.Add):
        a, b = const_strs(node.left, env, depth), const_strs(node.right, env, depth)
        if a is None or b is None or len(a) * len(b) > 64:
            return None
        return {x + y for x in a for y in b}
    if isinstance(node, ast.BinOp) and isinstance(node.op, ast.Mod):
        a = const_strs(node.left, env, depth)
        if a is None:
            return None
        parts = node.right.elts if isinstance(node.right, ast.Tuple) else [node.right]
        pv = [const_strs(p, env, depth) for p in parts]
        if any(p is None for p in pv):
            return None
        out = set()
        import itertools
        for t in a:
            for combo in itertools.product(*pv):
                try:
                    out.add(t % combo)
                except Exception:
                    return None
                if len(out) > 64:
                    return None
        return out
    if isinstance(node, ast.JoinedStr):
        parts = []
        for v in node.values:
            if isinstance(v, ast.Constant):
                parts.append({v.value})
            elif isinstance(v, ast.FormattedValue) and v.format_spec is None and v.conversion == -1:
                s = const_strs(v.value, env, depth)
                if s is None:
                    return None
                parts.append(s)
            else:
                return None
        import itertools
        out = {''.join(c) for c in itertools.product(*parts)}
        return out if len(out) <= 64 else None
    return None


def local_env(fn):
    """name -> list of value nodes assigned to it inside fn (simple `x = expr` only; for-loop over literal tuple)."""
    env = collections.defaultdict(list)
    poisoned = set()
    for n in walk_no_nested(fn):
        if isinstance(n, ast.Assign):
            for t in n.targets:
                if isinstance(t, ast.Name):
                    env[t.id].append(n.value)
                else:
                    for x in ast.walk(t):
                        if isinstance(x, ast.Name):
                            poisoned.add(x.id)
        elif isinstance(n, (ast.AugAssign, ast.AnnAssign)) and isinstance(n.target, ast.Name):
            if isinstance(n, ast.AnnAssign) and n.value is not None:
                env[n.target.id].append(n.value)
            else:
                poisoned.add(n.target.id)
        elif isinstance(n, (ast.For, ast.comprehension)):
            t = n.target
            if isinstance(t, ast.Name) and isinstance(n.iter, (ast.Tuple, ast.List)):
                env[t.id].extend(n.iter.elts)
            else:
                for x in ast.walk(t):
                    if isinstance(x, ast.Name):
                        poisoned.add(x.id)
        elif isinstance(n, (ast.With,)):
            for it in n.items:
                if it.optional_vars is not None:
                    for x in ast.walk(it.optional_vars):
                        if isinstance(x, ast.Name):
                            poisoned.add(x.id)
    for a in fn.args.args + fn.args.kwonlyargs:
        poisoned.add(a.arg)
    for p in poisoned:
        env.pop(p, None)
    return env


# ------------------------------------------------------------------------------------ I1 / I2
def rule_I1(ctx, floor=330):
    ix, cat = ctx.index, ctx.cat
    r = Rule('I1', 'every constant UtilityCode.load*/load_cached("Name", "File") site names an existing utility section', floor)
    dyn = 0
    for m in ix.modules.values():
        for qn, owner, fn in list(ix.functions_of(m)) + [('<module>', None, m.tree)]:
            env = local_env(fn) if isinstance(fn, (ast.FunctionDef, ast.AsyncFunctionDef)) else {}
            nodes = walk_no_nested(fn) if isinstance(fn, (ast.FunctionDef, ast.AsyncFunctionDef)) else _module_level_nodes(fn)
            for n in nodes:
                if not (isinstance(n, ast.Call) and isinstance(n.func, ast.Attribute) and n.func.attr in LOADERS and n.args):
                    continue
                recv = ast.unparse(n.func.value)
                if 'Utility' not in recv and 'utility' not in recv.lower() and recv not in ('cls',):
                    continue
                a0 = n.args[0]
                a1 = n.args[1] if len(n.args) > 1 else next((k.value for k in n.keywords if k.arg == 'from_file'), None)
                names = const_strs(a0, env)
                files = const_strs(a1, env) if a1 is not None else {None}
                if names is None or files is None:
                    dyn += 1
                    continue
                for name in sorted(names):
                    for file in sorted(files, key=str):
                        f2, n2 = file, name
                        if '::' in name:
                            f2, n2 = name.rsplit('::', 1)
                        if f2 is None:
                            dyn += 1
                            continue
                        key = '%s.%s:%s::%s' % (m.short, qn, f2, n2)
                        r.inst(key, sample='%s loads %s::%s' % (m.short + '.' + qn, f2, n2))
                        if f2 not in cat.files:
                            r.violate(key, m.rel, n.lineno, 'utility file %r does not exist (load of %r): KeyError/IOError when this code path runs' % (f2, n2))
                        elif not cat.has_section(f2, n2):
                            r.violate(key, m.rel, n.lineno, 'utility section %r does not exist in %s: the compiler crashes with KeyError when this code path runs' % (n2, f2))
    r.info('%d load sites with a non-constant name/file are not resolved (never alarms)' % dyn)
    return r


def _module_level_nodes(tree):
    todo = list(tree.body)
    while todo:
        n = todo.pop()
        if isinstance(n, (ast.FunctionDef, ast.AsyncFunctionDef, ast.Lambda)):
            continue
        yield n
        for ch in ast.iter_child_nodes(n):
            if isinstance(ch, (ast.FunctionDef, ast.AsyncFunctionDef, ast.Lambda)):
                continue
            todo.append(ch)


def rule_I2(ctx, floor=380):
    cat = ctx.cat
    r = Rule('I2', 'every @requires tag of a utility section resolves to an existing section', floor)
    for fn, secs in cat.files.items():
        for name in secs:
            for f2, n2, cj in cat.requires(fn, name):
                key = '%s::%s->%s::%s' % (fn, name, f2, n2)
                r.inst(key, sample=key)
                if not cat.has_section(f2, n2):
                    s = cat.section(fn, name)
                    r.violate(key, 'Cython/Utility/' + fn, s.line, '@requires %s::%s does not exist' % (f2, n2))
    return r


# ------------------------------------------------------------------------------------ I5 / I6 emitted calls
PLACEHOLDER = '§'


def str_template(node):
    """Emitted-text template with § for each dynamic part: (text, [placeholder expression nodes]) or None."""
    if isinstance(node, ast.Constant) and isinstance(node.value, str):
        return node.value.replace(PLACEHOLDER, '?'), []
    if isinstance(node, ast.JoinedStr):
        out, ph = '', []
        for v in node.values:
            if isinstance(v, ast.Constant):
                out += v.value.replace(PLACEHOLDER, '?')
            else:
                out += PLACEHOLDER
                ph.append(v.value)
        return out, ph
    if isinstance(node, ast.BinOp) and isinstance(node.op, ast.Mod):
        l = str_template(node.left)
        if l is None or l[1]:
            return None
        fmt = l[0]
        spec = re.compile(r'%(?:\((\w+)\))?[-#0 +]*(?:\d+|\*)?(?:\.\d+)?([diouxXeEfFgGcrsa%])')
        args = node.right.elts if isinstance(node.right, ast.Tuple) else [node.right]
        out, ph, pos, ai = '', [], 0, 0
        for m in spec.finditer(fmt):
            out += fmt[pos:m.start()]
            pos = m.end()
            if m.group(2) == '%':
                out += '%'
                continue
            out += PLACEHOLDER
            if m.group(1):
                key = m.group(1)
                val = None
                if isinstance(node.right, ast.Dict):
                    for k, v in zip(node.right.keys, node.right.values):
                        if isinstance(k, ast.Constant) and k.value == key:
                            val = v
                ph.append(val if val is not None else ast.Name(id='%(' + key + ')s', ctx=ast.Load()))
            else:
                ph.append(args[ai] if ai < len(args) else None)
                ai += 1
        out += fmt[pos:]
        return out, ph
    if isinstance(node, ast.BinOp) and isinstance(node.op, ast.Add):
        l, r2 = str_template(node.left), str_template(node.right)
        if l is None or r2 is None:
            return None
        return l[0] + r2[0], l[1] + r2[1]
    return None


CALL_RE = re.compile(r'\b((?:__Pyx_|__pyx_|__PYX_)\w+)\s*\(')


def emitted_calls(fn_or_tree):
    """Yield (ast node, helper name, [argument texts], [placeholder nodes per §]) for every complete
    `__Pyx_name(args)` inside an emitted string template."""
    seen_inner = set()
    nodes = list(ast.walk(fn_or_tree))
    for n in nodes:
        if id(n) in seen_inner:
            continue
        if not isinstance(n, (ast.JoinedStr, ast.BinOp, ast.Constant)):
            continue
        if isinstance(n, ast.Constant) and not (isinstance(n.value, str) and '_yx_' in n.value.lower().replace('p', '_', 1) or isinstance(n.value, str) and 'Pyx_' in n.value):
            continue
        t = str_template(n)
        if t is None:
            continue
        # outermost only
        for sub in ast.walk(n):
            if sub is not n:
                seen_inner.add(id(sub))
        text, ph = t
        if 'yx_' not in text:
            continue
        for m in CALL_RE.finditer(text):
            name = m.group(1)
            if text[m.end(1):m.end(1) + 1] == PLACEHOLDER or (m.start(1) > 0 and text[m.start(1) - 1] == PLACEHOLDER):
                continue  # dynamic prefix/suffix
            lp = m.end() - 1
            rp = match_paren(text, lp)
            if rp < 0:
                yield (n, name, None, None)
                continue
            args = split_args(text[lp + 1:rp])
            # map placeholders: count § before lp to index into ph
            base = text[:lp].count(PLACEHOLDER)
            argph = []
            k = base
            for a in args:
                cnt = a.count(PLACEHOLDER)
                argph.append(ph[k:k + cnt] if ph is not None else [])
                k += cnt
            yield (n, name, args, argph)


def _multi_valued(ph_nodes):
    """A placeholder that may expand to several comma separated arguments (', '.join(...), *_args names)."""
    for p in ph_nodes:
        if p is None:
            return True
        s = ast.unparse(p) if isinstance(p, ast.AST) else str(p)
        if 'join' in s or re.search(r'arg(s|list|_code|_list)\b|params|args_', s):
            return True
    return False


def rule_I5(ctx, modules=None, floor=250, names=None, rid='I5'):
    """Emitted-call arity: calls to __Pyx_ helpers in emitted C text have as many arguments as the C declaration."""
    ix, cat = ctx.index, ctx.cat
    r = Rule(rid, 'calls to __Pyx_ helpers emitted as C text pass as many arguments as the helper declares (every #if variant)', floor)
    unknown = 0
    for m in ix.modules.values():
        if not m.name.startswith('Cython.Compiler') and m.short not in ('Shadow',):
            continue
        if modules and m.short not in modules:
            continue
        for qn, owner, fn in ix.functions_of(m):
            if any(isinstance(x, (ast.FunctionDef, ast.AsyncFunctionDef)) and x is not fn and qn.endswith('.' + x.name) is False and False for x in ()):
                pass
            for n, name, args, argph in emitted_calls_fn(fn):
                if names and not names(name):
                    continue
                if args is None:
                    unknown += 1
                    continue
                ar = cat.arities(name)
                if not ar:
                    unknown += 1
                    continue
                if None in ar and len(ar) == 1:
                    continue
                if any(_multi_valued(p) and a.strip() == PLACEHOLDER for a, p in zip(args, argph)) or \
                        any(_multi_valued(p) for p in argph):
                    unknown += 1
                    continue
                key = '%s.%s:%s/%d' % (m.short, qn, name, len(args))
                r.inst(key, sample='%s emits %s(%s)' % (m.short + '.' + qn, name, ', '.join(args)))
                if len(args) not in ar and None not in ar:
                    r.violate(key, m.rel, n.lineno,
                              'emitted call %s(%s) passes %d argument(s) but the C helper takes %s: the generated C does not compile'
                              % (name, ', '.join(args), len(args), sorted(ar)))
    r.info('%d emitted calls are unresolved (split over several strings, multi-argument placeholders, or no C definition) and never alarm' % unknown)
    return r


def emitted_calls_fn(fn):
    """emitted_calls restricted to one function, not descending into nested function definitions twice."""
    class Holder(ast.AST):
        pass
    body = ast.Module(body=[s for s in fn.body], type_ignores=[])
    # nested defs are yielded separately by functions_of; strip them here
    todo = [body]
    strings = []
    yield from _emitted(body)


def _emitted(root):
    # walk without nested function definitions
    stack = [root]
    order = []
    while stack:
        n = stack.pop()
        for ch in ast.iter_child_nodes(n):
            if isinstance(ch, (ast.FunctionDef, ast.AsyncFunctionDef, ast.ClassDef)):
                continue
            stack.append(ch)
        order.append(n)
    inner = set()
    for n in order:
        if isinstance(n, (ast.JoinedStr, ast.BinOp)):
            if str_template(n) is not None:
                for sub in ast.walk(n):
                    if sub is not n:
                        inner.add(id(sub))
    for n in order:
        if id(n) in inner or not isinstance(n, (ast.JoinedStr, ast.BinOp, ast.Constant)):
            continue
        if isinstance(n, ast.Constant) and not isinstance(n.value, str):
            continue
        t = str_template(n)
        if t is None:
            continue
        text, ph = t
        if 'yx_' not in text and 'YX_' not in text:
            continue
        for m in CALL_RE.finditer(text):
            name = m.group(1)
            if text[m.end(1):m.end(1) + 1] == PLACEHOLDER or (m.start(1) > 0 and text[m.start(1) - 1] == PLACEHOLDER):
                continue
            if re.search(r'#\s*define\s+$', text[:m.start(1)]):
                continue   # a macro definition in emitted text, not a call
            lp = m.end() - 1
            rp = match_paren(text, lp)
            if rp < 0:
                yield (n, name, None, None)
                continue
            args = split_args(text[lp + 1:rp])
            k = text[:lp].count(PLACEHOLDER)
            argph = []
            for a in args:
                cnt = a.count(PLACEHOLDER)
                argph.append(ph[k:k + cnt])
                k += cnt
            yield (n, name, args, argph)


def rule_I6(ctx, floor=100, rid='I6', names=None):
    """Name-aligned argument order (mutual swap): if the expressions filling positions i and j of an emitted call
    are plain names equal to the C parameter names of positions j and i, the two arguments are swapped."""
    ix, cat = ctx.index, ctx.cat
    r = Rule(rid, 'no emitted helper call passes two name-carrying arguments in mutually swapped parameter positions', floor)

    def argname(a, phs):
        a = a.strip()
        if a == PLACEHOLDER and len(phs) == 1 and phs[0] is not None:
            p = phs[0]
            # self.x / x / x.result() / int(x) / bool(x)
            while isinstance(p, ast.Call) and p.args and isinstance(p.func, ast.Name) and p.func.id in ('int', 'bool', 'str'):
                p = p.args[0]
            if isinstance(p, ast.Call) and isinstance(p.func, ast.Attribute) and not p.args:
                p = p.func.value
            if isinstance(p, ast.Name):
                return p.id
            if isinstance(p, ast.Attribute):
                return p.attr
            return None
        if re.fullmatch(r'[A-Za-z_]\w*', a):
            return a
        return None

    def check(name, args, argph, decls):
        hits = []
        an = [argname(a, p) for a, p in zip(args, argph)]
        for d in decls:
            pn = d.param_names() if d.kind != 'macro' else [p.strip() for p in (d.params or [])]
            if len(pn) != len(args):
                continue
            for i in range(len(args)):
                for j in range(i + 1, len(args)):
                    if an[i] and an[j] and pn[i] and pn[j] and an[i] != an[j] and \
                            _same(an[i], pn[j]) and _same(an[j], pn[i]) and not _same(an[i], pn[i]):
                        hits.append((i, j, an[i], an[j], pn[i], pn[j]))
        return hits

    for m in ix.modules.values():
        if not m.name.startswith('Cython.Compiler'):
            continue
        for qn, owner, fn in ix.functions_of(m):
            for n, name, args, argph in emitted_calls_fn(fn):
                if args is None or (names and not names(name)):
                    continue
                decls = cat.lookup(name)
                if not decls:
                    continue
                carrying = sum(1 for a, p in zip(args, argph) if argname(a, p))
                if carrying < 2:
                    continue
                key = '%s.%s:%s' % (m.short, qn, name)
                r.inst(key, sample='%s emits %s(%s)' % (m.short + '.' + qn, name, ', '.join(
                    (argname(a, p) or a) for a, p in zip(args, argph))))
                for i, j, ai, aj, pi, pj in check(name, args, argph, decls)[:1]:
                    r.violate(key + ':%d<->%d' % (i, j), m.rel, n.lineno,
                              'emitted call to %s passes %r in the position of C parameter %r and %r in the position of %r: the two arguments are swapped'
                              % (name, ai, pi, aj, pj))
    # positive control
    class D:
        kind = 'func'
        params = ['int wraparound', 'int boundscheck']
        def param_names(self):
            return ['wraparound', 'boundscheck']
    hits = check('f', [PLACEHOLDER, PLACEHOLDER], [[ast.Name(id='boundscheck')], [ast.Name(id='wraparound')]], [D()])
    r.positive_control(bool(hits), 'swapped wraparound/boundscheck')
    return r


def _same(a, b):
    norm = lambda s: re.sub(r'^(?:c_|py_|is_|has_|have_)?', '', s.lower().strip('_'))
    return a.lower().strip('_') == b.lower().strip('_')
