"""C07-SHIFT: a power of two built as `<one> << n` is only built for shift counts the type of <one> can hold.

The fast path for `2 ** n` (Optimize.c::PyNumberPow2) and similar helpers compute 2**n as `1L << n` / `((unsigned PY_LONG_LONG)1) << n`
inside a chain of range guards on n.  `ONE << n` equals 2**n exactly when 0 <= n <= bits(type of ONE) - 1 for an unsigned ONE and
0 <= n <= bits - 2 for a signed ONE (bits - 1 would be the sign bit: `1L << 63` is LONG_MIN / undefined behaviour).  Necessary condition
decided here for every site `ONE << v` (ONE a literal 1 with suffix or cast, v a local integer variable of the enclosing function) whose
enclosing if-conditions bound v from above:

    every value of v admitted by the enclosing conditions is a legal, value-preserving shift count for the type of ONE —
    on each of the data models ILP32, LP64 and LLP64.

Technique: the enclosing conditions (engine/cguard) are parsed (engine/cexpr) and evaluated with C's integer conversion rules (casts wrap,
sizeof from the data model, usual arithmetic conversions) on the COMPLETE boundary partition of v's range: every integer in [-4, 140]
plus the neighbourhoods of 2**15, 2**31, 2**32, 2**63 and of the limits of v's type — all thresholds that can be written with
sizeof(T) * 8 +- k lie inside.  This is a truth table of the extracted guard expressions, not a run of the helper.  Sites whose guards do
not bound v from above (the bound comes from somewhere else) are reported as info and not decided."""
import re

from ..core import Rule
from ..engine import cexpr
from ..engine.cutil import strip_c_comments
from ..engine.cguard import guards, function_at

RID = 'C07-SHIFT'
FILES = ('Cython/Utility/Optimize.c', 'Cython/Utility/CMath.c')
# data models: bits of long and of pointers/size_t (int = 32, long long = 64 everywhere)
MODELS = {'ILP32': (32, 32), 'LP64': (64, 64), 'LLP64': (32, 64)}
ONE = re.compile(r'(?<![\w.)])(?:\(\s*\(\s*(?P<c1>[A-Za-z_][\w ]*?)\s*\)\s*1\s*\)|\(\s*(?P<c2>[A-Za-z_][\w ]*?)\s*\)\s*1|1(?P<suf>[uUlL]{0,3}))\s*<<\s*(?P<var>[A-Za-z_]\w*)\b(?!\s*\()')
INT_TYPES = r'(?:unsigned\s+|signed\s+)?(?:Py_ssize_t|size_t|int|long\s+long|long|short|char|PY_LONG_LONG|Py_hash_t|Py_uhash_t)(?:\s+int)?|unsigned'


class Undecided(Exception):
    pass


def type_info(t, model):
    """(bits, signed) of a C integer type name, or None"""
    lbits, pbits = MODELS[model]
    t = ' '.join(t.replace('const', ' ').replace('PY_LONG_LONG', 'long long').split())
    t = re.sub(r'\bsigned\b', '', t).strip() or 'int'
    uns = t.startswith('unsigned')
    base = t[len('unsigned'):].strip() if uns else t
    base = re.sub(r'\s+int$', '', base) or 'int'
    bits = {'char': 8, 'short': 16, 'int': 32, 'long': lbits, 'long long': 64, 'size_t': pbits, 'Py_ssize_t': pbits,
            'Py_hash_t': pbits, 'Py_uhash_t': pbits}.get(base)
    if bits is None:
        return None
    if base in ('size_t', 'Py_uhash_t'):
        uns = True
    return bits, not uns


def wrap(v, bits, signed):
    v &= (1 << bits) - 1
    if signed and v >= 1 << (bits - 1):
        v -= 1 << bits
    return v


def _promote(x):
    v, bits, signed = x
    if bits < 32:
        return v, 32, True
    return x


def _usual(a, b):
    a, b = _promote(a), _promote(b)
    if a[2] == b[2]:
        bits, signed = max(a[1], b[1]), a[2]
    else:
        u, s = (a, b) if not a[2] else (b, a)
        if u[1] >= s[1]:
            bits, signed = u[1], False
        else:
            bits, signed = s[1], True
    return (wrap(a[0], bits, signed), bits, signed), (wrap(b[0], bits, signed), bits, signed)


def teval(e, env, model):
    """typed evaluation of a cexpr AST: (value, bits, signed); raises Undecided for anything outside integer arithmetic on known names"""
    k = e[0]
    if k in ('num', 'char'):
        v = e[1]
        for bits in (32, MODELS[model][0], 64):
            if v < 1 << (bits - 1):
                return v, bits, True
        return v, 64, False
    if k == 'id':
        if e[1] in env:
            return env[e[1]]
        raise Undecided('identifier %s' % e[1])
    if k == 'sizeof':
        ti = type_info(e[1], model)
        if ti is None:
            raise Undecided('sizeof(%s)' % e[1])
        return ti[0] // 8, MODELS[model][1], False
    if k == 'cast':
        ti = type_info(e[1], model)
        if ti is None:
            raise Undecided('cast to %s' % e[1])
        v = teval(e[2], env, model)
        return wrap(v[0], ti[0], ti[1]), ti[0], ti[1]
    if k == 'call':
        if e[1] in ('likely', 'unlikely') and len(e[2]) == 1:
            return teval(e[2][0], env, model)
        raise Undecided('call of %s' % e[1])
    if k == 'un':
        v = _promote(teval(e[2], env, model))
        if e[1] == '!':
            return int(not v[0]), 32, True
        if e[1] == '-':
            return wrap(-v[0], v[1], v[2]), v[1], v[2]
        if e[1] == '+':
            return v
        if e[1] == '~':
            return wrap(~v[0], v[1], v[2]), v[1], v[2]
        raise Undecided('unary ' + e[1])
    if k == 'tern':
        return teval(e[2], env, model) if teval(e[1], env, model)[0] else teval(e[3], env, model)
    if k == 'bin':
        op = e[1]
        if op == '&&':
            return int(bool(teval(e[2], env, model)[0]) and bool(teval(e[3], env, model)[0])), 32, True
        if op == '||':
            return int(bool(teval(e[2], env, model)[0]) or bool(teval(e[3], env, model)[0])), 32, True
        a, b = teval(e[2], env, model), teval(e[3], env, model)
        if op in ('<<', '>>'):
            a, b = _promote(a), _promote(b)
            if b[0] < 0 or b[0] >= a[1]:
                raise Undecided('shift count out of range inside a guard')
            r = a[0] << b[0] if op == '<<' else a[0] >> b[0]
            if a[2] and not (-(1 << (a[1] - 1)) <= r < (1 << (a[1] - 1))):
                raise Undecided('signed overflow inside a guard')
            return wrap(r, a[1], a[2]), a[1], a[2]
        a, b = _usual(a, b)
        if op in ('<', '>', '<=', '>=', '==', '!='):
            r = {'<': a[0] < b[0], '>': a[0] > b[0], '<=': a[0] <= b[0], '>=': a[0] >= b[0], '==': a[0] == b[0], '!=': a[0] != b[0]}[op]
            return int(r), 32, True
        if op in ('+', '-', '*', '&', '|', '^'):
            r = {'+': a[0] + b[0], '-': a[0] - b[0], '*': a[0] * b[0], '&': a[0] & b[0], '|': a[0] | b[0], '^': a[0] ^ b[0]}[op]
            if a[2] and not (-(1 << (a[1] - 1)) <= r < (1 << (a[1] - 1))):
                raise Undecided('signed overflow inside a guard')
            return wrap(r, a[1], a[2]), a[1], a[2]
        if op in ('/', '%'):
            if b[0] == 0:
                raise Undecided('division by zero inside a guard')
            q = abs(a[0]) // abs(b[0]) * (1 if (a[0] < 0) == (b[0] < 0) else -1)
            r = q if op == '/' else a[0] - q * b[0]
            return wrap(r, a[1], a[2]), a[1], a[2]
        raise Undecided('operator ' + op)
    raise Undecided('node ' + k)


def domain(bits, signed):
    s = set(range(-4, 141))
    for p in (15, 16, 31, 32, 63, 64):
        for d in (-2, -1, 0, 1, 2):
            s.add((1 << p) + d)
            s.add(-(1 << p) + d)
    lo, hi = (-(1 << (bits - 1)), (1 << (bits - 1)) - 1) if signed else (0, (1 << bits) - 1)
    return sorted(v for v in s | {lo, lo + 1, hi - 1, hi} if lo <= v <= hi), hi


def one_type(m, model):
    cast = m.group('c1') or m.group('c2')
    if cast:
        return type_info(cast, model), '(%s)1' % ' '.join(cast.split())
    suf = (m.group('suf') or '').upper()
    t = ('unsigned ' if 'U' in suf else '') + ('long long' if suf.count('L') == 2 else 'long' if 'L' in suf else 'int')
    return type_info(t, model), '1' + (m.group('suf') or '')


def declared_type(header, body, upto, var):
    """declared C integer type of a local variable / parameter, or None"""
    for text in (body[:upto], header):
        ms = list(re.finditer(r'(?<![\w])(%s)\s+(?:\w+\s*(?:=[^,;]*)?,\s*)*%s\b\s*(?=[;=,)])' % (INT_TYPES, re.escape(var)), text))
        if ms:
            return ' '.join(ms[-1].group(1).split())
    return None


def mentions(e, var):
    return any(x[0] == 'id' and x[1] == var for x in cexpr.walk(e))


def analyse_site(text, m):
    """-> ('skip', why) | ('undecided', why, desc) | ('ok'|'bad', desc, detail)"""
    var = m.group('var')
    f = function_at(text, m.start())
    if f is None:
        return 'skip', 'not inside a function body'
    header, b0, b1 = f
    body = text[b0:b1 + 1]
    pos = m.start() - b0
    vtype = declared_type(header, body, pos, var)
    if vtype is None:
        return 'skip', '%s is not a local integer variable (macro constant?)' % var
    fname = re.search(r'(\w+)\s*\([^()]*\)\s*\{\s*$', header)
    fname = fname.group(1) if fname else '?'
    conds = []
    for cond, pol in guards(body, pos):
        if not re.search(r'\b%s\b' % re.escape(var), cond):
            continue
        try:
            conds.append((cexpr.parse(cond), pol, cond))
        except cexpr.ParseError:
            return 'undecided', 'guard `%s` cannot be parsed' % cond[:60], fname
    lit = None
    worst = None
    for model in MODELS:
        ot, lit = one_type(m, model)
        vt = type_info(vtype, model)
        if ot is None or vt is None:
            return 'undecided', 'type of the shifted literal / of %s is not a plain C integer type' % var, fname
        limit = ot[0] - 1 - (1 if ot[1] else 0)
        dom, hi = domain(*vt)
        admitted = []
        for v in dom:
            try:
                if all(bool(teval(e, {var: (v, vt[0], vt[1]), 'CHAR_BIT': (8, 32, True)}, model)[0]) == pol for e, pol, _c in conds):
                    admitted.append(v)
            except Undecided as u:
                return 'undecided', 'guard on %s not evaluable (%s)' % (var, u), fname
        if hi in admitted:
            return 'undecided', 'the enclosing conditions do not bound %s from above (%s)' % (var, ', '.join(c for _e, _p, c in conds) or 'no condition on it'), fname
        bad = [v for v in admitted if v < 0 or v > limit]
        if bad and worst is None:
            worst = (model, bad, limit, ot, admitted)
    desc = '%s:%s << %s' % (fname, lit, var)
    if worst:
        return 'bad', desc, worst + ([(c, p) for _e, p, c in conds],)
    return 'ok', desc, None


def section_of(raw, line):
    heads = [hm.group(1) for hm in re.finditer(r'^/{5,}\s*([\w.]+)\s*/{5,}', '\n'.join(raw.split('\n')[:line]), re.M)]
    return heads[-1].split('.')[0] if heads else '?'


POSITIVE = '''
static PyObject* pow2(PyObject *exp) {
    Py_ssize_t shiftby = PyLong_AsSsize_t(exp);
    if (likely(shiftby >= 0)) {
        if ((size_t)shiftby < sizeof(long) * 8) {
            long value = 1L << shiftby;
            return PyLong_FromLong(value);
        } else if ((size_t)shiftby <= sizeof(unsigned PY_LONG_LONG) * 8 - 1) {
            unsigned PY_LONG_LONG value = ((unsigned PY_LONG_LONG)1) << shiftby;
            return PyLong_FromUnsignedLongLong(value);
        }
    }
    return NULL;
}
'''


def rule_shift(ctx, floor=2):
    r = Rule(RID, 'every `ONE << n` power of two in the pow helpers is built only for shift counts n that the enclosing range guards keep within the value bits '
                  'of the type of ONE (ILP32, LP64, LLP64)', floor)
    for rel in FILES:
        raw = ctx.read(rel)
        text = strip_c_comments(raw)
        fn = rel.rsplit('/', 1)[1]
        seen = {}
        for m in ONE.finditer(text):
            line = text.count('\n', 0, m.start()) + 1
            res = analyse_site(text, m)
            if res[0] == 'skip':
                continue
            sec = section_of(raw, line)
            if res[0] == 'undecided':
                r.info('%s:%s:%s line %d: `%s` not decided: %s' % (fn, sec, res[2], line, ' '.join(m.group(0).split()), res[1]))
                continue
            n = seen[(sec, res[1])] = seen.get((sec, res[1]), 0) + 1
            key = '%s:%s:%s%s' % (fn, sec, res[1], '' if n == 1 else '#%d' % n)
            r.inst(key, sample='%s (line %d)' % (key, line))
            if res[0] == 'bad':
                model, bad, limit, ot, admitted, conds = res[2]
                r.violate(key, rel, line,
                          '%s: the enclosing conditions (%s) admit the shift count%s %s on %s, but the shifted literal is a %d-bit %s value, for which only '
                          '0..%d give 2**n (%s): 2 ** %d computed through this path is wrong (e.g. 1L << 63 is LONG_MIN, so 2 ** 63 becomes -9223372036854775808) '
                          'instead of falling through to the next wider path'
                          % (key, ' && '.join(('%s' if p else '!(%s)') % c for c, p in conds), 's' if len(bad) > 1 else '', ', '.join(map(str, bad[:4])), model,
                             ot[0], 'signed' if ot[1] else 'unsigned', limit, 'the top bit is the sign bit' if ot[1] else 'larger counts are undefined', bad[0]))
    got = {}
    for m in ONE.finditer(POSITIVE):
        res = analyse_site(POSITIVE, m)
        got[res[1]] = res[0]
    r.positive_control(got == {'pow2:1L << shiftby': 'bad', 'pow2:(unsigned PY_LONG_LONG)1 << shiftby': 'ok'},
                       'signed 1L shifted by up to sizeof(long)*8 - 1 (fires) next to a correctly bounded unsigned shift (silent)')
    return r
